"""Abstract forest state <-> JSON <-> real phyclone Tree.  Projection with consistency check (C07)."""
import numpy as np


class Inconsistent(Exception):
    """The four views of a Tree's assignment / structure disagree (this is the C07 check)."""


def canon(st):
    """Canonical hashable key of an abstract state given as {"f": [[..]..], "o": [..]} (or key itself)."""
    if isinstance(st, tuple):
        return st
    return (frozenset(frozenset(int(d) for d in c) for c in st["f"]), frozenset(int(d) for d in st["o"]))


def to_json(key):
    f, o = key
    return {"f": sorted(sorted(c) for c in f), "o": sorted(o)}


def key_str(key):
    j = to_json(key)
    return "f=%s o=%s" % (j["f"], j["o"])


def quick_key(tree):
    """Abstract key using the tree's own public identity (clades + outliers); no consistency check."""
    outl = tree._data.get(tree.outlier_node_name, [])
    return (tree.get_clades(), frozenset(dp.idx for dp in outl))


def project(tree, full=True):
    """Return (key, concrete) where key=(clades, outliers) and concrete describes names/parents/data.

    Reads internals without calling mutating accessors; raises Inconsistent when views disagree.
    """
    import rustworkx as rx

    g = tree._graph
    ROOT = tree._ROOT_NODE_NAME
    OUT = tree._OUTLIER_NODE_NAME
    ni = tree._node_indices
    nir = tree._node_indices_rev
    idxs = list(g.node_indices())
    names = {}
    for idx in idxs:
        payload = g[idx]
        if payload is None or not hasattr(payload, "node_id"):
            raise Inconsistent("graph slot %r holds no clone (payload %r)" % (idx, payload))
        name = payload.node_id
        if name in names.values():
            raise Inconsistent("duplicate node name %r" % (name,))
        names[idx] = name
        if nir.get(idx, "<missing>") != name:
            raise Inconsistent("node_indices_rev[%r]=%r but payload name %r" % (idx, nir.get(idx, "<missing>"), name))
        if ni.get(name, "<missing>") != idx:
            raise Inconsistent("node_indices[%r]=%r but graph index %r" % (name, ni.get(name, "<missing>"), idx))
    if len(ni) != len(idxs) or len(nir) != len(idxs):
        raise Inconsistent("index maps have %d/%d entries for %d graph nodes" % (len(ni), len(nir), len(idxs)))
    if ROOT not in ni:
        raise Inconsistent("no virtual root")
    root_idx = ni[ROOT]
    par = {}
    for idx in idxs:
        preds = list(g.predecessor_indices(idx))
        if idx == root_idx:
            if preds:
                raise Inconsistent("virtual root has a parent")
            continue
        if len(preds) != 1:
            raise Inconsistent("node %r has %d parents" % (names[idx], len(preds)))
        par[names[idx]] = names[preds[0]]
    reach = set(rx.descendants(g, root_idx))
    if len(reach) != len(idxs) - 1:
        raise Inconsistent("%d of %d clones reachable from the root" % (len(reach), len(idxs) - 1))
    if g.num_edges() != len(idxs) - 1:
        raise Inconsistent("edge count %d for %d nodes" % (g.num_edges(), len(idxs)))
    # data views
    seen = {}
    dat = {}
    data_map = tree._data
    for idx in idxs:
        name = names[idx]
        payload = g[idx]
        lst = data_map.get(name, [])
        ids = [dp.idx for dp in lst]
        if len(set(ids)) != len(ids):
            raise Inconsistent("data list of node %r has duplicates %r" % (name, ids))
        if set(ids) != set(payload.data_points):
            raise Inconsistent("node %r: _data has %r, payload has %r" % (name, sorted(ids), sorted(payload.data_points)))
        if name == ROOT and ids:
            raise Inconsistent("virtual root holds data %r" % ids)
        for d in ids:
            if d in seen:
                raise Inconsistent("data point %r in %r and %r" % (d, seen[d], name))
            seen[d] = name
        if name != ROOT:
            dat[name] = frozenset(ids)
    outl = [dp.idx for dp in data_map.get(OUT, [])]
    if len(set(outl)) != len(outl):
        raise Inconsistent("duplicate outliers %r" % outl)
    for d in outl:
        if d in seen:
            raise Inconsistent("data point %r is an outlier and in node %r" % (d, seen[d]))
        seen[d] = OUT
    for k, v in data_map.items():
        if k != OUT and k not in ni and len(v) > 0:
            raise Inconsistent("_data has key %r with data but no such node" % (k,))
    # clades
    kids = {}
    for n, p in par.items():
        kids.setdefault(p, []).append(n)
    clade = {}

    def rec(n):
        s = set(dat.get(n, ()))
        for k in kids.get(n, []):
            s |= rec(k)
        clade[n] = frozenset(s)
        return s

    for r in kids.get(ROOT, []):
        rec(r)
    key = (frozenset(clade.values()), frozenset(outl))
    if full:
        # the tree's own public identity must agree with the structural one
        pub = quick_key(tree)
        if pub != key:
            raise Inconsistent("public identity %r differs from structural %r" % (pub, key))
        if len(set(clade.values())) != len(clade):
            pass  # clones owning nothing can coincide as clades (consensus trees); not an inconsistency
    concrete = {
        "names": sorted(dat.keys(), key=str),
        "par": par,
        "dat": {n: sorted(v) for n, v in dat.items()},
        "outl": sorted(outl),
        "last": tree._last_node_added_to,
        "clade": clade,
    }
    return key, concrete


def data_ids(key):
    f, o = key
    s = set(o)
    for c in f:
        s |= c
    return s


def build(key, data, grid_size=None):
    """Construct a real Tree for the abstract state through the public API (bottom-up)."""
    from phyclone.tree import Tree

    f, o = canon(key)
    by_idx = {dp.idx: dp for dp in data}
    if grid_size is None:
        grid_size = data[0].grid_size
    tree = Tree(grid_size)
    name_of = {}
    for c in sorted(f, key=lambda c: (len(c), sorted(c))):
        subs = [x for x in f if x < c]
        kids = [x for x in subs if not any(x < y for y in subs)]
        own = set(c)
        for k in kids:
            own -= k
        node = tree.create_root_node(children=[name_of[k] for k in kids], data=[by_idx[d] for d in sorted(own)])
        name_of[c] = node
    for d in sorted(o):
        tree.add_data_point_to_outliers(by_idx[d])
    return tree


def make_data(n, dims=1, grid=5, seed=0, kind="int", outlier_prob=0.0, sizes=None, offset=0.0):
    """Small data sets. kind='int': value = log(integer table) so sums of products are exact integers."""
    from phyclone.data.base import DataPoint

    rs = np.random.RandomState(1000 + seed)
    data = []
    for i in range(n):
        if kind == "int":
            tab = rs.randint(1, 6, size=(dims, grid)).astype(float)
            val = np.log(tab)
        elif kind == "flat":
            val = np.zeros((dims, grid))
        else:
            # binomial-like real-valued profile
            ccf = rs.uniform(0.1, 0.9, size=dims)
            xs = np.linspace(0, 1, grid)
            val = np.array([-(xs - c) ** 2 * rs.uniform(5, 40) for c in ccf])
        if outlier_prob:
            size = 1 if sizes is None else sizes[i]
            op, opn = np.log(outlier_prob) * size, np.log1p(-outlier_prob) * size
        else:
            op, opn = 0, 0.0
        # offset: a "heavy" data point - every log-likelihood lowered by `offset` (times the sample index + 1)
        if offset:
            val = val - offset * (1 + np.arange(val.shape[0]))[:, None]
        data.append(DataPoint(i, np.ascontiguousarray(val), outlier_prob=op, outlier_prob_not=opn))
    return data
