"""Environment: which repository tree is under test, tier, seed, scratch directories."""
import os
import sys

VERIF = os.path.dirname(os.path.dirname(os.path.abspath(__file__)))
REPO = os.environ.get("PCV_REPO", "/repo")
SPEC_DIR = os.path.join(VERIF, "spec")
# scratch / output locations can be redirected (used when several mutant trees are checked in parallel)
BUILD_DIR = os.environ.get("PCV_BUILD_DIR", os.path.join(VERIF, "build"))
EVIDENCE_DIR = os.environ.get("PCV_EVIDENCE_DIR", os.path.join(VERIF, "evidence"))
REPLAY_DIR = os.environ.get("PCV_REPLAY_DIR", os.path.join(VERIF, "replays"))
GUARD = "PHYCLONE_VERIF"


def tier(default="quick"):
    return os.environ.get("VERIF_TIER", default)


def seed():
    try:
        return int(os.environ.get("VERIF_SEED", "0"))
    except ValueError:
        return 0


def use_repo():
    """Make `import phyclone` resolve to the tree under test (working tree of REPO)."""
    if REPO not in sys.path or sys.path[0] != REPO:
        if REPO in sys.path:
            sys.path.remove(REPO)
        sys.path.insert(0, REPO)
    os.environ.setdefault("NUMBA_CACHE_DIR", os.path.join(BUILD_DIR, "numba_cache"))
    os.environ[GUARD] = "1"
    import phyclone  # noqa

    got = os.path.realpath(os.path.dirname(os.path.dirname(phyclone.__file__)))
    want = os.path.realpath(REPO)
    if got != want:
        raise RuntimeError("phyclone imported from %s, expected %s" % (got, want))
    return phyclone


def scratch(name):
    d = os.path.join(BUILD_DIR, name)
    os.makedirs(d, exist_ok=True)
    return d


def ncpu():
    try:
        return len(os.sched_getaffinity(0))
    except Exception:
        return os.cpu_count() or 1
