"""Recording of conditional-SMC swarms from the real code and their validation against spec/PGibbsSM.tla."""
import contextlib
import json
import os

from . import absstate, env, tlc


WQ = 1000


def _qweights(swarm):
    """Normalised particle weights as integers out of WQ (TLC has no floats); None when not finite."""
    import numpy as np
    try:
        w = np.asarray(swarm.weights, dtype=float)
    except Exception:  # noqa
        return None
    if not np.all(np.isfinite(w)):
        return None
    return [int(round(float(x) * WQ)) for x in w]


def _wrap_swarm_method(orig, name, evname, events, proj):
    def f(self):
        before = self.swarm
        wb = _qweights(before) if (evname == "resample" and before is not None) else None
        r = orig[name](self)
        ev = {"ev": evname, "xs": [proj(p) for p in self.swarm.particles], "w": _qweights(self.swarm)}
        if evname == "resample":
            ev["wb"] = wb
            ev["resampled"] = self.swarm is not before
        events.append(ev)
        return r
    return f


@contextlib.contextmanager
def record_csmc(events):
    """Wraps ConditionalSMCSampler._init_swarm/_resample_swarm/_update_swarm, RootPermutationDistribution.sample and
    ParticleGibbsTreeSampler._sample_tree_from_swarm (class attributes; restored on exit)."""
    from phyclone.smc.samplers.conditional import ConditionalSMCSampler as C
    from phyclone.smc.utils import RootPermutationDistribution as R
    from phyclone.mcmc.particle_gibbs import ParticleGibbsTreeSampler as P

    names = {"_init_swarm": "init", "_resample_swarm": "resample", "_update_swarm": "update"}
    missing = [n for n in names if not hasattr(C, n)]
    if missing or not hasattr(P, "_sample_tree_from_swarm"):
        events.append({"ev": "unavailable", "missing": missing})
        yield
        return
    orig = {n: getattr(C, n) for n in names}
    orig_sample = R.__dict__["sample"]
    orig_sel = P._sample_tree_from_swarm

    def wrap(name, evname):
        return _wrap_swarm_method(orig, name, evname, events, lambda p: absstate.to_json(absstate.quick_key(p.tree)))

    def sample(tree, rng, source=None):
        out = orig_sample.__func__(tree, rng, source=source)
        if source is None:
            events.append({"ev": "sigma", "sigma": [dp.idx for dp in out]})
        return out

    def sel(self, swarm):
        t = orig_sel(self, swarm)
        events.append({"ev": "select", "out": absstate.to_json(absstate.quick_key(t))})
        return t

    for n, evn in names.items():
        setattr(C, n, wrap(n, evn))
    R.sample = staticmethod(sample)
    P._sample_tree_from_swarm = sel
    try:
        yield
    finally:
        for n in names:
            setattr(C, n, orig[n])
        R.sample = orig_sample
        P._sample_tree_from_swarm = orig_sel


def _thr_rational(x):
    from fractions import Fraction
    fr = Fraction(x).limit_denominator(20)
    return fr.numerator, fr.denominator


def validate(job, traces, n, np_, outl, workers=None, timeout=3000, conditional=True):
    d = env.scratch(os.path.join("tlc", job))
    path = os.path.join(d, "traces.json")
    with open(path, "w") as fh:
        json.dump(traces, fh)
    cfg = tlc.cfg_text(constants={"N": n, "NP": np_, "OutlierOn": tlc.tla_bool(outl), "Starts": "{}", "Conditional": tlc.tla_bool(conditional)}, init="TraceInit", next_="TraceNext",
                       invariants=["RetainedInSlot1", "LineagesHoldPrefix", "LineagesCompatible", "RetainedPathIsInput", "OutputComplete", "Accepted"])
    for t in traces:
        t.setdefault("thr", [3, 5])
        for e in t["events"]:
            if e["ev"] in ("init", "resample", "update"):
                if e.get("w") is None:
                    e["w"] = []
                if e["ev"] == "resample":
                    if e.get("wb") is None:
                        e["wb"] = []
                    e.setdefault("resampled", True)
    r = tlc.run_tlc(job, "TracePGibbs", cfg, workers=workers, timeout=timeout, environ={"TRACE_FILE": path})
    matched = set()
    for ln in r.tuple_prints:
        if ln.startswith('<<"MATCHED"'):
            matched.add(int(ln.split(",")[1].strip(" >")))
    return r, [k for k in range(1, len(traces) + 1) if k not in matched]


@contextlib.contextmanager
def record_usmc(events):
    """The same for the burn-in sampler: SMCSampler._init_swarm/_resample_swarm/_update_swarm and the order draw."""
    from phyclone.smc.samplers.standard import SMCSampler as C
    from phyclone.smc.utils import RootPermutationDistribution as R

    names = {"_init_swarm": "init", "_resample_swarm": "resample", "_update_swarm": "update"}
    if any(not hasattr(C, n) for n in names):
        events.append({"ev": "unavailable"})
        yield
        return
    orig = {n: getattr(C, n) for n in names}
    orig_sample = R.__dict__["sample"]
    empty = {"f": [], "o": []}

    def wrap(name, evname):
        return _wrap_swarm_method(orig, name, evname, events, lambda p: empty if p is None else absstate.to_json(absstate.quick_key(p.tree)))

    def sample(tree, rng, source=None):
        out = orig_sample.__func__(tree, rng, source=source)
        if source is None:
            events.append({"ev": "sigma", "sigma": [dp.idx for dp in out]})
        return out

    for n, evn in names.items():
        setattr(C, n, wrap(n, evn))
    R.sample = staticmethod(sample)
    try:
        yield
    finally:
        for n in names:
            setattr(C, n, orig[n])
        R.sample = orig_sample


def record_burnin_runs(n, np_, outl, kernel_name, seed, iters, threshold=0.6):
    import numpy as np
    from phyclone.tree import FSCRPDistribution, TreeJointDistribution, Tree
    from phyclone.smc.kernels import BootstrapKernel, SemiAdaptedKernel, FullyAdaptedKernel
    from phyclone.smc.samplers import UnconditionalSMCSampler
    from phyclone.smc.utils import RootPermutationDistribution

    data = absstate.make_data(n, dims=1, grid=5, seed=seed, kind="int", outlier_prob=(0.2 if outl else 0.0))
    rng = np.random.default_rng(seed)
    td = TreeJointDistribution(FSCRPDistribution(0.8))
    cls = {"boot": BootstrapKernel, "semi": SemiAdaptedKernel, "full": FullyAdaptedKernel}[kernel_name]
    kern = cls(td, rng, outlier_proposal_prob=(0.1 if outl else 0.0), perm_dist=RootPermutationDistribution())
    s = UnconditionalSMCSampler(kern, num_particles=np_, resample_threshold=threshold)
    tree = Tree.get_single_node_tree(data)
    traces = []
    for _ in range(iters):
        ev = []
        s0 = absstate.to_json(absstate.quick_key(tree))
        with record_usmc(ev):
            tree = s.sample_tree(tree)
        if ev and ev[0].get("ev") == "unavailable":
            return None
        ev.append({"ev": "select", "out": absstate.to_json(absstate.quick_key(tree))})
        traces.append({"s0": s0, "events": ev, "thr": list(_thr_rational(threshold))})
    return traces


def record_runs(n, np_, outl, kernel_name, seed, iters, threshold=0.6):
    """Seeded real particle-Gibbs updates (real numpy generator, real density) recorded as PGibbsSM traces."""
    import numpy as np
    from phyclone.tree import FSCRPDistribution, TreeJointDistribution, Tree
    from phyclone.smc.utils import RootPermutationDistribution
    from phyclone.smc.kernels import BootstrapKernel, SemiAdaptedKernel, FullyAdaptedKernel
    from phyclone.mcmc.particle_gibbs import ParticleGibbsTreeSampler

    data = absstate.make_data(n, dims=1, grid=5, seed=seed, kind="int", outlier_prob=(0.2 if outl else 0.0))
    rng = np.random.default_rng(seed)
    td = TreeJointDistribution(FSCRPDistribution(1.3))
    cls = {"boot": BootstrapKernel, "semi": SemiAdaptedKernel, "full": FullyAdaptedKernel}[kernel_name]
    kern = cls(td, rng, outlier_proposal_prob=(0.1 if outl else 0.0), perm_dist=RootPermutationDistribution())
    s = ParticleGibbsTreeSampler(kern, rng, num_particles=np_, resample_threshold=threshold)
    tree = Tree.get_single_node_tree(data)
    traces = []
    for _ in range(iters):
        ev = []
        s0 = absstate.to_json(absstate.quick_key(tree))
        with record_csmc(ev):
            tree = s.sample_tree(tree)
        if ev and ev[0].get("ev") == "unavailable":
            return None
        traces.append({"s0": s0, "events": ev, "thr": list(_thr_rational(threshold))})
    return traces


def mechanism_check(ck, prop, thorough, seed):
    """Record swarms of real updates and validate them with TLC against PGibbsSM (+ model-check the machine itself).
    Returns (n_traces, unmatched list, violated invariants)."""
    mc = "---- MODULE MC_PGSM ----\nEXTENDS PGibbsSM\nStartsDef == AllOn(Data, OutlierOn)\n====\n"
    for cond in (True, False):
        cfg = tlc.cfg_text(constants={"N": 3, "NP": 2, "OutlierOn": "TRUE", "Starts": "<- StartsDef", "Conditional": tlc.tla_bool(cond)},
                           invariants=["RetainedInSlot1", "LineagesHoldPrefix", "LineagesCompatible", "RetainedPathIsInput", "OutputComplete"])
        r = tlc.run_tlc("%s_pgsm%d" % (prop.lower(), cond), "MC_PGSM", cfg, mc_text=mc, timeout=1500)
        tlc.require_ok(r, "PGibbsSM")
        ck.add_tlc("PGibbsSM N=3 NP=2 outliers on, %s SMC: structural invariants from every start forest" % ("conditional" if cond else "unconditional (burn-in)"), r)
    total, unmatched_all, violated = 0, [], []
    k = 0
    for (n, np_, outl) in ((3, 2, True), (4, 3, False)) + (((4, 2, True), (5, 3, True)) if thorough else ()):
        traces = []
        for kn in ("boot", "semi", "full"):
            k += 1
            tr = record_runs(n, np_, outl, kn, 100 * seed + k, (60 if thorough else 20), threshold=(0.6, 0.9, 0.35, 1.0)[k % 4])
            if tr is None:
                ck.note("conditional SMC internals are no longer attachable: swarm-level trace validation skipped")
                return 0, [], []
            traces += tr
        rv, un = validate("%s_pgtrace_%d_%d_%d" % (prop.lower(), n, np_, outl), traces, n, np_, outl)
        if rv.errors or rv.timed_out:
            raise tlc.TLCError("TracePGibbs failed: %s\n%s" % (rv.summary(), rv.out[-1500:]))
        ck.add_tlc("TracePGibbs N=%d NP=%d outl=%d: %d recorded updates" % (n, np_, outl, len(traces)), rv)
        total += len(traces)
        ck.traces_validated += len(traces) - len(un)
        violated += rv.violated
        unmatched_all += [traces[i - 1] for i in un]
        # burn-in (unconditional) sampler on the same sizes
        btr = []
        for kn in ("boot", "semi", "full"):
            k += 1
            tr = record_burnin_runs(n, np_, outl, kn, 100 * seed + k, (40 if thorough else 12), threshold=(0.6, 0.9, 0.35, 1.0)[k % 4])
            if tr is None:
                break
            btr += tr
        if btr:
            rb, unb = validate("%s_usmc_%d_%d_%d" % (prop.lower(), n, np_, outl), btr, n, np_, outl, conditional=False)
            if rb.errors or rb.timed_out:
                raise tlc.TLCError("TracePGibbs (unconditional) failed: %s\n%s" % (rb.summary(), rb.out[-1500:]))
            ck.add_tlc("TracePGibbs unconditional N=%d NP=%d outl=%d: %d recorded burn-in passes" % (n, np_, outl, len(btr)), rb)
            total += len(btr)
            ck.traces_validated += len(btr) - len(unb)
            violated += rb.violated
            unmatched_all += [btr[i - 1] for i in unb]
    return total, unmatched_all, violated
