"""TableDist: stand-in for TreeJointDistribution whose two densities are looked up in integer tables
(Wm ~ exp(log_p), W1 ~ exp(log_p_one)) indexed by the abstract state.  The tables are loaded from the TLC
dump (spec/Tables.tla); they are never re-derived in Python."""
import math

from . import absstate


class UnknownState(Exception):
    pass


class _Prior:
    def __init__(self, alpha=1.0):
        self.alpha = alpha


class TableDist:
    def __init__(self, table_records, alpha=1.0):
        """table_records: list of {"st":.., "wm": int, "w1": int, ...} from the TLC dump."""
        self.prior = _Prior(alpha)
        self.wm = {}
        self.w1 = {}
        self.cnt = {}
        for r in table_records:
            k = absstate.canon(r["st"])
            self.wm[k] = r["wm"]
            self.w1[k] = r["w1"]
            if "cnt" in r:
                self.cnt[k] = r["cnt"]
        self.lookups = 0

    def _key(self, tree):
        k = absstate.quick_key(tree)
        if k not in self.wm:
            raise UnknownState(absstate.key_str(k))
        self.lookups += 1
        return k

    def log_p(self, tree):
        return math.log(self.wm[self._key(tree)])

    def log_p_one(self, tree):
        return math.log(self.w1[self._key(tree)])

    def compute_both_log_p_and_log_p_one(self, tree):
        k = self._key(tree)
        return math.log(self.wm[k]), math.log(self.w1[k])
