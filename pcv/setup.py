"""MANIFEST.setup_cmd: verify the toolchain is present (offline) and warm nothing that a check does not rebuild."""
import os, shutil, subprocess, sys
from . import env

def main():
    os.makedirs(env.BUILD_DIR, exist_ok=True)
    os.makedirs(env.EVIDENCE_DIR, exist_ok=True)
    ok = True
    for tool in ("java",):
        if shutil.which(tool) is None:
            print("missing tool:", tool); ok = False
    if not os.path.exists("/opt/veriftools/tla/tla2tools.jar"):
        print("missing tla2tools.jar"); ok = False
    try:
        env.use_repo()
    except Exception as e:
        print("cannot import phyclone from", env.REPO, e); ok = False
    print("setup", "ok" if ok else "FAILED")
    return 0 if ok else 1

if __name__ == "__main__":
    sys.exit(main())
