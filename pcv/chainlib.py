"""Shared pieces for the chain-level checks (C13, C14, C15, C19): option records, running a chain under the
recorder, judging trace entries, conversion of recorded events to Chain.tla traces and their TLC validation."""
import json
import math
import os

import numpy as np

from . import absstate, env, recorder, tlc

PROPOSALS = ("bootstrap", "semi-adapted", "fully-adapted")


def make_data(n, dims, grid, seed, outlier_prob, offset=0.0):
    """Data points the way load_data builds them (compute_outlier_prob), on integer likelihood tables."""
    from phyclone.data.base import DataPoint
    from phyclone.data.pyclone import compute_outlier_prob

    rs = np.random.RandomState(5000 + seed + 17 * n + dims)
    data = []
    for i in range(n):
        tab = rs.randint(1, 9, size=(dims, grid)).astype(float)
        if i == 2 and n >= 4:
            tab = prev_tab.copy()          # two data points with identical likelihoods (mutations with identical read counts)
        prev_tab = tab
        op = compute_outlier_prob(outlier_prob, (1, 3, 2)[i % 3])     # cluster sizes 1-3, as a clustered input gives
        # offset > 0: a "heavy" data point (a large cluster / many reads): every log-likelihood lowered by `offset`
        data.append(DataPoint(i, np.ascontiguousarray(np.log(tab) - offset), name="m%d" % i, outlier_prob=op[0], outlier_prob_not=op[1]))
    return data


def opt_record(o):
    """Options of a run as the Chain.tla option record."""
    sub = o["subtree_update_prob"]
    return {"burnin": int(o["burnin"]), "iters": int(o["num_iters"]), "thin": int(o["thin"]),
            "tmax": "inf" if o["max_time"] == float("inf") else ("zero" if o["max_time"] <= 0 else "finite"), "conc": bool(o["concentration_update"]),
            "sub": "never" if sub <= 0 else ("always" if sub >= 1 else "maybe"),
            "ndp": int(o["num_samples_data_point"]), "nprg": int(o["num_samples_prune_regraph"])}


def events_for_spec(events, n=None):
    out = []
    for e in events:
        if e["ev"] == "clear_caches":
            out.append({"name": "clear_caches"})
        elif e["ev"] == "sample_tree":
            out.append({"name": "sample_tree", "sampler": e["sampler"]})
        elif e["ev"] == "relabel":
            out.append({"name": "relabel"})
        elif e["ev"] == "conc_update":
            out.append({"name": "conc_update"})
        elif e["ev"] == "append":
            rec = {"name": "append", "iter": int(e["iter"])}
            if n is not None and e.get("tree") is not None:
                # Chain.tla's `whole`: the recorded tree holds every data point
                rec["whole"] = bool(absstate.data_ids(e["tree"]) == set(range(n)))
            out.append(rec)
    return out


DEFAULTS = dict(burnin=1, concentration_update=True, concentration_value=1.0, max_time=float("inf"), num_iters=3, num_particles=3,
                num_samples_data_point=1, num_samples_prune_regraph=1, outlier_prob=0, proposal="semi-adapted",
                resample_threshold=0.5, thin=1, subtree_update_prob=0.0)


def run_one(n, dims, seed, opts, grid=5, want_events=True, offset=0.0, data=None):
    """Run one chain; returns dict(error, problems[list of (kind,msg)], spec_trace, n_entries, results)."""
    from phyclone.tree import Tree, FSCRPDistribution, TreeJointDistribution

    o = dict(DEFAULTS)
    o.update(opts)
    if data is None:
        data = make_data(n, dims, grid, seed, o["outlier_prob"], offset=offset)
    rec = recorder.ChainRecorder() if want_events else None
    res, err = recorder.run_chain(data, seed, rec=rec, **o)
    out = {"error": err, "problems": [], "spec_trace": None, "n_entries": 0, "opts": o, "n": n, "dims": dims, "seed": seed}
    if rec is not None:
        out["spec_trace"] = {"opt": opt_record(o), "events": events_for_spec(rec.events, n)}
        out["events"] = rec.events
    if err:
        return out
    trace = res["trace"]
    out["n_entries"] = len(trace)
    out["iters"] = [e["iter"] for e in trace]
    ids = set(range(n))
    for j, e in enumerate(trace):
        lp = e.get("log_p_one")
        if lp is None or not isinstance(lp, (float, np.floating)) or not math.isfinite(float(lp)):
            out["problems"].append(("not_finite", "entry %d: log_p_one = %r" % (j, lp)))
        try:
            # restored with COLD memo tables, as a summary command in another process would
            from phyclone.tree.utils import compute_log_S, _convolve_two_children
            compute_log_S.cache_clear()
            _convolve_two_children.cache_clear()
            t = Tree.from_dict(e["tree"])
            key, _ = absstate.project(t, full=True)
        except absstate.Inconsistent as ex:
            out["problems"].append(("malformed", "entry %d: %s" % (j, ex)))
            continue
        except Exception as ex:
            out["problems"].append(("restore_failed", "entry %d: %s: %s" % (j, type(ex).__name__, ex)))
            continue
        if absstate.data_ids(key) != ids:
            out["problems"].append(("incomplete", "entry %d holds data %s of %s" % (j, sorted(absstate.data_ids(key)), sorted(ids))))
        # self-consistency: recorded log_p_one = density of the restored tree under the recorded alpha
        if lp is not None and math.isfinite(float(lp)):
            d = TreeJointDistribution(FSCRPDistribution(e["alpha"]))
            again = float(d.log_p_one(t))
            if abs(again - float(lp)) > 1e-9 * (1 + abs(again)):
                out["problems"].append(("inconsistent_entry", "entry %d (iter %s): recorded log_p_one %.12g, recomputed under recorded alpha %.6g: %.12g" % (
                    j, e["iter"], float(lp), e["alpha"], again)))
    # trace protocol
    oi = opt_record(o)
    want = [0]
    if oi["iters"] > 0:
        last = 0 if oi["tmax"] == "zero" else oi["iters"] - 1
        want += [i for i in range(0, last + 1) if i % oi["thin"] == 0]
    if oi["tmax"] == "finite":
        full = [0] + [i for i in range(0, oi["iters"]) if i % oi["thin"] == 0]
        if out["iters"] != full[:len(out["iters"])] or len(out["iters"]) < min(2, len(full)):
            out["problems"].append(("trace_protocol", "recorded iterations %s are not an initial part of %s" % (out["iters"], full)))
    elif out["iters"] != want:
        out["problems"].append(("trace_protocol", "recorded iterations %s, expected %s" % (out["iters"], want)))
    out["results"] = res
    return out


def validate_chain_traces(job, spec_traces, workers=None, timeout=3000):
    """Batch validation of recorded event streams against Chain.tla (TraceChain.tla); returns (result, unmatched tids)."""
    d = env.scratch(os.path.join("tlc", job))
    path = os.path.join(d, "traces.json")
    with open(path, "w") as fh:
        json.dump(spec_traces, fh)
    cfg = tlc.cfg_text(constants={"Options": "{}", "ClearEachIteration": "TRUE", "InterruptibleSMC": "FALSE"}, init="TraceInit", next_="TraceNext",
                       invariants=["TraceProtocol", "EntriesCurrent", "CacheFresh", "Accepted"], view="tview")
    r = tlc.run_tlc(job, "TraceChain", cfg, workers=workers, timeout=timeout, environ={"TRACE_FILE": path})
    matched = set()
    for ln in r.tuple_prints:
        if ln.startswith('<<"MATCHED"'):
            matched.add(int(ln.split(",")[1].strip(" >")))
    return r, [k for k in range(1, len(spec_traces) + 1) if k not in matched]


def model_check_chain(job, clear=True, interruptible=False):
    mc = ("---- MODULE MC_Chain ----\nEXTENDS Chain\n"
          "OptSet == [burnin : {0, 1, 2}, iters : {0, 1, 3, 4}, thin : {1, 2, 3}, tmax : {\"inf\", \"zero\", \"finite\"}, conc : BOOLEAN, "
          "sub : {\"never\", \"maybe\", \"always\"}, ndp : {0, 1, 2}, nprg : {0, 1}]\n====\n")
    cfg = tlc.cfg_text(spec="Spec", constants={"Options": "<- OptSet", "ClearEachIteration": tlc.tla_bool(clear), "InterruptibleSMC": tlc.tla_bool(interruptible)},
                       invariants=["TraceProtocol", "TraceComplete", "EntriesCurrent", "CacheFresh", "EntriesWhole"],
                       properties=["AppendOnly", "AlphaOnlyAtConc", "Terminates"], view="view")
    return tlc.run_tlc(job, "MC_Chain", cfg, mc_text=mc, timeout=1500)
