"""Binding of LossProb.tla (cluster outlier/loss prior: option resolution, truncal cluster, lost-cluster test) to
phyclone.run.run / phyclone.data.pyclone.load_data / phyclone.data.cluster_outlier_probabilities.

Instances (cluster table + option record) are generated here, handed to TLC as FixedInsts; TLC prints every final state
of the state machine for each instance (several when the truncal cluster is tied or a Monte-Carlo decision is not
forced); the real code is run on files written from the same instance and must land in one of them."""
import contextlib
import io
import json
import math
import os
import random

from . import env, tlc

GLOBAL_P = 0.03
LOW_P = 0.002
HIGH_P = 0.3
DEFAULT_P = 0.0001


def col_p(c):
    return 0.05 + 0.01 * c


CHROM_SEQS = [(1,), (1, 2), (1, 2, 3, 4), (1, 1, 1, 1), (1, 1, 2, 2), (1, 2, 3, 4, 5), (2, 2, 2, 2, 2), (1, 1, 2, 3, 4, 5), (1, 2, 3, 3)]


def gen_instances(seed, n, nc=3, ns=2, pmax=4):
    rs = random.Random(seed)
    out = []
    for k in range(n):
        prev = {(c, s): rs.randint(0, pmax) for c in range(1, nc + 1) for s in range(1, ns + 1)}
        mode = k % 4
        if mode == 1:      # one cluster on top everywhere
            top = rs.randint(1, nc)
            for s in range(1, ns + 1):
                prev[(top, s)] = pmax
                for c in range(1, nc + 1):
                    if c != top:
                        prev[(c, s)] = rs.randint(0, pmax - 1)
        elif mode == 2:    # tie between two candidates (equal sums, each on top somewhere)
            a, b = rs.sample(range(1, nc + 1), 2)
            for s in range(1, ns + 1):
                hi, lo = (a, b) if s % 2 else (b, a)
                prev[(hi, s)] = pmax
                prev[(lo, s)] = pmax - 2 if ns % 2 == 0 else rs.randint(0, pmax)
        chrom = {c: rs.choice(CHROM_SEQS) for c in range(1, nc + 1)}
        r = k % 12
        assign = r < 7
        opt = {"assign": assign, "userprov": (not assign and r in (7, 8)) or r == 6, "globpos": rs.random() < 0.5,
               "hascol": r in (5, 8, 9, 10) or (r == 6 and rs.random() < 0.5),
               "colpos": sorted(c for c in range(1, nc + 1) if rs.random() < 0.6), "haschrom": r != 4}
        out.append({"id": k, "nc": nc, "ns": ns, "prev": prev, "chrom": chrom, "opt": opt, "chrom_in": ("cluster", "data")[k % 2]})
    return out


def tla_inst(inst):
    prev = " @@ ".join("<<%d, %d>> :> %d" % (c, s, v) for (c, s), v in sorted(inst["prev"].items()))
    chrom = " @@ ".join("%d :> <<%s>>" % (c, ", ".join(map(str, v))) for c, v in sorted(inst["chrom"].items()))
    o = inst["opt"]
    opt = "[assign |-> %s, userprov |-> %s, globpos |-> %s, hascol |-> %s, colpos |-> {%s}, haschrom |-> %s]" % (
        tlc.tla_bool(o["assign"]), tlc.tla_bool(o["userprov"]), tlc.tla_bool(o["globpos"]), tlc.tla_bool(o["hascol"]),
        ", ".join(map(str, o["colpos"])), tlc.tla_bool(o["haschrom"]))
    return "[id |-> %d, prev |-> (%s), chrom |-> (%s), opt |-> %s]" % (inst["id"], prev, chrom, opt)


def run_spec(job, instances, timeout=1500):
    """{id: [final-state dicts]} from TLC, instances grouped by (nc, ns)."""
    groups = {}
    for inst in instances:
        groups.setdefault((inst["nc"], inst["ns"]), []).append(inst)
    jobs = []
    for (nc, ns), insts in sorted(groups.items()):
        mc = ("---- MODULE MC_LossProb ----\nEXTENDS LossProb\nInsts == {\n%s\n}\n====\n" % ",\n".join(tla_inst(i) for i in insts))
        cfg = tlc.cfg_text(constants={"NC": nc, "NS": ns, "PMax": 4, "ChromSeqs": "{}", "OptionSets": "{}", "FixedInsts": "<- Insts", "Dump": "TRUE"},
                           spec="Spec", invariants=["TypeOK", "Emit", "OffMeansOff", "OnMeansPositive", "ColumnRespected", "AssignedLowHigh", "TruncalNeverLost",
                                                    "SmallNeverLost", "LostOnlyIfConcentrated", "TruncalIsCandidate", "TruncalSetNonEmpty", "PriorsImplyProposals"])
        jobs.append(dict(job="%s_%d_%d" % (job, nc, ns), module="MC_LossProb", cfg=cfg, mc_text=mc, workers=4, timeout=timeout))
    finals = {}
    results = tlc.run_many(jobs)
    for r in results:
        tlc.require_ok(r, "LossProb fixed instances")
        for d in r.json_prints:
            finals.setdefault(d["id"], []).append(d)
    return finals, results


class _Stop(Exception):
    pass


def write_files(inst, d, order_seed):
    """Data file and cluster file for the instance, rows shuffled by order_seed (0 = generation order, 1 = reversed)."""
    nc, ns = inst["nc"], inst["ns"]
    o = inst["opt"]
    drows, crows = [], []
    for c in range(1, nc + 1):
        for i, ch in enumerate(inst["chrom"][c]):
            for s in range(1, ns + 1):
                mut = "c%d_m%d" % (c, i)
                dr = {"mutation_id": mut, "sample_id": "S%d" % s, "ref_counts": 40 + 3 * c + i, "alt_counts": 10 + 2 * s + c, "major_cn": 2, "minor_cn": 1, "normal_cn": 2}
                cr = {"mutation_id": mut, "sample_id": "S%d" % s, "cluster_id": "K%d" % c, "cellular_prevalence": inst["prev"][(c, s)] / 4.0}
                if o["haschrom"]:
                    (cr if inst["chrom_in"] == "cluster" else dr)["chrom"] = "chr%d" % ch
                if o["hascol"]:
                    cr["outlier_prob"] = col_p(c) if c in o["colpos"] else 0.0
                drows.append(dr)
                crows.append(cr)
    if order_seed == 1:          # reversed: the last cluster's rows come first
        drows.reverse()
        crows.reverse()
    elif order_seed:
        rs = random.Random(order_seed)
        rs.shuffle(drows)
        rs.shuffle(crows)
    dp = os.path.join(d, "data_%d_%d.tsv" % (inst["id"], order_seed))
    cp = os.path.join(d, "clusters_%d_%d.tsv" % (inst["id"], order_seed))
    for path, rows in ((dp, drows), (cp, crows)):
        cols = list(rows[0].keys())
        with open(path, "w") as fh:
            fh.write("\t".join(cols) + "\n")
            for r in rows:
                fh.write("\t".join(str(r[k]) for k in cols) + "\n")
    return dp, cp


def run_impl(inst, d, order_seed, seed=11):
    """Drives phyclone.run.run up to the end of load_data (a wrapper on the module binding stops the run there)."""
    import phyclone.run as prun
    import phyclone.data.cluster_outlier_probabilities as cop
    dp, cp = write_files(inst, d, order_seed)
    o = inst["opt"]
    seen = {}
    real_load = prun.load_data
    real_trunc = cop._define_truncal_cluster

    def load_wrapper(*a, **kw):
        seen["outlier_prob"] = kw.get("outlier_prob")
        seen["data"], seen["samples"] = real_load(*a, **kw)
        return seen["data"], seen["samples"]

    real_chain = prun.run_phyclone_chain

    def chain_wrapper(*a, **kw):
        # what run() hands to the chain (positional argument 9 of run_phyclone_chain is the outlier probability that
        # switches outlier proposals and the outlier option of the data-point sampler on)
        seen["chain_outlier_prob"] = a[9] if len(a) > 9 else kw.get("outlier_prob")
        raise _Stop()

    def trunc_wrapper(df):
        t = real_trunc(df)
        seen["truncal"] = t
        return t

    prun.load_data = load_wrapper
    prun.run_phyclone_chain = chain_wrapper
    cop._define_truncal_cluster = trunc_wrapper
    res = {"rejected": False}
    try:
        with contextlib.redirect_stdout(io.StringIO()):
            try:
                prun.run(dp, os.path.join(d, "out_%d.pkl.gz" % inst["id"]), cluster_file=cp, outlier_prob=GLOBAL_P if o["globpos"] else 0, seed=seed,
                         density="binomial", grid_size=5, low_loss_prob=LOW_P, high_loss_prob=HIGH_P, assign_loss_prob=o["assign"],
                         user_provided_loss_prob=o["userprov"], num_iters=1, burnin=1)
            except _Stop:
                pass
            except Exception as ex:  # noqa
                if "data" in seen or "outlier_prob" in seen:
                    raise
                res["rejected"] = True
                res["error"] = "%s: %s" % (type(ex).__name__, ex)
    finally:
        prun.load_data = real_load
        prun.run_phyclone_chain = real_chain
        cop._define_truncal_cluster = real_trunc
        for f in (dp, cp):
            os.remove(f)
    if res["rejected"]:
        return res
    res["outlier_prob"] = seen["outlier_prob"]
    res["chain_outlier_prob"] = seen.get("chain_outlier_prob")
    res["truncal"] = seen.get("truncal")
    res["points"] = [(dpnt.name, float(dpnt.outlier_prob), float(dpnt.outlier_prob_not)) for dpnt in seen["data"]]
    res["values"] = [[float(x) for x in dpnt.value.ravel()[:6]] for dpnt in seen["data"]]
    return res


def label_value(label, c):
    return {"zero": 0.0, "global": GLOBAL_P, "default": DEFAULT_P, "low": LOW_P, "high": HIGH_P, "col": col_p(c)}[label]


def expected_terms(final, nc):
    out = []
    for c in range(1, nc + 1):
        lab = final["p"][c - 1] if isinstance(final["p"], list) else final["p"][str(c)]
        size = final["sizes"][c - 1] if isinstance(final["sizes"], list) else final["sizes"][str(c)]
        pv = label_value(lab, c)
        if pv == 0:
            out.append(("K%d" % c, 0.0, 0.0))
        else:
            out.append(("K%d" % c, math.log(pv) * size, math.log1p(-pv) * size))
    return out


def matches(impl, final, inst):
    """Does the implementation's outcome equal this final state of the specification?  Returns (bool, reason)."""
    if final["phase"] == "rejected":
        return (impl["rejected"], "specification rejects the option combination")
    if impl["rejected"]:
        return (False, "implementation rejected: %s" % impl.get("error"))
    gl = label_value(final["glob"], 0)
    if abs(impl["outlier_prob"] - gl) > 1e-15:
        return (False, "global prior %r, specification %r (%s)" % (impl["outlier_prob"], gl, final["glob"]))
    if final["truncal"] != 0:
        if impl.get("truncal") != "K%d" % final["truncal"]:
            return (False, "truncal cluster %r, specification K%d" % (impl.get("truncal"), final["truncal"]))
    elif impl.get("truncal") is not None:
        return (False, "a truncal cluster was determined although the specification never reaches that step")
    exp = expected_terms(final, inst["nc"])
    got = impl["points"]
    if [g[0] for g in got] != [e[0] for e in exp]:
        return (False, "data point names %s, expected %s" % ([g[0] for g in got], [e[0] for e in exp]))
    for g, e in zip(got, exp):
        if abs(g[1] - e[1]) > 1e-9 * max(1.0, abs(e[1])) or abs(g[2] - e[2]) > 1e-9 * max(1.0, abs(e[2])):
            return (False, "prior terms of %s are (%r, %r), specification (%r, %r)" % (g[0], g[1], g[2], e[1], e[2]))
    return (True, "")


def scratch_dir(name):
    d = env.scratch(name)
    os.makedirs(d, exist_ok=True)
    return d


INVARIANTS = ["TypeOK", "OffMeansOff", "OnMeansPositive", "ColumnRespected", "AssignedLowHigh", "TruncalNeverLost", "SmallNeverLost",
              "LostOnlyIfConcentrated", "TruncalIsCandidate", "TruncalSetNonEmpty", "PriorsImplyProposals"]

MC_ALL = """---- MODULE MC_LossProbAll ----
EXTENDS LossProb
ChromDef == {<<1>>, <<1, 2, 3, 4>>, <<1, 1, 1, 1>>, <<1, 1, 2, 2>>%s}
B == {TRUE, FALSE}
OptDef == {[assign |-> a, userprov |-> u, globpos |-> g, hascol |-> h, colpos |-> cp, haschrom |-> hc] :
            a \\in B, u \\in B, g \\in B, h \\in B, cp \\in {{}, {1}, {2, 3}, {1, 2, 3}}, hc \\in B}
====
"""


def model_runs(ck, thorough, prefix=""):
    """All instances over small constants: every option record x every prevalence table x chromosome patterns."""
    pmax = 2 if thorough else 1
    extra = ", <<1, 2, 3, 4, 5>>, <<2, 2, 2, 2, 2>>" if thorough else ""
    consts = {"NC": 3, "NS": 2, "PMax": pmax, "ChromSeqs": "<- ChromDef", "OptionSets": "<- OptDef", "FixedInsts": "{}", "Dump": "FALSE"}
    jobs = [dict(job=prefix + "lossprob_all", module="MC_LossProbAll", mc_text=MC_ALL % extra, workers=(16 if thorough else 8), timeout=3000,
                 cfg=tlc.cfg_text(constants=consts, spec="Spec", invariants=INVARIANTS)),
            dict(job=prefix + "lossprob_dev", module="MC_LossProbAll", mc_text=MC_ALL % "", workers=4, timeout=1500,
                 cfg=tlc.cfg_text(constants=dict(consts, PMax=1), spec="Spec", invariants=["PositiveWheneverOn"])),
            dict(job=prefix + "lossprob_raw", module="MC_LossProbAll", mc_text=MC_ALL % "", workers=4, timeout=1500,
                 cfg=tlc.cfg_text(constants=dict(consts, PMax=1), spec="Spec", invariants=["PriorsImplyProposalsRaw"]))]
    r_all, r_dev, r_raw = tlc.run_many(jobs)
    tlc.require_ok(r_all, "LossProb all instances")
    ck.add_tlc("LossProb.tla all instances (3 clusters x 2 samples, prevalences 0..%d, %d chromosome patterns, 128 option records)" % (pmax, 6 if thorough else 4), r_all)
    ck.add_tlc("LossProb.tla OBSERVATION PositiveWheneverOn (refuted: --assign-loss-prob with a column keeps zero entries)", r_dev, must_fail=True)
    ck.add_tlc("LossProb.tla DEVIATION chain receives the option before defaulting (PriorsImplyProposalsRaw refuted)", r_raw, must_fail=True)
    if "PriorsImplyProposalsRaw" not in r_raw.violated:
        raise tlc.TLCError("LossProb: PriorsImplyProposalsRaw unexpectedly holds")
    if "PositiveWheneverOn" not in r_dev.violated:
        raise tlc.TLCError("LossProb: PositiveWheneverOn unexpectedly holds")


def borderline_instance(iid):
    """No ties; the exact p-value of cluster 2 is 1/99 - right at the 0.01 threshold of the 10000-draw test."""
    return {"id": iid, "nc": 2, "ns": 2, "prev": {(1, 1): 4, (1, 2): 4, (2, 1): 2, (2, 2): 1},
            "chrom": {1: (1, 1, 1, 1, 1, 2, 3, 5, 5, 6, 6, 6), 2: (1, 2, 1, 1)},
            "opt": {"assign": True, "userprov": False, "globpos": False, "hascol": False, "colpos": [], "haschrom": True}, "chrom_in": "cluster"}


def borderline_instances3(first_id):
    """Three clusters: the truncal one, a borderline one (exact p-value 1/99) and further tested clusters whose tests
    consume the random stream before or after it depending on the order in which clusters are visited."""
    out = []
    for k, (ch3, ch4) in enumerate((((1, 2, 3, 4), None), ((2, 2, 3, 3, 4), None), ((1, 2, 3, 4), (5, 5, 6, 6)), ((6, 6, 6, 6), (1, 2, 3, 5, 6)))):
        nc = 3 if ch4 is None else 4
        chrom = {1: (1, 2, 1, 1), 2: (1, 1, 1, 1, 1, 2, 3, 5, 5, 6, 6, 6), 3: ch3}
        prev = {(1, 1): 2, (1, 2): 1, (2, 1): 4, (2, 2): 4, (3, 1): 1, (3, 2): 3}
        if ch4 is not None:
            chrom[4] = ch4
            prev[(4, 1)] = 0
            prev[(4, 2)] = 2
        out.append({"id": first_id + k, "nc": nc, "ns": 2, "prev": prev, "chrom": chrom, "seed": 20 + k,
                    "opt": {"assign": True, "userprov": False, "globpos": False, "hascol": False, "colpos": [], "haschrom": True}, "chrom_in": ("cluster", "data")[k % 2]})
    return out


def bind(ck, prop, n_inst, orders, seed, want_spec=True, want_order=True, want_terms=True, spec_verdict=False, want_wiring=False, corrupt=None):
    """Verdicts: (want_terms) every clustered data point's prior terms are size x log p / size x log(1-p) for one of the
    probabilities the input supplies; (want_order) identical loaded data under every row order of the two files.
    want_spec: the outcome must be a final state of LossProb.tla for the instance.  With spec_verdict (C05: "the
    per-mutation p" is the one the documented options and the cluster table resolve to) a mismatch of the global prior or
    of the terms is a violation; otherwise, and for a mismatch of the truncal cluster alone, it is MODEL-DRIFT."""
    from . import kernels
    insts = gen_instances(seed, n_inst) + gen_instances(seed + 1, max(4, n_inst // 4), nc=4, ns=3)
    for k, inst in enumerate(insts):
        inst["id"] = k
    insts.append(borderline_instance(len(insts)))
    insts.extend(borderline_instances3(len(insts)))
    finals, results = run_spec("lossprob_%s" % prop.lower(), insts)
    for r in results:
        ck.add_tlc("LossProb.tla on harness instances (final states as oracle)", r)
    d = scratch_dir("lossprob_%s" % prop.lower())

    def task(inst):
        outs = []
        for order in orders:
            try:
                outs.append(run_impl(inst, d, order, seed=inst.get("seed", 11)))
            except Exception as ex:  # noqa
                outs.append({"exception": "%s: %s" % (type(ex).__name__, ex)})
        return outs

    n_rej = n_lost = n_tie = n_drift = 0
    for inst, outs in zip(insts, kernels.parallel_map(task, insts, chunksize=2)):
        fs = finals.get(inst["id"], [])
        rep = {"instance": {"prev": {"%d,%d" % k: v for k, v in inst["prev"].items()}, "chrom": {str(k): list(v) for k, v in inst["chrom"].items()},
                            "opt": inst["opt"], "chrom_in": inst["chrom_in"], "nc": inst["nc"], "ns": inst["ns"]}}
        if corrupt == "order" and inst is insts[0] and len(outs) > 1 and "points" in outs[1]:
            outs[1]["points"] = [(n, a - 1.0, b) for n, a, b in outs[1]["points"]]
        ck.evaluations += len(outs)
        ck.traces_validated += 1
        ck.nontrivial("lossprob:%d" % inst["id"])
        n_rej += any(f["phase"] == "rejected" for f in fs)
        n_lost += any(f["lost"] for f in fs)
        n_tie += any(len(f["truncal_set"]) > 1 and f["truncal"] != 0 for f in fs)
        for order, impl in zip(orders, outs):
            if "exception" in impl:
                ck.violation("%s|cluster_prior|exception" % prop, "loading the clustered input raised %s" % impl["exception"], dict(rep, order=order))
                continue
            if impl.get("rejected"):
                continue
            if want_wiring and impl.get("chain_outlier_prob") is not None:
                # the run command must build its samplers with outlier proposals ON whenever the loaded data carry outlier
                # priors (LossProb.tla: ModellingOn) - otherwise the update can never reach trees the posterior gives mass to
                has_prior = any(a != 0 or b != 0 for _, a, b in impl["points"])
                if has_prior and not (impl["chain_outlier_prob"] > 0):
                    ck.violation("%s|run_wiring|outliers_off_although_priors_loaded" % prop, "run() hands outlier probability %r to the chain (outlier proposals off) although the loaded data points carry outlier priors %s (options %s)" % (
                        impl["chain_outlier_prob"], [(n_, round(a, 4)) for n_, a, _ in impl["points"]], json.dumps(inst["opt"], sort_keys=True)), dict(rep, order=order))
                elif not has_prior and impl["chain_outlier_prob"] > 0:
                    ck.model_drift("run() switches outlier proposals on (%r) although no loaded data point carries an outlier prior (options %s)" % (impl["chain_outlier_prob"], json.dumps(inst["opt"], sort_keys=True)))
            if want_terms:
                # the property: the two prior terms are size x log p and size x log(1-p) for ONE probability p that the input supplies
                cands = {0.0, GLOBAL_P, DEFAULT_P, LOW_P, HIGH_P}
                for (name, a, b), c in zip(impl["points"], range(1, inst["nc"] + 1)):
                    size = len(inst["chrom"][c])
                    ok = any((pv == 0 and a == 0 and b == 0) or (pv > 0 and abs(a - size * math.log(pv)) <= 1e-9 * abs(a) + 1e-12 and abs(b - size * math.log1p(-pv)) <= 1e-9 * abs(b) + 1e-12)
                             for pv in cands | {col_p(c)})
                    if not ok:
                        ck.violation("%s|cluster_prior|terms" % prop, "cluster %s of %d mutations has prior terms (%r, %r): not size x log p, size x log(1-p) for any of the probabilities the "
                                     "input supplies (global %s, column %s, low %s, high %s, default %s, 0)" % (name, size, a, b, GLOBAL_P, col_p(c), LOW_P, HIGH_P, DEFAULT_P),
                                     dict(rep, order=order, impl=impl))
                        break
            if want_spec:
                ms = [matches(impl, f, inst) for f in fs]
                if not any(m[0] for m in ms) and spec_verdict and not any("truncal" in m[1] for m in ms):
                    # C05: the per-mutation p is the one the documented options / the cluster table's column resolve to
                    n_drift += 1
                    ck.violation("%s|cluster_prior|not_the_documented_p" % prop, "cluster prior terms are not those of the probability the options and the cluster table resolve to "
                                 "(LossProb.tla, options %s): %s" % (json.dumps(inst["opt"], sort_keys=True), "; ".join(sorted({m[1] for m in ms}))[:300]), dict(rep, order=order, impl=impl))
                elif not any(m[0] for m in ms):
                    n_drift += 1
                    if n_drift <= 3:
                        ck.model_drift("cluster prior resolution differs from LossProb.tla (options %s): %s" % (
                            json.dumps(inst["opt"], sort_keys=True), "; ".join(sorted({m[1] for m in ms}))[:300]))
        if want_order:
            ref = outs[0]
            for order, impl in zip(orders[1:], outs[1:]):
                if "exception" in impl or "exception" in ref:
                    continue
                if impl.get("points") != ref.get("points") or impl.get("values") != ref.get("values") or impl.get("rejected") != ref.get("rejected"):
                    what = "assign" if inst["opt"]["assign"] and not inst["opt"]["hascol"] else "options"
                    ck.violation("%s|cluster_prior|row_order|%s" % (prop, what),
                                 "the same data and cluster tables with rows in another order load differently (seed fixed): %s vs %s" % (
                                     [(n, round(a, 6)) for n, a, _ in ref.get("points", [])], [(n, round(a, 6)) for n, a, _ in impl.get("points", [])]),
                                 dict(rep, order=order))
                    break
    ck.extra["lossprob"] = {"instances": len(insts), "row_orders": len(orders), "rejected_option_sets": n_rej, "with_lost_cluster": n_lost, "with_truncal_tie": n_tie, "outcomes_outside_the_specification": n_drift}
    import shutil
    shutil.rmtree(d, ignore_errors=True)
