"""C05 - emission likelihood grids implement the PyClone mutation model.

M: Emission.tla - for every (major <= 3 (thorough 4), minor <= major, normal in {1,2,3}, error rate in {1/1000, 1/100, 2/5},
   tumour content in {1, 3/4, 1/10}) TLC enumerates the mutational genotypes (copy numbers, allele probabilities with
   the min(1-eps, .) cap, uniform prior) and the exact rational expected allele fraction of each genotype at every
   grid point f = i/(G-1); GenotypeCount, VafInUnit, VafAtZero are checked on all of them.
O: a one-row input file per configuration x read counts (zero depth, tiny, moderate, deep) x density x precision is
   loaded with load_data; the grid must equal  log sum_c (1/C) pmf(alt | depth, vaf_c(f))  with the binomial /
   beta-binomial pmf evaluated in exact rational arithmetic (rising factorials) on TLC's VAFs (1e-9); summed over all
   alternate counts the grid is one (depths <= 40); a clustered data point is the sum of its members' grids with
   outlier terms log p and log(1-p) times the cluster size.
"""
import contextlib
import io
import json
import math
import os
import random
import shutil
from fractions import Fraction

import numpy as np

from .. import env, tlc, kernels, lossprob
from ..evidence import Check

MC = "---- MODULE MC_Em ----\nEXTENDS Emission\nEpsDef == {<<1,1000>>, <<1,100>>, <<2,5>>}\nTsDef == {<<1,1>>, <<3,4>>, <<1,10>>}\n====\n"
COLS = ["mutation_id", "sample_id", "ref_counts", "alt_counts", "major_cn", "minor_cn", "normal_cn", "tumour_content", "error_rate"]


def logfrac(x):
    if x <= 0:
        return float("-inf")
    return math.log(x.numerator) - math.log(x.denominator)


def binom_pmf(n, x, p):
    return math.comb(n, x) * p ** x * (1 - p) ** (n - x)


def betabinom_pmf(n, x, a, b):
    num = Fraction(1)
    for i in range(x):
        num *= a + i
    for j in range(n - x):
        num *= b + j
    den = Fraction(1)
    for k in range(n):
        den *= a + b + k
    return math.comb(n, x) * num / den


def exact_grid(rec, ref, alt, density, s):
    n = ref + alt
    C = len(rec["genotypes"])
    out = []
    for i in range(len(rec["vaf"][0])):
        tot = Fraction(0)
        for c in range(C):
            v = Fraction(rec["vaf"][c][i][0], rec["vaf"][c][i][1])
            if density == "binomial":
                tot += Fraction(1, C) * binom_pmf(n, alt, v)
            else:
                a = v * s
                tot += Fraction(1, C) * betabinom_pmf(n, alt, a, s - a)
        out.append(logfrac(tot))
    return np.array(out)


def write_rows(path, rows):
    with open(path, "w") as fh:
        fh.write("\t".join(COLS) + "\n")
        for r in rows:
            fh.write("\t".join(str(r[c]) for c in COLS) + "\n")


def load(path, density, G, precision, cluster_file=None, outlier_prob=0):
    from phyclone.data.pyclone import load_data
    with contextlib.redirect_stdout(io.StringIO()):
        return load_data(path, None, 0.0001, 0.4, False, cluster_file=cluster_file, density=density, grid_size=G, outlier_prob=outlier_prob, precision=precision)


def check_config(rec, idx, G, workdir, thorough, corrupt=None):
    probs = []
    cfg = rec["cfg"]
    d = os.path.join(workdir, "e%d_%d" % (os.getpid(), idx))
    os.makedirs(d, exist_ok=True)
    try:
        t = cfg["t"][0] / cfg["t"][1]
        eps = cfg["eps"][0] / cfg["eps"][1]
        counts = [(0, 0), (3, 1), (0, 4), (37, 23)] + ([(4100, 900), (3, 2997)] if idx % 9 == 0 else [])       # deep rows incl. one where nearly every read is variant (genotype terms thousands of nats apart)
        counts = counts + ([(60, 0), (1, 59)] if thorough else [])
        rows = []
        for k, (ref, alt) in enumerate(counts):
            rows.append({"mutation_id": "m%02d" % k, "sample_id": "S1", "ref_counts": ref, "alt_counts": alt, "major_cn": cfg["major"], "minor_cn": cfg["minor"],
                         "normal_cn": cfg["normal"], "tumour_content": repr(t), "error_rate": repr(eps)})
        p = os.path.join(d, "in.tsv")
        write_rows(p, rows)
        rep = {"cfg": cfg}
        for density, prec, s in (("binomial", 400.0, None), ("beta-binomial", 1.0, Fraction(1)), ("beta-binomial", 400.5, Fraction(801, 2))):
            try:
                data, _ = load(p, density, G, prec)
            except Exception as ex:
                probs.append(("C05|exception:%s" % type(ex).__name__, "load_data raised %s: %s for %s" % (type(ex).__name__, ex, cfg), rep))
                continue
            for dp, (ref, alt) in zip(data, counts):
                if density == "beta-binomial" and ref + alt > 200:
                    continue  # exact rising factorials of that length are evaluated for the binomial only
                want = exact_grid(rec, ref, alt, density, s)
                if corrupt == "vaf" and idx == 0:
                    want = want + 1e-6
                got = dp.value[0]
                if got.shape != want.shape or not np.all(np.isfinite(got)):
                    probs.append(("C05|shape_or_finite", "grid shape %s / non-finite for %s counts %s" % (got.shape, cfg, (ref, alt)), rep))
                    continue
                dev = float(np.max(np.abs(got - want)))
                if dev > 1e-9 * (1 + float(np.max(np.abs(want)))):
                    probs.append(("C05|grid|%s" % density, "grid for %s, counts ref=%d alt=%d, %s precision %s deviates from the PyClone mixture by %.3g (got %s, exact %s)" % (
                        cfg, ref, alt, density, prec, dev, np.round(got, 6).tolist(), np.round(want, 6).tolist()), dict(rep, counts=[ref, alt], density=density, precision=prec)))
        # several samples listed in non-sorted order: one likelihood row per sample, in sorted sample order
        if idx % 3 == 0:
            per = {"S2": (9, 2), "S10": (1, 7), "S1": (25, 5)}
            rows = [{"mutation_id": "mm", "sample_id": sn, "ref_counts": rc[0], "alt_counts": rc[1], "major_cn": cfg["major"], "minor_cn": cfg["minor"],
                     "normal_cn": cfg["normal"], "tumour_content": repr(t), "error_rate": repr(eps)} for sn, rc in per.items()]
            write_rows(p, rows)
            data, samples = load(p, "binomial", G, 400.0)
            if list(samples) != sorted(per):
                probs.append(("C05|samples|order", "samples %s, expected %s" % (list(samples), sorted(per)), rep))
            else:
                for si, sn in enumerate(samples):
                    want = exact_grid(rec, per[sn][0], per[sn][1], "binomial", None)
                    if float(np.max(np.abs(data[0].value[si] - want))) > 1e-9 * (1 + float(np.max(np.abs(want)))):
                        probs.append(("C05|samples|row", "likelihood row %d (sample %s) is not the grid of that sample's counts for %s" % (si, sn, cfg), rep))
        # normalisation over alternate counts on the code's own grids
        if idx % 4 == 0:
            n = 12 if not thorough else 40
            rows = [{"mutation_id": "a%03d" % x, "sample_id": "S1", "ref_counts": n - x, "alt_counts": x, "major_cn": cfg["major"], "minor_cn": cfg["minor"],
                     "normal_cn": cfg["normal"], "tumour_content": repr(t), "error_rate": repr(eps)} for x in range(n + 1)]
            write_rows(p, rows)
            for density, prec in (("binomial", 400.0), ("beta-binomial", 7.5)):
                data, _ = load(p, density, G, prec)
                tot = np.sum(np.exp(np.array([dp.value[0] for dp in data])), axis=0)
                if np.max(np.abs(tot - 1)) > 1e-9:
                    probs.append(("C05|normalisation|%s" % density, "grid summed over all alternate counts of depth %d is %s for %s" % (n, tot.tolist(), cfg), rep))
    finally:
        shutil.rmtree(d, ignore_errors=True)
    return probs


def mixed_file(ck, recs, G, seed):
    """One input file whose rows carry different copy numbers, error rates AND tumour contents within the same sample:
    every row must be evaluated with its own values (per-row lookup)."""
    rnd = random.Random(seed + 9)
    d = env.scratch("c05_mixed")
    pick = rnd.sample(recs, min(8, len(recs)))
    rows = []
    def counts(k):
        # three samples; some mutations have no reads at all in the first or the middle sample (zero depth followed by
        # a covered sample)
        c = [(14 + k, 3 + k), (2 * k + 1, 9), (30 - k, k)]
        if k % 2 == 0:
            c[0] = (0, 0)
        if k % 3 == 1:
            c[1] = (0, 0)
        return c

    for k, rec in enumerate(pick):
        cfg = rec["cfg"]
        for sn, (ref, alt) in zip(("S1", "S2", "S3"), counts(k)):
            rows.append({"mutation_id": "mix%02d" % k, "sample_id": sn, "ref_counts": ref, "alt_counts": alt, "major_cn": cfg["major"], "minor_cn": cfg["minor"],
                         "normal_cn": cfg["normal"], "tumour_content": repr(cfg["t"][0] / cfg["t"][1]), "error_rate": repr(cfg["eps"][0] / cfg["eps"][1])})
    rnd.shuffle(rows)
    p = os.path.join(d, "mixed.tsv")
    write_rows(p, rows)
    data, samples = load(p, "binomial", G, 400.0)
    by = {dp.name: dp for dp in data}
    for k, rec in enumerate(pick):
        dp = by.get("mix%02d" % k)
        ck.evaluations += 2
        if dp is None:
            ck.violation("C05|mixed|missing", "mutation mix%02d was not loaded" % k, {"cfg": rec["cfg"]})
            continue
        if dp.value.shape[0] != 3:
            ck.violation("C05|mixed|shape", "mutation mix%02d has %d likelihood rows for 3 samples" % (k, dp.value.shape[0]), {"cfg": rec["cfg"]})
            continue
        for si, (ref, alt) in enumerate(counts(k)):
            want = exact_grid(rec, ref, alt, "binomial", None)
            if float(np.max(np.abs(dp.value[si] - want))) > 1e-9 * (1 + float(np.max(np.abs(want)))):
                ck.violation("C05|mixed|row", "in a file mixing copy numbers / error rates / tumour contents, the grid of mutation %d sample %d is not that of its own row %s" % (
                    k, si + 1, rec["cfg"]), {"cfg": rec["cfg"], "sample": si + 1})
    ck.nontrivial("mixed_file")
    shutil.rmtree(d, ignore_errors=True)


def per_sample_states(ck, recs, G, seed):
    """One mutation whose copy-number state differs from sample to sample (3/1 in one biopsy, 1/1 in the next, LOH in a
    third): every sample's grid must be that of its own row - whatever states the samples before it had (states with
    more genotypes before states with fewer, and the reverse)."""
    rnd = random.Random(seed + 19)
    d = env.scratch("c05_per_sample")
    ordered = sorted(recs, key=lambda r_: (r_["cfg"]["major"] + r_["cfg"]["minor"], r_["cfg"]["major"]))
    lo, hi = ordered[: max(3, len(ordered) // 4)], ordered[-max(3, len(ordered) // 4):]
    rows, plan = [], []
    for k in range(10):
        trip = [rnd.choice(hi), rnd.choice(ordered), rnd.choice(lo)]
        if k % 2:
            trip.reverse()
        plan.append(trip)
        for si, rec in enumerate(trip):
            cfg = rec["cfg"]
            rows.append({"mutation_id": "ps%02d" % k, "sample_id": "S%d" % (si + 1), "ref_counts": 20 + 3 * k + si, "alt_counts": 5 + k + 2 * si, "major_cn": cfg["major"], "minor_cn": cfg["minor"],
                         "normal_cn": cfg["normal"], "tumour_content": repr(cfg["t"][0] / cfg["t"][1]), "error_rate": repr(cfg["eps"][0] / cfg["eps"][1])})
    rnd.shuffle(rows)
    p = os.path.join(d, "per_sample.tsv")
    write_rows(p, rows)
    for density in ("binomial", "beta-binomial"):
        data, samples = load(p, density, G, 400.0)
        by = {dp.name: dp for dp in data}
        for k, trip in enumerate(plan):
            dp = by.get("ps%02d" % k)
            ck.evaluations += 3
            if dp is None or dp.value.shape[0] != 3:
                ck.violation("C05|per_sample|missing", "mutation ps%02d was not loaded with 3 sample rows" % k, {"cfgs": [r_["cfg"] for r_ in trip]})
                continue
            for si, rec in enumerate(trip):
                want = exact_grid(rec, 20 + 3 * k + si, 5 + k + 2 * si, density, Fraction(400) if density != "binomial" else None)
                if float(np.max(np.abs(dp.value[si] - want))) > 1e-9 * (1 + float(np.max(np.abs(want)))):
                    ck.violation("C05|per_sample|row", "a mutation whose copy-number state differs per sample (%s): the %s grid of sample %d is not that of its own row (max dev %.3g)" % (
                        [(r_["cfg"]["major"], r_["cfg"]["minor"]) for r_ in trip], density, si + 1, float(np.max(np.abs(dp.value[si] - want)))), {"cfgs": [r_["cfg"] for r_ in trip], "sample": si + 1, "density": density})
                    break
    ck.nontrivial("per_sample_states")
    shutil.rmtree(d, ignore_errors=True)


def cluster_part(ck):
    """A pre-clustered data point = sum of member grids; outlier terms = log p, log(1-p) times cluster size."""
    d = env.scratch("c05_cluster")
    rows = []
    muts = ["x1", "x2", "x3", "y1", "z1", "z2"]
    cl = {"x1": 4, "x2": 4, "x3": 4, "y1": 9, "z1": 2, "z2": 2}
    for k, m in enumerate(muts):
        for s in ("S1", "S2"):
            rows.append({"mutation_id": m, "sample_id": s, "ref_counts": 30 + 3 * k, "alt_counts": 4 + k, "major_cn": 2, "minor_cn": 1, "normal_cn": 2,
                         "tumour_content": 0.8, "error_rate": 0.001})
    p = os.path.join(d, "in.tsv")
    write_rows(p, rows)
    cf = os.path.join(d, "cl.tsv")
    with open(cf, "w") as fh:
        fh.write("mutation_id\tcluster_id\n" + "".join("%s\t%d\n" % (m, cl[m]) for m in muts))
    for pr in (0.0, 0.03):
        un, _ = load(p, "beta-binomial", 7, 400.0, outlier_prob=pr)
        data, _ = load(p, "beta-binomial", 7, 400.0, cluster_file=cf, outlier_prob=pr)
        by = {dp.name: dp for dp in un}
        ck.evaluations += 1
        ids = sorted(set(cl.values()))
        if [dp.name for dp in data] != [str(c) for c in ids]:
            ck.violation("C05|cluster|names", "clustered data points %s, expected %s" % ([dp.name for dp in data], ids), {"outlier_prob": pr})
            continue
        for dp, cid in zip(data, ids):
            members = [m for m in muts if cl[m] == cid]
            s = sum(by[m].value for m in members)
            if not np.allclose(dp.value, s, rtol=0, atol=1e-12):
                ck.violation("C05|cluster|value", "cluster %s is not the sum of its members' grids" % cid, {"cluster": cid})
            if pr == 0:
                ok = (dp.outlier_prob == 0)
            else:
                ok = abs(dp.outlier_prob - math.log(pr) * len(members)) < 1e-12 and abs(dp.outlier_prob_not - math.log1p(-pr) * len(members)) < 1e-12
            if not ok:
                ck.violation("C05|cluster|outlier_terms", "cluster %s (size %d): outlier terms %r / %r for p=%s" % (cid, len(members), dp.outlier_prob, dp.outlier_prob_not, pr), {"cluster": cid, "p": pr})
        for dp in un:
            if pr and (abs(dp.outlier_prob - math.log(pr)) > 1e-12 or abs(dp.outlier_prob_not - math.log1p(-pr)) > 1e-12):
                ck.violation("C05|outlier_terms", "unclustered data point has outlier terms %r / %r for p=%s" % (dp.outlier_prob, dp.outlier_prob_not, pr), {"p": pr})
        ck.nontrivial("cluster:%s" % pr)
    # the cluster file lists mutations the loader drops (zero major copy number in a sample, missing in a sample,
    # duplicated) in the first and the middle cluster: every data point is the sum of its KEPT members' grids
    # (the outlier terms are not judged here: "cluster size" is ambiguous once members are dropped)
    muts2 = ["a1", "a2", "a3", "b1", "b2", "b3", "b4", "c1", "c2", "c3"]
    cl2 = {m: {"a": "K1", "b": "K2", "c": "K3"}[m[0]] for m in muts2}
    rows2 = []
    for k, m in enumerate(muts2):
        for s in ("S1", "S2"):
            if m == "b2" and s == "S2":
                continue                                     # missing in a sample
            r = {"mutation_id": m, "sample_id": s, "ref_counts": 25 + 2 * k, "alt_counts": 3 + k, "major_cn": (0 if (m == "a2" and s == "S1") else 2), "minor_cn": 0 if m == "a2" else 1,
                 "normal_cn": 2, "tumour_content": 0.9, "error_rate": 0.001}
            rows2.append(r)
            if m == "b4" and s == "S1":
                rows2.append(dict(r))                        # duplicated
    kept2 = [m for m in muts2 if m not in ("a2", "b2", "b4")]
    p2 = os.path.join(d, "in2.tsv")
    write_rows(p2, rows2)
    p2k = os.path.join(d, "in2_kept.tsv")
    write_rows(p2k, [r for r in rows2 if r["mutation_id"] in kept2])
    cf2 = os.path.join(d, "cl2.tsv")
    with open(cf2, "w") as fh:
        fh.write("mutation_id\tcluster_id\n" + "".join("%s\t%s\n" % (m, cl2[m]) for m in muts2))
    ck.evaluations += 1
    try:
        un, _ = load(p2k, "binomial", 7, 400.0, outlier_prob=0.0)
        data, _ = load(p2, "binomial", 7, 400.0, cluster_file=cf2, outlier_prob=0.0)
        by = {dp.name: dp for dp in un}
        if [dp.name for dp in data] != ["K1", "K2", "K3"]:
            ck.violation("C05|cluster|names", "clustered data points %s, expected K1..K3 (members dropped by the loader)" % [dp.name for dp in data], {"dropped": ["a2", "b2", "b4"]})
        else:
            for dp in data:
                members = [m for m in kept2 if cl2[m] == dp.name]
                if not np.allclose(dp.value, sum(by[m].value for m in members), rtol=0, atol=1e-12):
                    ck.violation("C05|cluster|value|dropped_members", "cluster %s is not the sum of the grids of its kept members %s (the cluster file also lists a2, b2, b4, which the loader drops)" % (
                        dp.name, members), {"cluster": dp.name, "members": members})
    except Exception as ex:  # noqa
        if "/phyclone/" not in "".join(f.filename for f in __import__("traceback").extract_tb(ex.__traceback__)):
            raise
        ck.violation("C05|cluster|exception:%s" % type(ex).__name__, "loading a clustered input whose cluster file lists dropped mutations raised %s: %s" % (type(ex).__name__, ex), {"dropped": ["a2", "b2", "b4"]})
    ck.nontrivial("cluster:dropped_members")
    shutil.rmtree(d, ignore_errors=True)


def run(corrupt=None):
    ck = Check("C05")
    env.use_repo()
    thorough = ck.tier == "thorough"
    G = 5
    cfg = tlc.cfg_text(constants={"MaxMajor": (4 if thorough else 3), "Normals": "{1, 2, 3}", "Epss": "<- EpsDef", "Ts": "<- TsDef", "G": G, "Dump": "TRUE"},
                       invariants=["GenotypeCount", "VafInUnit", "VafAtZero", "Emit"])
    r = tlc.run_tlc("c05_em", "MC_Em", cfg, mc_text=MC, timeout=1500)
    tlc.require_ok(r, "Emission")
    ck.add_tlc("Emission.tla genotypes and exact VAFs on the grid", r)
    recs = r.json_prints
    if not thorough:
        rnd = random.Random(ck.seed)
        recs = rnd.sample(recs, 120)
    workdir = env.scratch("c05_files")
    tasks = list(enumerate(recs))

    def task(arg):
        i, rec = arg
        return check_config(rec, i, G, workdir, thorough, corrupt)

    task(tasks[0])
    for (i, rec), probs in zip(tasks, kernels.parallel_map(task, tasks, chunksize=2)):
        ck.evaluations += 12
        ck.traces_validated += 1
        for sig, msg, rep in probs:
            ck.violation(sig, msg, rep)
        ck.nontrivial(json.dumps(rec["cfg"], sort_keys=True))
    mixed_file(ck, recs, G, ck.seed)
    mixed_file(ck, recs, G, ck.seed + 1)
    per_sample_states(ck, recs, G, ck.seed)
    cluster_part(ck)
    lossprob.model_runs(ck, thorough)
    lossprob.bind(ck, "C05", 240 if thorough else 60, (0, 3), ck.seed, want_order=False, spec_verdict=True)
    shutil.rmtree(workdir, ignore_errors=True)
    ck.sample({"cfg": recs[0]["cfg"], "genotypes": recs[0]["genotypes"], "vaf_first_genotype": recs[0]["vaf"][0]})
    ck.rule = ("copy-number / error-rate / tumour-content configurations enumerated by TLC (quick: seeded sample of 120 of 243; thorough: all incl. major 4) x 4-7 "
               "read-count pairs (zero depth, tiny, 60, 5000) x binomial, beta-binomial precision 1 and 400.5; every configuration is non-trivial (distinct genotype set / VAFs)")
    ck.exhaustive = thorough
    ck.assumptions = ["binomial / beta-binomial pmf of TLC's rational VAFs evaluated in exact Fraction arithmetic by the harness (TLC cannot hold these numbers)",
                      "beta-binomial compared for depths <= 200; depth 5000 for the binomial",
                      "cluster size = number of mutations the cluster file lists (all kept in the instances used)"]
    if corrupt:
        return ck
    return ck.finish()


def selftest():
    ck = run(corrupt="vaf")
    ok = any(v["signature"].startswith("C05|grid") for v in ck.violations)
    print("selftest:", "perturbed exact grid detected" if ok else "FAILED")
    return 0 if ok else 1


def replay(path):
    body = json.load(open(path))
    print(json.dumps(body["replay"], indent=1)[:2000])
    return 0
