"""C08 - SMC proposals are normalised, faithfully sampled, complete, correctly weighted.

M: Proposal.tla - for every parent state (<= N-1 placed points, incl. empty and outlier-only parents), every next
   point, three kernels, outlier proposal prob 0 / 1/10, with / without permutation density: support = Place,
   sum q = 1 (exact rationals), law of the draw procedure = reported density, telescoping of weights along every
   path (F_p), every tree reachable along every compatible order.  BootHalfOnOutlierOnly=TRUE must fail.
O: the real kernels run on TLC's integer tables (TableDist): exact law of .sample() (EnumRNG) = TLC's s,
   exp(log_p) = TLC's q, sum = 1, projected support = TLC's, create_particle().log_w and the last-step
   _get_log_w = TLC's rational weights.
"""
import json
import math
import os

from .. import env, tlc, absstate
from ..evidence import Check
from ..enumrng import EnumRNG, enumerate_paths
from ..tabledist import TableDist, UnknownState

INVS = ["InvComplete", "InvNormalised", "InvFaithful", "InvTelescopes", "InvOrderCompatible", "InvReachableAlongEveryOrder"]
PRIMES = [46337, 46327]


def consts(n, kernel, outl, perm, seed, prime=46337, boothalf=False, coo=True, dump=True):
    return {"N": n, "Kernel": tlc.tla_str(kernel), "OutlierOn": tlc.tla_bool(outl), "UsePerm": tlc.tla_bool(perm),
            "CountOutlierOrders": tlc.tla_bool(coo), "BootHalfOnOutlierOnly": tlc.tla_bool(boothalf),
            "Dump": tlc.tla_bool(dump), "Seed": seed, "P": prime}


def tlc_job(name, c, workers=2, timeout=1800):
    out = os.path.join(env.scratch(os.path.join("tlc", name)), "out.json")
    return dict(job=name, module="Proposal", cfg=tlc.cfg_text(constants=c, invariants=INVS), workers=workers,
                timeout=timeout, environ={"OUT_FILE": out}), out


def kernel_cls(name):
    from phyclone.smc.kernels import BootstrapKernel, FullyAdaptedKernel, SemiAdaptedKernel
    return {"boot": BootstrapKernel, "semi": SemiAdaptedKernel, "full": FullyAdaptedKernel}[name]


def clear_caches():
    from phyclone.utils.dev import clear_proposal_dist_caches
    clear_proposal_dist_caches()


def obj_key(t):
    from phyclone.tree import Tree
    return absstate.quick_key(t if isinstance(t, Tree) else t.tree)


def check_config(ck, dump, kernel, outl, perm, data, corrupt=None):
    from phyclone.smc.swarm import Particle
    from phyclone.smc.samplers import SMCSampler
    from phyclone.smc.utils import RootPermutationDistribution

    td = TableDist(dump["table"])
    perm_dist = RootPermutationDistribution() if perm else None
    p_out = 0.1 if outl else 0.0
    cfgname = "%s|outl=%d|perm=%d" % (kernel, outl, perm)
    for prec in dump["parents"]:
        pkey = absstate.canon(prec["st"])
        for nx in prec["next"]:
            d = nx["d"]
            entries = {absstate.canon(e["x"]): e for e in nx["entries"]}
            if corrupt == "q" :
                e0 = entries[sorted(entries, key=absstate.key_str)[0]]
                e0["q"] = [e0["q"][0], e0["q"][1] + 1]
            if len(entries) > 1:
                ck.nontrivial("%s|%s|%d" % (cfgname, absstate.key_str(pkey), d))
            for variant in ("parent_tree_given", "parent_tree_from_particle"):
                clear_caches()
                rng = EnumRNG()
                kern = kernel_cls(kernel)(td, rng, outlier_proposal_prob=p_out, perm_dist=perm_dist)
                rep = {"kernel": kernel, "outlier_on": outl, "perm": perm, "variant": variant,
                       "parent": absstate.to_json(pkey), "d": d, "expected": nx["entries"]}
                try:
                    if pkey == absstate.canon({"f": [], "o": []}):
                        ptree, ppart = None, None
                        if variant == "parent_tree_from_particle":
                            continue
                    else:
                        ptree = absstate.build(pkey, data)
                        ppart = Particle(0, None, ptree, td, perm_dist)
                        if variant == "parent_tree_from_particle":
                            ptree = None
                    pd = kern.get_proposal_distribution(data[d], ppart, ptree)
                    law, logq, objs = {}, {}, {}
                    npaths = 0
                    for t, p, _ in enumerate_paths(lambda: pd.sample(), rng):
                        k = obj_key(t)
                        lp = float(pd.log_p(t))
                        law[k] = law.get(k, 0.0) + p
                        if k in logq and abs(logq[k] - lp) > 1e-12:
                            ck.violation("C08|%s|log_p_not_function_of_tree" % kernel, "two draws of the same tree report %r and %r" % (logq[k], lp), rep)
                        logq[k] = lp
                        objs[k] = t
                        npaths += 1
                    ck.evaluations += npaths
                    ck.traces_validated += 1
                except UnknownState as ex:
                    ck.violation("C08|%s|malformed_candidate" % kernel, "proposal produced a tree outside the forest universe: %s" % ex, rep)
                    continue
                rep["observed"] = [{"x": absstate.to_json(k), "law": law[k], "q": math.exp(logq[k])} for k in law]
                if set(law) != set(entries):
                    miss = [absstate.key_str(k) for k in set(entries) - set(law)]
                    extra = [absstate.key_str(k) for k in set(law) - set(entries)]
                    ck.violation("C08|%s|support" % kernel, "support differs for parent %s + %d: missing %s extra %s" % (
                        absstate.key_str(pkey), d, miss[:3], extra[:3]), rep)
                    continue
                tot = sum(math.exp(v) for v in logq.values())
                if abs(tot - 1) > 1e-12:
                    onlyout = (len(pkey[0]) == 0 and len(pkey[1]) > 0)
                    sig = "C08|%s|not_normalised" % kernel + ("|outlier_only_parent" if onlyout else "")
                    ck.violation(sig, "reported probabilities sum to %.15g for parent %s + %d" % (tot, absstate.key_str(pkey), d), rep)
                for k, e in entries.items():
                    s = e["s"][0] / e["s"][1]
                    q = e["q"][0] / e["q"][1]
                    if abs(law[k] - s) > 1e-12:
                        ck.violation("C08|%s|sample_law" % kernel, "sample() returns %s w.p. %.15g, specified %d/%d (parent %s + %d)" % (
                            absstate.key_str(k), law[k], e["s"][0], e["s"][1], absstate.key_str(pkey), d), rep)
                    if abs(math.exp(logq[k]) - q) > 1e-12:
                        onlyout = (len(pkey[0]) == 0 and len(pkey[1]) > 0)
                        half = abs(math.exp(logq[k]) * 2 - q) < 1e-12
                        sig = "C08|%s|log_p" % kernel + ("|outlier_only_parent|half" if (onlyout and half) else "")
                        ck.violation(sig, "log_p reports %.15g for %s, specified %d/%d (parent %s + %d)" % (
                            math.exp(logq[k]), absstate.key_str(k), e["q"][0], e["q"][1], absstate.key_str(pkey), d), rep)
                        continue  # weight is a function of the reported q; do not double-report
                    # incremental weight and last-step correction
                    part = kern.create_particle(logq[k], ppart, objs[k])
                    w = e["w"][0] / e["w"][1]
                    if abs(math.exp(part.log_w) / w - 1) > 1e-9:
                        ck.violation("C08|%s|weight" % kernel, "create_particle log_w = log %.12g, specified %d/%d (parent %s -> %s)" % (
                            math.exp(part.log_w), e["w"][0], e["w"][1], absstate.key_str(pkey), absstate.key_str(k)), rep)
                    smc = SMCSampler([data[d]], kern, 1)
                    wl = math.exp(smc._get_log_w(part))
                    wl_exp = w * td.w1[k] / td.wm[k]
                    if abs(wl / wl_exp - 1) > 1e-9:
                        ck.violation("C08|%s|last_step_weight" % kernel, "last-step weight %.12g, specified %.12g" % (wl, wl_exp), rep)
                    ck.evaluations += 4
            if len(ck.samples) < 4 and len(entries) > 2:
                ck.sample({"config": cfgname, "parent": absstate.to_json(pkey), "d": d,
                           "entries": [{"x": e["x"], "q": e["q"], "w": e["w"]} for e in nx["entries"]][:6]})


def alpha_history(ck, seed):
    """Real density, one kernel / tree distribution reused while alpha changes in place and no cache is cleared:
    reported probabilities must still sum to one and  log_w + log_q = log gamma(child) - log gamma(parent)  with gamma
    evaluated by a fresh distribution object at the alpha now in force."""
    from phyclone.tree import FSCRPDistribution, TreeJointDistribution, Tree
    from phyclone.smc.swarm import Particle
    from phyclone.smc.utils import RootPermutationDistribution
    from .. import gridoracle

    n = 4
    tab = gridoracle.int_tables(n, 1, 5, seed)
    data = gridoracle.data_from_tables(tab, outlier_prob=0.2)
    parents = [absstate.canon(x) for x in ({"f": [[0]], "o": []}, {"f": [[0], [1]], "o": []}, {"f": [[0, 1], [0]], "o": [2]}, {"f": [], "o": [0]})]
    perm = RootPermutationDistribution()
    for kname in ("boot", "semi", "full"):
        td = TreeJointDistribution(FSCRPDistribution(1.0))
        rng = EnumRNG()
        kern = kernel_cls(kname)(td, rng, outlier_proposal_prob=0.1, perm_dist=perm)
        for alpha in (1.0, 2.5, 1.0, 0.4):
            td.prior.alpha = alpha
            fresh = TreeJointDistribution(FSCRPDistribution(alpha))
            for pk in parents:
                ptree = absstate.build(pk, data)
                ppart = Particle(0, None, ptree, td, perm)
                d = max(absstate.data_ids(pk)) + 1
                pd = kern.get_proposal_distribution(data[d], ppart, ptree)
                seen = {}
                for t, p, _ in enumerate_paths(lambda: pd.sample(), rng):
                    tree_t = t if isinstance(t, Tree) else t.tree
                    k = absstate.quick_key(tree_t)
                    lp = float(pd.log_p(t))
                    seen[k] = lp
                    part = kern.create_particle(lp, ppart, t)
                    want = (float(fresh.log_p(tree_t)) + float(perm.log_pdf(tree_t)) - float(fresh.log_p(ptree)) - float(perm.log_pdf(ptree)) - lp)
                    ck.evaluations += 1
                    if abs(float(part.log_w) - want) > 1e-9 * (1 + abs(want)):
                        ck.violation("C08|%s|weight_after_alpha_change" % kname,
                                     "after alpha was set to %s on a reused kernel (no cache clear) the weight of %s from parent %s is %.12g, target ratio / q gives %.12g" % (
                                         alpha, absstate.key_str(k), absstate.key_str(pk), float(part.log_w), want),
                                     {"kernel": kname, "alpha": alpha, "parent": absstate.to_json(pk), "child": absstate.to_json(k)})
                tot = sum(math.exp(v) for v in seen.values())
                if abs(tot - 1) > 1e-9:
                    ck.violation("C08|%s|not_normalised_after_alpha_change" % kname, "probabilities sum to %.12g after alpha was set to %s (parent %s)" % (tot, alpha, absstate.key_str(pk)),
                                 {"kernel": kname, "alpha": alpha, "parent": absstate.to_json(pk)})
                ck.nontrivial("alpha_history|%s|%s|%s" % (kname, alpha, absstate.key_str(pk)))


def sampler_paths(ck, dump, n, data):
    """Whole paths through the real samplers (no resampling): for every final particle of the conditional and the
    standard SMC sampler, on every RNG path, weight * prod q along its lineage = W1(x) * pdf(x) on TLC's tables."""
    from phyclone.smc.samplers import ConditionalSMCSampler, SMCSampler
    from phyclone.smc.utils import RootPermutationDistribution
    import itertools

    td = TableDist(dump["table"])
    perm = RootPermutationDistribution()
    complete = [absstate.canon(r["st"]) for r in dump["table"] if absstate.data_ids(absstate.canon(r["st"])) == set(range(n))]
    for kname in ("boot", "semi", "full"):
        for outl in (False, True):
            for s0 in complete:
                if s0[1] and not outl:
                    continue
                for sigma in itertools.permutations(range(n)):
                    tree0 = absstate.build(s0, data)
                    # sigma must be compatible with the start tree for the conditional sampler
                    ok = all(sigma.index(e) < sigma.index(d) for c in s0[0] for d in (c - set().union(*[x for x in s0[0] if x < c]) if any(x < c for x in s0[0]) else c)
                             for e in set().union(*([x for x in s0[0] if x < c] or [set()])))
                    for mode in ("conditional", "standard"):
                        if mode == "conditional" and not ok:
                            continue
                        if mode == "standard" and s0 != complete[0]:
                            continue
                        clear_caches()
                        rng = EnumRNG()
                        kern = kernel_cls(kname)(td, rng, outlier_proposal_prob=(0.1 if outl else 0.0), perm_dist=perm)
                        dps = [data[i] for i in sigma]

                        def go():
                            if mode == "conditional":
                                smp = ConditionalSMCSampler(tree0, dps, kern, num_particles=2, resample_threshold=0.0)
                            else:
                                smp = SMCSampler(dps, kern, num_particles=2, resample_threshold=0.0)
                            return smp.sample()

                        for swarm, p, _ in enumerate_paths(go, rng):
                            # the samplers renormalise the swarm at every step, so a particle's weight is its product of
                            # incremental weights up to a factor common to the swarm: the residuals below must coincide
                            resid = []
                            for part, lw in zip(swarm.particles, swarm.unnormalized_log_weights):
                                lin = []
                                q = part
                                while q is not None:
                                    lin.append(q)
                                    q = q.parent_particle
                                lin.reverse()
                                sumq = 0.0
                                for t_, pt in enumerate(lin):
                                    par = lin[t_ - 1] if t_ > 0 else None
                                    pd = kern.get_proposal_distribution(dps[t_], par, None if par is None else par.tree)
                                    sumq += float(pd.log_p(pt._tree))
                                k = absstate.quick_key(part.tree)
                                want = math.log(td.w1[k]) - math.log(td.cnt[k])
                                resid.append((float(lw) + sumq - want, k))
                                ck.evaluations += 1
                            spread = max(r for r, _ in resid) - min(r for r, _ in resid)
                            if spread > 1e-9:
                                ck.violation("C08|%s|path_weight|%s" % (kname, mode), "%s sampler, order %s: the particles' weights x lineage proposal probabilities are not proportional to W1 * pdf (log residuals %s for %s)" % (
                                    mode, list(sigma), [round(r, 6) for r, _ in resid], [absstate.key_str(k) for _, k in resid]),
                                    {"kernel": kname, "outl": outl, "mode": mode, "sigma": list(sigma), "start": absstate.to_json(s0)})
                        ck.nontrivial("path|%s|%d|%s|%s|%s" % (kname, outl, mode, absstate.key_str(s0), sigma))


def perm_target_part(ck, n):
    """The final target of a path is the fixed-root joint density times the permutation density.  For every forest on
    n points (one more than the kernels are enumerated on in the quick tier) the permutation density a particle carries
    must be 1 / (number of compatible orders), the number taken from TLC (Perm.tla), and the weight the last step adds
    must turn log_p into log_p_one."""
    from . import c09
    from phyclone.smc.swarm import TreeHolder
    from phyclone.smc.utils import RootPermutationDistribution
    from phyclone.tree import FSCRPDistribution, TreeJointDistribution
    res = c09._tlc(n, True, True, "c08_perm")
    tlc.require_ok(res, "Perm (counts for the path targets)")
    ck.add_tlc("Perm.tla N=%d: number of compatible orders of every forest (final target of SMC paths)" % n, res)
    data = absstate.make_data(n, dims=1, grid=4, seed=3, kind="int", outlier_prob=0.2)
    td = TreeJointDistribution(FSCRPDistribution(1.7))
    perm = RootPermutationDistribution()
    seen = set()
    for rec in res.json_prints:
        key = absstate.canon(rec["st"])
        if key in seen or absstate.data_ids(key) != set(range(n)):
            continue
        seen.add(key)
        tree = absstate.build(key, data)
        th = TreeHolder(tree, td, perm)
        ck.evaluations += 1
        want = -math.log(rec["count"])
        if abs(float(th.log_pdf) - want) > 1e-9:
            ck.violation("C08|path_target|permutation_density", "a particle holding %s carries the permutation log-density %.12g; the final target needs -log(%d) = %.12g" % (
                absstate.key_str(key), float(th.log_pdf), rec["count"], want), {"state": absstate.to_json(key), "count": rec["count"]})
        if len(key[0]) > 2:
            ck.nontrivial("perm_target:" + absstate.key_str(key))


def run(corrupt=None):
    ck = Check("C08")
    env.use_repo()
    thorough = ck.tier == "thorough"
    n = 4 if thorough else 3
    seed = 1 + ck.seed
    configs = [(k, o, p) for k in ("boot", "semi", "full") for o in (False, True) for p in (False, True)]
    jobs, outs = [], []
    for (k, o, p) in configs:
        j, out = tlc_job("c08_%s_%d_%d" % (k, o, p), consts(n, k, o, p, seed))
        jobs.append(j); outs.append(out)
    # second prime for the F_p telescoping invariant (no dump), and the must-fail deviation model
    j2, _ = tlc_job("c08_prime2", consts(n, "semi", True, True, seed, prime=PRIMES[1], dump=False))
    jneg, _ = tlc_job("c08_neg", consts(3, "boot", True, True, seed, boothalf=True, dump=False))
    res = tlc.run_many(jobs + [j2, jneg])
    for (k, o, p), r in zip(configs, res):
        tlc.require_ok(r, "Proposal %s outl=%s perm=%s" % (k, o, p))
        ck.add_tlc("Proposal N=%d %s outl=%d perm=%d" % (n, k, o, p), r)
    tlc.require_ok(res[-2], "Proposal second prime")
    ck.add_tlc("Proposal N=%d semi second prime" % n, res[-2])
    ck.add_tlc("Proposal boot BootHalfOnOutlierOnly=TRUE (must fail)", res[-1], must_fail=True)
    if "InvNormalised" not in res[-1].violated:
        raise tlc.TLCError("vacuity guard: deviation BootHalfOnOutlierOnly not rejected: %s" % res[-1].summary())
    data = absstate.make_data(n, kind="flat", grid=3)
    for (k, o, p), out in zip(configs, outs):
        dump = json.load(open(out))
        check_config(ck, dump, k, o, p, data, corrupt=corrupt)
    for npath in (1, 2):
        jp, outp = tlc_job("c08_paths%d" % npath, consts(npath, "full", True, True, seed))
        rp = tlc.run_tlc(**jp)
        tlc.require_ok(rp, "Proposal tables for sampler paths")
        sampler_paths(ck, json.load(open(outp)), npath, absstate.make_data(npath, kind="flat", grid=3))
    clear_caches()
    perm_target_part(ck, n + 1)
    alpha_history(ck, ck.seed)
    ck.rule = ("every (parent forest with < %d placed points incl. empty/outlier-only, next point) x 3 kernels x outlier proposal "
               "prob {0, 0.1} x perm dist {off,on} x parent tree {given, rebuilt from particle}; non-trivial = support with > 1 candidate" % n)
    ck.exhaustive = True
    ck.assumptions = ["kernels run on TLC's integer density tables via TableDist (the real density is bound by C02/C03)",
                      "EnumRNG mirrors numpy Generator semantics"]
    if corrupt:
        return ck
    return ck.finish()


def selftest():
    ck = run(corrupt="q")
    if not ck.violations:
        print("SELFTEST FAILED: corrupted oracle not detected")
        return 1
    print("selftest: corrupted oracle detected (%d rejections)" % len(ck.violations))
    return 0


def replay(path):
    body = json.load(open(path))
    r = body["replay"]
    env.use_repo()
    ck = Check("C08")
    n = 4
    seed = 1 + body.get("seed", 0)
    j, out = tlc_job("c08_replay", consts(n, r["kernel"], r["outlier_on"], r["perm"], seed))
    res = tlc.run_tlc(**j)
    tlc.require_ok(res, "replay TLC")
    dump = json.load(open(out))
    pk = absstate.canon(r["parent"])
    dump["parents"] = [p for p in dump["parents"] if absstate.canon(p["st"]) == pk]
    for p in dump["parents"]:
        p["next"] = [x for x in p["next"] if x["d"] == r["d"]]
    check_config(ck, dump, r["kernel"], r["outlier_on"], r["perm"], absstate.make_data(n, kind="flat", grid=3))
    for v in ck.violations:
        print("REPLAY:", v["signature"], v["message"])
    return 1 if ck.violations else 0
