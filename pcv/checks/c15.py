"""C15 - trees survive serialisation; trace entries are self-consistent.

M: TreeADT.tla - DictRoundTrip is an action of the edit-grammar closure (it may be taken at every idle point and
   every later action is explored after it); InvWF / InvFresh hold after it.  Chain.tla - TraceProtocol (first
   entry = post-burn-in state with iter 0, then exactly the multiples of thin in order), TraceComplete,
   EntriesCurrent, AppendOnly over the option cross-product.
O: (a) along in-place edit walks on 4-5 points (index gaps after pruning, outlier-only trees, relabelled trees) every
   live tree is sent through to_dict/from_dict, pickle and gzip-pickle of the dict: same clades, outliers, labels,
   parents, per-node arrays (1e-12) and densities; the restored copy is then edited in lock-step with the original
   and must stay equal (abstract state, arrays by clade).  (b) seeded chains over an option grid: every entry
   restores to a tree over all data whose log_p_one recomputed under the entry's alpha equals the recorded value;
   recorded iterations follow TraceProtocol; the same holds after the trace went through the gzip file writer.
T: the event streams of the chains are validated by TLC against Chain.tla.
"""
import gzip
import io
import itertools
import json
import os
import pickle

import numpy as np

from .. import env, tlc, absstate, treeadt, chainlib, kernels
from ..evidence import Check
from . import c06


def roundtrips(tree):
    from phyclone.tree import Tree
    d = tree.to_dict()
    yield "from_dict", Tree.from_dict(d)
    yield "pickle", Tree.from_dict(pickle.loads(pickle.dumps(tree.to_dict(), protocol=pickle.HIGHEST_PROTOCOL)))
    buf = io.BytesIO()
    with gzip.GzipFile(fileobj=buf, mode="wb") as fh:
        pickle.dump({"tree": tree.to_dict()}, fh)
    buf.seek(0)
    with gzip.GzipFile(fileobj=buf, mode="rb") as fh:
        yield "gzip_pickle", Tree.from_dict(pickle.load(fh)["tree"])


def same_concrete(a, b, dist, tol=1e-12):
    pa, pb = treeadt.proj_tree(a), treeadt.proj_tree(b)
    for k in ("nodes", "par", "dat", "outl"):
        if pa[k] != pb[k]:
            return "%s differ: %s vs %s" % (k, pa[k], pb[k])
    if pa["last"] != pb["last"]:
        return "last-edited clone differs: %s vs %s" % (pa["last"], pb["last"])
    if a.labels != b.labels:
        return "labels differ"
    return same_arrays(a, b, dist, tol)


def same_arrays(a, b, dist, tol):
    xa, ra, _ = treeadt.node_arrays(a)
    xb, rb, _ = treeadt.node_arrays(b)
    if set(xa) != set(xb):
        return "clade sets differ"
    for c in xa:
        for i, nm in ((0, "log_p"), (1, "log_r")):
            dev = float(np.max(np.abs(xa[c][i] - xb[c][i])))
            if dev > tol * (1 + float(np.max(np.abs(xa[c][i])))):
                return "clone %s: %s differs by %.3g" % (sorted(c), nm, dev)
    if xa and float(np.max(np.abs(ra - rb))) > tol * (1 + float(np.max(np.abs(ra)))):
        return "data_log_likelihood differs"
    if dist is not None and (xa or absstate.quick_key(a)[1]):
        for nm in ("log_p", "log_p_one"):
            x, y = float(getattr(dist, nm)(a)), float(getattr(dist, nm)(b))
            if abs(x - y) > 1e-9 * (1 + abs(x)):
                return "%s differs: %r vs %r" % (nm, x, y)
    return None


def tree_part(ck, n, nwalks, seed, corrupt=None):
    from .. import gridoracle
    tab = gridoracle.int_tables(n, 2, 5, seed + 3, dup=[(0, 1)])      # two data points with identical likelihoods (identical sibling arrays occur)
    data = gridoracle.data_from_tables(tab, outlier_prob=0.2, sizes=[(3, 1, 2)[i % 3] for i in range(n)])   # clustered data points
    dist = c06.make_dist()
    rs = np.random.RandomState(seed + 15)
    count = [0, 0]
    issues_all = []
    recorded = []      # (dictionary, log_p_one as evaluated when it was taken) - re-evaluated at the end with cold memo tables

    for w in range(nwalks):
        shadow = {"objs": None, "how": None, "dicts": None}

        def on_state(cur, sub, state, act):
            out = []
            # 1. the copies restored before this action, edited in lock-step, must equal the originals
            if shadow["objs"] is not None:
                sc, ss = shadow["objs"]
                try:
                    r = treeadt.apply_action_inplace(sc, ss, act, data)
                    for o_, s_, nm in ((cur, r.cur, "cur"), (sub, r.sub, "sub")):
                        if absstate.quick_key(o_) != absstate.quick_key(s_):
                            out.append("after %s the tree restored by %s and then edited differs from the original (%s): %s vs %s" % (
                                act["name"], shadow["how"], nm, absstate.key_str(absstate.quick_key(s_)), absstate.key_str(absstate.quick_key(o_))))
                        else:
                            m = same_arrays(o_, s_, dist, 1e-9)
                            if m:
                                out.append("after %s the tree restored by %s and then edited differs from the original (%s): %s" % (act["name"], shadow["how"], nm, m))
                        absstate.project(s_, full=True)
                    count[1] += 1
                except absstate.Inconsistent as ex:
                    out.append("editing a tree restored by %s corrupted it (%s): %s" % (shadow["how"], act["name"], ex))
                except Exception as ex:
                    out.append("editing a tree restored by %s raised %s: %s (%s)" % (shadow["how"], type(ex).__name__, ex, act["name"]))
            # 1b. the dictionaries the shadows were restored from must still describe the pre-action trees
            if shadow["dicts"] is not None:
                from phyclone.tree import Tree
                for d_, want in shadow["dicts"]:
                    try:
                        again = treeadt.tkey(treeadt.proj_tree(Tree.from_dict(d_)))
                    except Exception as ex:
                        again = "error: %s" % ex
                    if again != want:
                        out.append("round trip: a dictionary no longer restores to the tree it was taken from after a tree restored from it was edited (%s)" % act["name"])
            # 2. round trips of the current objects
            new = []
            hows = []
            for t in (cur, sub):
                got = None
                for how, t2 in roundtrips(t):
                    count[0] += 1
                    try:
                        m = same_concrete(t, t2, dist)
                    except absstate.Inconsistent as ex:
                        m = "the restored tree is malformed: %s" % ex
                    if corrupt == "label" and how == "pickle" and count[0] == 50:
                        m = "injected"
                    if m:
                        out.append("%s round trip: %s" % (how, m))
                    if got is None or rs.randint(3) == 0:
                        got, h = t2, how
                new.append(got)
                hows.append(h)
            # shadows for the next step are restored from stored dictionaries (a particle keeps its tree only in that form)
            from phyclone.tree import Tree
            dicts = []
            objs = []
            for t in (cur, sub):
                d_ = t.to_dict()
                if len(recorded) < 400:
                    try:
                        if absstate.data_ids(absstate.quick_key(t)):
                            recorded.append((pickle.loads(pickle.dumps(d_)), float(dist.log_p_one(t))))
                    except Exception:  # noqa
                        pass
                if rs.randint(2):
                    d_ = pickle.loads(pickle.dumps(d_))
                dicts.append((d_, treeadt.tkey(treeadt.proj_tree(t))))
                objs.append(Tree.from_dict(d_))
            shadow["objs"] = tuple(objs)
            shadow["dicts"] = dicts
            shadow["how"] = "from_dict of a stored dictionary"
            return out

        edges, issues = treeadt.walk(data, list(range(n)), 50, rs, dist, on_state=on_state)
        issues_all += issues
    # what was recorded during the histories, restored afterwards with cold memo tables (as another process would):
    # the density evaluated then must be the density of the restored tree
    from phyclone.tree import Tree as _Tree
    from phyclone.tree.utils import compute_log_S, _convolve_two_children
    for d_, lp_then in recorded:
        compute_log_S.cache_clear()
        _convolve_two_children.cache_clear()
        lp_now = float(dist.log_p_one(_Tree.from_dict(d_)))
        count[0] += 1
        if abs(lp_now - lp_then) > 1e-9 * (1 + abs(lp_now)):
            ck.violation("C15|tree|recorded_density", "a tree recorded with log_p_one %.12g during an edit history restores (cold memo tables) to a tree with log_p_one %.12g" % (lp_then, lp_now),
                         {"recorded": lp_then, "restored": lp_now})
            break
    ck.evaluations += count[0] + count[1]
    ck.traces_validated += count[1]
    ck.extra["round_trips_checked"] = count[0]
    ck.extra["lockstep_edits_on_restored_copies"] = count[1]
    for kind, it in issues_all[:60]:
        if kind == "callback":
            ck.violation("C15|tree|%s" % ("round_trip" if "round trip" in it["error"] else "edit_after_restore"), it["error"], it)
        elif kind in ("exception", "inconsistent"):
            ck.violation("C15|tree|%s" % kind, "%s during an edit walk: %s" % (kind, it["error"]), it)


def chain_part(ck, seed, thorough, corrupt=None):
    combos = []
    for prop, outl, conc, thin, iters, tmax, sub in itertools.product(chainlib.PROPOSALS, (0, 0.3), (True, False), (1, 2, 3), (5,), (float("inf"),), (0.0, 0.5)):
        combos.append(dict(proposal=prop, outlier_prob=outl, concentration_update=conc, thin=thin, num_iters=iters, max_time=tmax, subtree_update_prob=sub, burnin=2))
    combos += [dict(max_time=mt, burnin=1, num_iters=400, thin=th, proposal=pp) for mt in (0.03, 0.08, 0.15) for th in (2, 3, 7) for pp in ("bootstrap", "semi-adapted")]
    combos += [dict(max_time=0, burnin=3, num_iters=4, thin=2), dict(num_iters=1, thin=3), dict(num_iters=7, thin=3, concentration_update=True, outlier_prob=0.3, subtree_update_prob=1.0)]
    if not thorough:
        combos = combos[:72:3] + combos[72::2] + combos[-3:]
    tasks = [(k, o) for k, o in enumerate(combos)]

    def task(arg):
        k, o = arg
        n, dims = (4, 2) if k % 2 else (3, 1)
        r = chainlib.run_one(n, dims, seed * 100 + k, o, grid=7)
        probs = list(r["problems"])
        # through the gzip trace file writer / reader
        if not r["error"]:
            from phyclone.process_trace import create_main_run_output
            from phyclone.tree import Tree, FSCRPDistribution, TreeJointDistribution
            path = os.path.join(env.scratch("c15_files"), "trace_%d_%d.pkl.gz" % (os.getpid(), k))
            create_main_run_output(None, path, {0: r["results"]})
            with gzip.GzipFile(path, "rb") as fh:
                back = pickle.load(fh)
            os.remove(path)
            tr0, tr1 = r["results"]["trace"], back[0]["trace"]
            if len(tr0) != len(tr1):
                probs.append(("file_round_trip", "trace has %d entries, file gives back %d" % (len(tr0), len(tr1))))
            for j, (e0, e1) in enumerate(zip(tr0, tr1)):
                t0, t1 = Tree.from_dict(e0["tree"]), Tree.from_dict(e1["tree"])
                m = same_concrete(t0, t1, TreeJointDistribution(FSCRPDistribution(e0["alpha"])))
                if m or e0["iter"] != e1["iter"] or e0["alpha"] != e1["alpha"] or e0["log_p_one"] != e1["log_p_one"]:
                    probs.append(("file_round_trip", "entry %d differs after the gzip trace file: %s" % (j, m or "scalars")))
        r.pop("results", None)
        r.pop("events", None)
        r["problems"] = probs
        return r

    task(tasks[0])
    results = kernels.parallel_map(task, tasks)
    spec_traces = []
    for (k, o), r in zip(tasks, results):
        ck.evaluations += max(1, r["n_entries"])
        label = json.dumps({kk: vv for kk, vv in o.items()}, sort_keys=True, default=str)
        if r["error"]:
            ck.violation("C15|chain|exception:%s" % r["error"].split(":")[0], "chain aborted: %s [%s]" % (r["error"], label), {"options": o})
            continue
        if corrupt == "entry" and k == 0:
            r["problems"].append(("inconsistent_entry", "injected"))
        for kind, msg in r["problems"]:
            ck.violation("C15|chain|%s" % kind, "%s [%s]" % (msg, label), {"options": {kk: (str(vv) if isinstance(vv, float) and vv == float("inf") else vv) for kk, vv in o.items()}, "k": k})
        ck.nontrivial("chain:" + label)
        spec_traces.append(r["spec_trace"])
    rv, unmatched = chainlib.validate_chain_traces("c15_traces", spec_traces)
    if rv.errors or rv.timed_out:
        raise tlc.TLCError("trace validation failed: %s\n%s" % (rv.summary(), rv.out[-1500:]))
    ck.add_tlc("TraceChain: %d recorded runs" % len(spec_traces), rv)
    for v in rv.violated:
        ck.violation("C15|chain|trace_invariant|%s" % v, "Chain invariant %s violated on a recorded run" % v, {"tlc": rv.out[-1500:]})
    ck.traces_validated += len(spec_traces) - len(unmatched)
    for kk in unmatched[:5]:
        t = spec_traces[kk - 1]
        ck.violation("C15|chain|trace_rejected", "recorded event stream is not a behaviour of Chain.tla (options %s): %s" % (
            json.dumps(t["opt"]), json.dumps([e["name"] + (":" + e.get("sampler", "") if "sampler" in e else "") for e in t["events"]])[:500]), {"trace": t})
    if spec_traces:
        ck.sample({"options": spec_traces[0]["opt"], "events": spec_traces[0]["events"][:14]})


def pruned_big_part(ck, seed, ntrees):
    """Trees of 8 clones from which a clade of three and more clones was cut (several unused slots in the underlying
    graph, some beyond the number of remaining clones) or collapsed into one clone, and the cut subtrees themselves:
    every serialisation route must give back the same tree."""
    from .. import gridoracle
    n = 8
    data = gridoracle.data_from_tables(gridoracle.int_tables(n, 1, 4, seed + 9), outlier_prob=0.2)
    dist = c06.make_dist()
    rs = np.random.RandomState(seed + 77)
    nrt = 0
    for _ in range(ntrees):
        parent = [-1] + [int(rs.randint(-1, i)) for i in range(1, n)]
        desc = {i: {i} for i in range(n)}
        for i in reversed(range(n)):
            if parent[i] >= 0:
                desc[parent[i]] |= desc[i]
        key = absstate.canon({"f": [sorted(v) for v in desc.values()], "o": []})
        base = absstate.build(key, data)
        _, conc = absstate.project(base, full=False)
        name_of = {conc["clade"][m]: m for m in conc["names"]}
        for v in [c for c in key[0] if sum(1 for x in key[0] if x <= c) >= 3 and len(c) < n]:
            t = base.copy()
            sub = t.get_subtree(name_of[v])
            par_ = t.get_parent(name_of[v])
            t.remove_subtree(sub)
            objs = [("tree with a clade of %d clones cut out" % sum(1 for x in key[0] if x <= v), t), ("the cut subtree", sub)]
            t2 = t.copy()
            t2.add_subtree(absstate.build((frozenset([v]), frozenset()), [dp for dp in data if dp.idx in v]), parent=par_)
            t2.update()
            objs.append(("tree with that clade collapsed into one clone", t2))
            for label, obj in objs:
                for how, back in roundtrips(obj):
                    nrt += 1
                    try:
                        m = same_concrete(obj, back, dist)
                    except Exception as ex:  # noqa
                        m = "%s: %s" % (type(ex).__name__, ex)
                    if m:
                        ck.violation("C15|tree|round_trip|pruned", "%s round trip of a %s (from %s): %s" % (how, label, absstate.key_str(key), m), {"state": absstate.to_json(key), "cut": sorted(v), "route": how})
                        break
    ck.evaluations += nrt
    ck.extra["round_trips_of_pruned_trees"] = nrt


def run(corrupt=None):
    ck = Check("C15")
    env.use_repo()
    thorough = ck.tier == "thorough"
    r = c06.tlc_graph(ck, [0, 1, 2], "c15_adt")
    ck.add_tlc("TreeADT closure incl. DictRoundTrip at every idle point (Data=0..2)", r)
    if not r.coverage and "RoundTrip" not in r.out:
        pass
    rc = chainlib.model_check_chain("c15_chain")
    tlc.require_ok(rc, "Chain model")
    ck.add_tlc("Chain.tla TraceProtocol / TraceComplete / EntriesCurrent / AppendOnly over 2592 option records", rc)
    tree_part(ck, 4, (150 if thorough else 40), ck.seed, corrupt)
    if thorough:
        tree_part(ck, 5, 100, ck.seed + 1)
    pruned_big_part(ck, ck.seed, (60 if thorough else 20))
    chain_part(ck, 1 + ck.seed, thorough, corrupt)
    ck.rule = ("(a) every state along in-place edit walks on 4-5 points x 3 serialisation routes + lock-step editing of the restored copy; "
               "(b) seeded chains over an option grid (proposal, outliers, concentration update, thinning, time limit, subtree probability), every entry; "
               "distinct_nontrivial = chain configurations")
    ck.assumptions = ["array equality tolerance 1e-12 relative for round trips", "log_p_one self-consistency tolerance 1e-9"]
    for i in range(ck.extra.get("round_trips_checked", 0) // 6):
        ck.nontrivial("rt:%d" % i)
    if corrupt:
        return ck
    return ck.finish()


def selftest():
    ck = run(corrupt="label")
    ok1 = any(v["signature"].startswith("C15|tree|round_trip") for v in ck.violations)
    ck = run(corrupt="entry")
    ok2 = any(v["signature"] == "C15|chain|inconsistent_entry" for v in ck.violations)
    print("selftest:", "ok" if (ok1 and ok2) else "FAILED", ok1, ok2)
    return 0 if (ok1 and ok2) else 1


def replay(path):
    body = json.load(open(path))
    print(json.dumps(body["replay"], indent=1)[:2000])
    return 0
