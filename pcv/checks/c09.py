"""C09 - data orders are drawn uniformly from those compatible with the tree.

M: Perm.tla - TLC walks the universe of forests on <= N points (outliers any subset) and proves on each
   Count = |Orders| (formula vs definition), Samp = Orders (bridge-shuffle reaches exactly the compatible
   orders) and NScr = |Samp| (uniform); the CountOutlierOrders=FALSE run must fail (vacuity guard / F2 model).
O: for every forest TLC printed, the exact law of the real RootPermutationDistribution.sample (EnumRNG)
   must be uniform on TLC's order set and log_pdf must be -log(TLC's count).
"""
import math

from .. import env, tlc, absstate
from ..evidence import Check
from ..enumrng import EnumRNG, enumerate_paths

INVS = ["WellFormedState", "CountIsNumberOfOrders", "SamplerReachesExactlyCompatible", "SamplerUniform", "Emit"]


def _tlc(n, coo, dump, job, timeout=1500):
    cfg = tlc.cfg_text(
        constants={"N": n, "OutliersOn": "TRUE", "CountOutlierOrders": tlc.tla_bool(coo), "Dump": tlc.tla_bool(dump)},
        invariants=INVS,
    )
    return tlc.run_tlc(job, "Perm", cfg, timeout=timeout)


def exact_law(tree, sample):
    rng = EnumRNG()
    law = {}
    npaths = 0
    for res, p, _ in enumerate_paths(lambda: tuple(dp.idx for dp in sample(tree, rng)), rng):
        law[res] = law.get(res, 0.0) + p
        npaths += 1
    return law, npaths


def check_state(ck, rec, RPD, data, corrupt=None):
    key = absstate.canon(rec["st"])
    orders = {tuple(o) for o in rec["orders"]}
    count = rec["count"]
    if corrupt == "drop_order" and len(orders) > 1:
        orders = set(sorted(orders)[1:])
    if corrupt == "count":
        count += 1
    ids = sorted(absstate.data_ids(key))
    if not ids:
        return
    tree = absstate.build(key, data)
    law, npaths = exact_law(tree, RPD.sample)
    ck.evaluations += npaths
    ck.traces_validated += 1
    if len(orders) > 1:
        ck.nontrivial(absstate.key_str(key))
    rep = {"state": absstate.to_json(key), "expected_orders": sorted(orders), "expected_count": count}
    sup = set(law)
    if sup != orders:
        ck.violation("C09|support", "sampled support differs from the compatible orders of %s: missing %s extra %s" % (
            absstate.key_str(key), sorted(orders - sup)[:3], sorted(sup - orders)[:3]), dict(rep, observed=sorted(sup)))
    else:
        u = 1.0 / len(orders)
        worst = max(abs(p - u) for p in law.values())
        if worst > 1e-12:
            ck.violation("C09|nonuniform", "order law not uniform on %s: max dev %.3g" % (absstate.key_str(key), worst),
                         dict(rep, observed={str(k): v for k, v in law.items()}))
    tot = sum(law.values())
    if abs(tot - 1) > 1e-12:
        ck.violation("C09|mass", "path probabilities sum to %r" % tot, rep)
    lp = float(RPD.log_pdf(tree))
    want = -math.log(count)
    if abs(lp - want) > 1e-9:
        no = len(key[1])
        if no >= 2 and abs(lp - math.lgamma(no + 1) - want) < 1e-9:
            sig = "C09|log_pdf|outlier_arrangements_not_counted"
        else:
            sig = "C09|log_pdf|other"
        ck.violation(sig, "log_pdf(%s) = %.12g, expected -log(%d) = %.12g" % (absstate.key_str(key), lp, count, want),
                     dict(rep, observed_log_pdf=lp))
    ck.sample({"state": absstate.to_json(key), "n_orders": len(orders), "paths": npaths, "log_pdf": lp})


class _Captured(Exception):
    def __init__(self, order):
        self.order = order


def sampler_orders(ck, recs, data, max_points=3):
    """The order each sampler actually hands to its SMC pass (burn-in: UnconditionalSMCSampler; particle Gibbs:
    ParticleGibbsTreeSampler) - the SMC classes are replaced by a stub that captures the data order - must have the
    law Perm.tla specifies: uniform on the orders compatible with the current tree."""
    import types
    import phyclone.smc.samplers.unconditional as unc
    import phyclone.mcmc.particle_gibbs as pg

    class StubSMC:
        def __init__(self, *a, **k):
            tkey = None
            for x in list(a) + list(k.values()):
                if hasattr(x, "labels") and hasattr(x, "outliers"):
                    tkey = absstate.quick_key(x)
            for x in list(a) + list(k.values()):
                if isinstance(x, (list, tuple)) and x and all(hasattr(dp, "idx") for dp in x):
                    raise _Captured((tkey, tuple(dp.idx for dp in x)))
            raise _Captured(None)

    saved = (unc.SMCSampler, pg.ConditionalSMCSampler)
    unc.SMCSampler = StubSMC
    pg.ConditionalSMCSampler = StubSMC
    todo = [rec for rec in recs if absstate.data_ids(absstate.canon(rec["st"])) and len(absstate.data_ids(absstate.canon(rec["st"]))) <= max_points]

    orders_of = {absstate.canon(r_["st"]): {tuple(o) for o in r_["orders"]} for r_ in recs}

    def task(rec):
        key = absstate.canon(rec["st"])
        out = []
        nev = 0
        for which in ("burn-in", "particle Gibbs", "subtree particle Gibbs"):
            rng = EnumRNG()
            kern = types.SimpleNamespace(rng=rng)
            if which == "burn-in":
                sampler = unc.UnconditionalSMCSampler(kern, num_particles=2)
            elif which == "particle Gibbs":
                sampler = pg.ParticleGibbsTreeSampler(kern, rng, num_particles=2)
            else:
                sampler = pg.ParticleGibbsSubtreeSampler(kern, rng, num_particles=2)

            def go():
                t = absstate.build(key, data)
                try:
                    sampler.sample_tree(t)
                except _Captured as c:
                    return c.order
                except Exception:  # noqa - a changed constructor protocol: reported as a note below
                    return None
                return None

            law = {}
            for res, p, _ in enumerate_paths(go, rng):
                law[res] = law.get(res, 0.0) + p
            nev += len(law)
            if None in law:
                out.append(("note", "the %s sampler no longer builds its SMC pass through the captured class: order law not checked" % which, None))
                continue
            # group by the tree the pass is conditioned on (the whole tree, or the block of the subtree move with the outliers)
            groups = {}
            for (tk, order), p in law.items():
                groups.setdefault(tk if tk is not None else key, {})[order] = p
            for tk, glaw in groups.items():
                if which.startswith("subtree") and tk is not None and tk[1] != key[1]:
                    # MoveRel.tla (SubBlock): the pass of the subtree move takes ALL outliers of the current tree along.
                    # A pass on fewer outliers is a smaller block, not a wrong order: reported as drift, and the orders are
                    # still judged against the tree the pass is actually conditioned on.
                    out.append(("drift", "the subtree move hands its SMC pass a tree with outliers %s although the current tree has %s (MoveRel.tla SubBlock takes all of them along)" % (sorted(tk[1]), sorted(key[1])), None))
                want = orders_of.get(tk)
                rep = {"state": absstate.to_json(key), "sampler": which, "pass_tree": absstate.to_json(tk)}
                if want is None:
                    continue      # a conditioning tree outside the enumerated universe (not judged)
                tot = sum(glaw.values())
                if set(glaw) != want:
                    out.append(("C09|sampler_order|support|%s" % which.replace(" ", "_"), "the %s sampler hands its SMC pass orders outside / not covering the compatible orders of %s: extra %s missing %s" % (
                        which, absstate.key_str(tk), sorted(set(glaw) - want)[:3], sorted(want - set(glaw))[:3]), rep))
                elif max(abs(p / tot - 1.0 / len(want)) for p in glaw.values()) > 1e-12:
                    out.append(("C09|sampler_order|nonuniform|%s" % which.replace(" ", "_"), "the order the %s sampler hands to its SMC pass is not uniform on the compatible orders of %s" % (which, absstate.key_str(tk)), rep))
        return out, nev, len(orders_of[key]) > 1, absstate.key_str(key)

    try:
        from .. import kernels
        noted = set()
        for out, nev, nontriv, ks in kernels.parallel_map(task, todo, chunksize=4):
            ck.evaluations += nev
            for sig, msg, rep in out:
                if sig == "note":
                    if msg not in noted:
                        noted.add(msg)
                        ck.note(msg)
                elif sig == "drift":
                    if "drift" not in noted:
                        noted.add("drift")
                        ck.model_drift(msg)
                else:
                    ck.violation(sig, msg, rep)
            if nontriv:
                ck.nontrivial("sampler_order:" + ks)
    finally:
        unc.SMCSampler, pg.ConditionalSMCSampler = saved


def retained_path_pdf(ck, recs, data, max_points):
    """The permutation log-density every particle of a retained (conditional) SMC path carries must be minus the log of
    the number of orders compatible with the partial tree it holds (TLC's count) - with and without outliers."""
    import numpy as np
    from phyclone.smc.samplers import ConditionalSMCSampler
    from phyclone.smc.kernels import SemiAdaptedKernel, BootstrapKernel
    from phyclone.smc.utils import RootPermutationDistribution
    from phyclone.tree import FSCRPDistribution, TreeJointDistribution
    counts = {absstate.canon(r_["st"]): r_["count"] for r_ in recs}
    rng = np.random.default_rng(5)
    td = TreeJointDistribution(FSCRPDistribution(1.0))
    n_checked = 0
    for key in sorted(counts, key=absstate.key_str):
        ids = sorted(absstate.data_ids(key))
        if len(ids) < 2 or len(ids) > max_points or ids != list(range(len(ids))):
            continue
        sub = [dp for dp in data if dp.idx in ids]
        for Kcls in (SemiAdaptedKernel, BootstrapKernel):
            tree = absstate.build(key, sub)
            kern = Kcls(td, rng, outlier_proposal_prob=(0.1 if key[1] else 0.0), perm_dist=RootPermutationDistribution())
            sigma = RootPermutationDistribution.sample(tree, rng)
            try:
                smp = ConditionalSMCSampler(tree, sigma, kern, num_particles=2)
                path = [p for p in smp.constrained_path if p is not None]
            except AttributeError:
                ck.note("the retained path of the conditional SMC sampler is no longer exposed as constrained_path: its permutation densities were not checked")
                return
            for p in path:
                k2 = absstate.quick_key(p.tree)
                if k2 not in counts:
                    continue
                n_checked += 1
                want = -math.log(counts[k2])
                if abs(float(p.log_pdf) - want) > 1e-9:
                    ck.violation("C09|retained_path|log_pdf", "a particle of the retained SMC path holding %s carries the permutation log-density %.12g, -log(number of compatible orders) = %.12g" % (
                        absstate.key_str(k2), float(p.log_pdf), want), {"tree": absstate.to_json(key), "partial": absstate.to_json(k2), "kernel": Kcls.__name__})
                    break
    ck.evaluations += n_checked
    ck.extra["retained_path_particles_checked"] = n_checked


def proposed_particle_pdf(ck, recs, data, max_points):
    """The permutation log-density of every particle a kernel PROPOSES (every parent forest - incl. the empty and the
    outlier-only ones - x next data point x kernel kind, every outcome of the proposal's draw enumerated) must be minus
    the log of the number of orders compatible with the tree the particle holds (TLC's count)."""
    from .c08 import kernel_cls, clear_caches
    from phyclone.smc.swarm import Particle
    from phyclone.smc.utils import RootPermutationDistribution
    from phyclone.tree import FSCRPDistribution, TreeJointDistribution
    counts = {absstate.canon(r_["st"]): r_["count"] for r_ in recs}
    td = TreeJointDistribution(FSCRPDistribution(1.3))
    perm = RootPermutationDistribution()
    n_checked = 0
    for pkey in sorted(counts, key=absstate.key_str):
        ids = absstate.data_ids(pkey)
        if len(ids) >= max_points or ids != set(range(len(ids))):
            continue
        d = len(ids)
        for kname in ("boot", "semi", "full"):
            clear_caches()
            rng = EnumRNG()
            kern = kernel_cls(kname)(td, rng, outlier_proposal_prob=0.1, perm_dist=perm)
            if ids:
                ptree = absstate.build(pkey, data)
                ppart = Particle(0, None, ptree, td, perm)
            else:
                ptree, ppart = None, None
            bad = None
            for t, p, _ in enumerate_paths(lambda: kern.propose_particle(data[d], ppart), rng):
                k2 = absstate.quick_key(t.tree)
                if k2 not in counts:
                    continue
                n_checked += 1
                want = -math.log(counts[k2])
                if abs(float(t.log_pdf) - want) > 1e-9 and bad is None:
                    bad = (k2, float(t.log_pdf), want)
            if bad:
                ck.violation("C09|proposed_particle|log_pdf|%s" % kname, "the %s kernel proposes, from parent %s and data point %d, a particle holding %s with permutation log-density %.12g; -log(number of compatible orders) = %.12g" % (
                    kname, absstate.key_str(pkey), d, absstate.key_str(bad[0]), bad[1], bad[2]), {"parent": absstate.to_json(pkey), "d": d, "kernel": kname, "tree": absstate.to_json(bad[0])})
        if len(pkey[1]) >= 1:
            ck.nontrivial("proposed_pdf:" + absstate.key_str(pkey))
    ck.evaluations += n_checked
    ck.extra["proposed_particles_checked"] = n_checked


def py_count(key):
    """Perm.tla's Count formula in exact big-integer arithmetic (validated below against TLC's counts on every small forest,
    then used as the evaluator for inputs far beyond TLC's 32-bit integers)."""
    from math import factorial
    f, o = key

    def kids(c):
        subs = [x for x in f if x < c]
        return [x for x in subs if not any(x < y for y in subs)]

    def multinom(sizes):
        r = factorial(sum(sizes))
        for s_ in sizes:
            r //= factorial(s_)
        return r

    def count_at(c):
        ks = kids(c)
        own = len(c) - sum(len(k) for k in ks)
        r = multinom([len(k) for k in ks]) * factorial(own)
        for k in ks:
            r *= count_at(k)
        return r

    roots = [c for c in f if not any(c < y for y in f)]
    n = sum(len(r) for r in roots) + len(o)
    r = multinom([len(x) for x in roots]) * (factorial(n) // (factorial(len(o)) * factorial(n - len(o)))) * factorial(len(o))
    for x in roots:
        r *= count_at(x)
    return r


def large_inputs(ck, RPD, seed):
    import random
    from math import log
    from phyclone.data.base import DataPoint
    import numpy as np
    rnd = random.Random(seed + 3)
    rng_np = np.random.default_rng(seed + 11)
    for n, n_out, sizes in ((25, 6, None), (60, 12, None), (100, 10, None), (200, 9, None), (40, 0, None),
                            (2600, 40, (1100, 300, 50, 1030, 80)), (1300, 1030, (100, 60, 40, 50, 20))):
        ids = list(range(n))
        rnd.shuffle(ids)
        outl = frozenset(ids[:n_out])
        rest = ids[n_out:]
        # a random laminar family: split the remaining points into a chain of nested clones and a few siblings
        # (the two large inputs: clones / an outlier set holding more than 1024 data points)
        if sizes is None:
            cuts = sorted(rnd.sample(range(1, len(rest)), min(5, len(rest) - 1)))
        else:
            cuts = [sum(sizes[:k]) for k in range(1, len(sizes))]
        blocks = [rest[a:b] for a, b in zip([0] + cuts, cuts + [len(rest)])]
        clades = set()
        acc = []
        for bi, blk in enumerate(blocks[:3]):
            acc = acc + blk
            clades.add(frozenset(acc))
        for blk in blocks[3:]:
            clades.add(frozenset(blk))
        key = (frozenset(clades), outl)
        data = [DataPoint(i, np.zeros((1, 3))) for i in range(n)]
        tree = absstate.build(key, data)
        lp = float(RPD.log_pdf(tree))
        big = py_count(key)
        want = -log(big)       # math.log is exact enough on arbitrarily large integers
        ck.evaluations += 1
        ck.nontrivial("large:%d:%d" % (n, n_out))
        if abs(lp - want) > 1e-9 * (1 + abs(want)):
            ck.violation("C09|log_pdf|large_input", "log_pdf of a tree with %d data points (%d outliers, %d clones) = %.12g, -log(number of compatible orders) = %.12g" % (
                n, n_out, len(clades), lp, want), {"n": n, "outliers": n_out, "clade_sizes": sorted(len(c) for c in clades)})
        # drawn orders on the large input: every data point of a clone after all data points of the clone's descendants
        below = {c: set().union(*([x for x in clades if x < c] or [set()])) for c in clades}
        for rep_ in range(6 if n <= 200 else 2):
            order = [dp.idx for dp in RPD.sample(tree, rng_np)]
            pos = {d: i for i, d in enumerate(order)}
            ck.evaluations += 1
            bad = None
            if sorted(order) != list(range(n)):
                bad = "the drawn order is not a permutation of the %d data points" % n
            else:
                for c in clades:
                    own = c - below[c]
                    if below[c] and own and min(pos[d] for d in own) < max(pos[d] for d in below[c]):
                        bad = "a data point of a clone precedes a data point of one of its descendants"
                        break
            if bad:
                ck.violation("C09|order|large_input", "order drawn for a tree with %d data points (%d outliers, clones of %s points): %s" % (n, n_out, sorted(len(c) for c in clades), bad),
                             {"n": n, "outliers": n_out, "clade_sizes": sorted(len(c) for c in clades)})
                break


def run(corrupt=None):
    ck = Check("C09")
    env.use_repo()
    from phyclone.smc.utils import RootPermutationDistribution as RPD

    thorough = ck.tier == "thorough"
    n = 5 if thorough else 4
    res = _tlc(n, True, True, "c09_pass")
    tlc.require_ok(res, "Perm must-pass N=%d" % n)
    ck.add_tlc("Perm N=%d as-specified" % n, res)
    neg = _tlc(3, False, False, "c09_neg")
    ck.add_tlc("Perm N=3 CountOutlierOrders=FALSE (must fail)", neg, must_fail=True)
    if "CountIsNumberOfOrders" not in neg.violated:
        raise tlc.TLCError("vacuity guard: deviation model was not rejected by TLC: %s" % neg.summary())
    recs = res.json_prints
    if len(recs) < res.distinct:
        raise tlc.TLCError("expected %d oracle records, parsed %d" % (res.distinct, len(recs)))
    data = absstate.make_data(n, kind="flat", grid=3)
    seen = set()
    for rec in recs:
        key = absstate.canon(rec["st"])
        if key in seen:
            continue
        seen.add(key)
        # exact law by enumeration up to 4 points (5 points: counts/support of log_pdf only, law for <= 4)
        if len(absstate.data_ids(key)) > 4:
            tree = absstate.build(key, data)
            lp = float(RPD.log_pdf(tree))
            ck.evaluations += 1
            if abs(lp + math.log(rec["count"])) > 1e-9:
                no = len(key[1])
                sig = "C09|log_pdf|outlier_arrangements_not_counted" if (no >= 2 and abs(lp - math.lgamma(no + 1) + math.log(rec["count"])) < 1e-9) else "C09|log_pdf|other"
                ck.violation(sig, "log_pdf(%s) = %.12g, expected -log(%d)" % (absstate.key_str(key), lp, rec["count"]),
                             {"state": absstate.to_json(key), "expected_count": rec["count"], "observed_log_pdf": lp})
            continue
        check_state(ck, rec, RPD, data, corrupt=corrupt)
    # the counting formula in big integers: validated on every forest TLC counted, then applied to large inputs
    bad = [absstate.key_str(absstate.canon(r_["st"])) for r_ in recs if py_count(absstate.canon(r_["st"])) != r_["count"]]
    if bad:
        raise tlc.TLCError("harness evaluator of Perm.tla's Count disagrees with TLC on %d forests, e.g. %s" % (len(bad), bad[:3]))
    large_inputs(ck, RPD, ck.seed)
    seen2 = set()
    uniq = [r_ for r_ in recs if not (absstate.canon(r_["st"]) in seen2 or seen2.add(absstate.canon(r_["st"])))]
    sampler_orders(ck, uniq, data, max_points=(4 if thorough else 3))
    retained_path_pdf(ck, uniq, data, max_points=4)
    proposed_particle_pdf(ck, uniq, absstate.make_data(n, kind="int", grid=3, outlier_prob=0.2), max_points=4)
    # histories: the reported density must stay right on trees that were edited in place after earlier queries
    import numpy as np
    from .. import treeadt
    counts = {absstate.canon(r["st"]): r["count"] for r in recs}
    hist_checked = [0]

    def on_state(cur, sub, state, act):
        out = []
        for t in (cur, sub):
            k = absstate.quick_key(t)
            if k in counts and absstate.data_ids(k):
                lp = float(RPD.log_pdf(t))
                hist_checked[0] += 1
                if abs(lp + math.log(counts[k])) > 1e-9:
                    out.append("log_pdf(%s) = %.12g after an in-place edit history, expected -log(%d)" % (absstate.key_str(k), lp, counts[k]))
        return out

    rs = np.random.RandomState(ck.seed + 5)
    wdata = absstate.make_data(4, kind="flat", grid=3)
    for w in range(60 if not thorough else 300):
        _, issues = treeadt.walk(wdata, [0, 1, 2, 3], 50, rs, None, on_state=on_state)
        for kind_, it in issues:
            if kind_ == "callback":
                ck.violation("C09|log_pdf|after_edit_history", it["error"] + " (last action %s)" % it["act"]["name"], it)
                break
    ck.evaluations += hist_checked[0]
    ck.extra["log_pdf_checks_along_edit_histories"] = hist_checked[0]
    ck.rule = ("every forest on every subset of %d data points with any outlier subset (TLC-enumerated); "
               "non-trivial = forests with more than one compatible order" % n)
    ck.exhaustive = True
    ck.assumptions = ["EnumRNG mirrors numpy Generator.shuffle (uniform over permutations)"]
    if corrupt:
        return ck
    return ck.finish()


def selftest():
    for c in ("drop_order", "count"):
        ck = run(corrupt=c)
        if not ck.violations:
            print("SELFTEST FAILED: corruption %s not detected" % c)
            return 1
        print("selftest: corruption %s detected (%d rejections)" % (c, len(ck.violations)))
    return 0


def replay(path):
    import json
    env.use_repo()
    from phyclone.smc.utils import RootPermutationDistribution as RPD
    body = json.load(open(path))
    r = body["replay"]
    key = absstate.canon(r["state"])
    data = absstate.make_data(max(absstate.data_ids(key)) + 1, kind="flat", grid=3)
    ck = Check("C09")
    check_state(ck, {"st": r["state"], "orders": r["expected_orders"], "count": r["expected_count"]}, RPD, data)
    for v in ck.violations:
        print("REPLAY:", v["signature"], v["message"])
    return 1 if ck.violations else 0
