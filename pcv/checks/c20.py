"""C20 - an interrupted or truncated trace file is never read as a valid result.

M2: TraceStore.tla - the run output as a store that is RE-written over an older complete run: truncate-on-open, byte
    appends, kill at any point, an exception unwinding the writer, companion files, temporary file + rename with
    checkpoints, a reader with a per-path memo; NeverPartial / NeverStale hold as implemented, four deviations refuted.
    The fault harness below realises the same actions on real files.

M: TraceFile.tla - the single streamed write as byte appends with a crash after any prefix; the reader unpickles one
   object; NoPartialResult (every prefix reads as an error or as the complete result) holds because the payload is ONE
   pickled object whose STOP is its last token inside ONE gzip member; writing several objects, or reading until the
   stream ends while swallowing the end-of-stream error, is refuted.
O: fault enumeration on real files: traces of 1-3 chains x 1-6 entries (clustered and not) and one long trace
   (> 1000 entries per chain) are written by create_main_run_output; for EVERY prefix length of the small files (a
   dense sample for the long one) write_map_results, write_consensus_results and write_topology_report are run: each
   must raise, or write outputs identical to those from the complete file.
"""
import contextlib
import hashlib
import io
import json
import math
import os
import shutil

from .. import env, tlc, absstate, kernels, outputs
from ..evidence import Check


def tf_consts(n, readall, tol):
    return {"NObjects": n, "ObjLen": 3, "HeaderLen": 2, "TrailerLen": 2, "ReadAll": tlc.tla_bool(readall), "TolerateEOF": tlc.tla_bool(tol)}


def model_runs(ck):
    cases = [("TraceFile as implemented (one object, one load)", (1, False, False), "pass"),
             ("TraceFile one object, reader loops until the stream ends (errors not swallowed)", (1, True, False), "pass"),
             ("DEV one pickle per chain in the same stream", (3, False, False), "fail"),
             ("DEV blocks read until an end-of-stream error", (3, True, True), "fail")]
    jobs = [dict(job="c20_%d" % i, module="TraceFile", workers=1, timeout=600,
                 cfg=tlc.cfg_text(constants=tf_consts(*a), invariants=["NoPartialResult", "CompleteFileReadsAll"])) for i, (_, a, _) in enumerate(cases)]
    for (label, _, expect), r in zip(cases, tlc.run_many(jobs)):
        ck.add_tlc(label, r, must_fail=(expect == "fail"))
        if expect == "fail":
            if "NoPartialResult" not in r.violated:
                raise tlc.TLCError("deviation not refuted: %s" % label)
        else:
            tlc.require_ok(r, label)


LAST_RESULTS = {}      # path -> the results dictionary handed to the writer (independent of the file format)


def store_model_runs(ck):
    """TraceStore.tla: the re-written run output with kills, interrupts, companion files and long-lived readers."""
    base = {"MainLen": 5, "CompLen": 0, "RecordEvery": 2, "TmpAndRename": "FALSE", "EndRecordOnError": "FALSE", "LenientCompanion": "FALSE", "ReaderMemo": "FALSE", "NoTruncate": "FALSE"}
    cases = [("TraceStore as implemented (one all-or-nothing file, truncated on open, read afresh every time)", {}, None),
             ("TraceStore with a companion file that is itself all-or-nothing", {"CompLen": 4}, None),
             ("DEV a reader process answers from memory for a path it has read before", {"ReaderMemo": "TRUE"}, "NeverStale"),
             ("DEV the writer emits a well-formed end record while unwinding from an exception", {"EndRecordOnError": "TRUE"}, "NeverPartial"),
             ("DEV a line-oriented companion file accepted at any record boundary", {"CompLen": 4, "LenientCompanion": "TRUE"}, "NeverPartial"),
             ("DEV temporary file + rename with checkpoints of the part written so far", {"TmpAndRename": "TRUE"}, "NeverPartial"),
             ("DEV the file is opened without truncation and overwritten in place", {"NoTruncate": "TRUE"}, "NeverStale")]
    jobs = [dict(job="c20_store_%d" % i, module="TraceStore", workers=2, timeout=600,
                 cfg=tlc.cfg_text(constants=dict(base, **over), spec="Spec", invariants=["NeverPartial", "NeverStale", "CompleteReadsNew"], check_deadlock=False))
            for i, (_, over, _) in enumerate(cases)]
    for (label, _, expect), r in zip(cases, tlc.run_many(jobs)):
        ck.add_tlc(label, r, must_fail=(expect is not None))
        if expect is None:
            tlc.require_ok(r, label)
        elif expect not in r.violated:
            raise tlc.TLCError("deviation not refuted: %s (%s)" % (label, r.summary()))


def make_trace(path, n, chains, entries, seed, clustered=False):
    """A real trace file from real trees (the writer under test is create_main_run_output)."""
    import numpy as np
    import pandas as pd
    from phyclone.process_trace import create_main_run_output
    from .. import gridoracle
    rs = np.random.RandomState(seed)
    names = [str(10 + i) for i in range(n)] if clustered else ["m%d" % i for i in range(n)]
    data = gridoracle.data_from_tables(gridoracle.int_tables(n, 2, 5, seed), outlier_prob=0.2, names=names)
    keys = [absstate.canon(x) for x in ({"f": [list(range(n))], "o": []}, {"f": [[i] for i in range(n)], "o": []},
                                        {"f": [list(range(n)), [0]], "o": []}, {"f": [[i] for i in range(1, n)], "o": [0]})]
    results = {}
    for c in range(chains):
        tr = []
        for j in range(entries):
            k = keys[rs.randint(len(keys))]
            tr.append({"iter": j, "time": 0.01 * j, "alpha": 1.0 + 0.1 * j, "log_p_one": -10.0 - float(rs.rand()), "tree": outputs.concrete_dict(k, data, j)})
        results[c] = {"data": data, "samples": ["S1", "S2"], "trace": tr, "chain_num": c}
    cf = None
    if clustered:
        indir = os.path.join(os.path.dirname(path), "inputs")
        os.makedirs(indir, exist_ok=True)
        cf = os.path.join(indir, os.path.basename(path) + ".cluster_input.tsv")
        with open(cf, "w") as fh:
            fh.write("mutation_id\tcluster_id\n" + "".join("mut%d_a\t%d\nmut%d_b\t%d\n" % (i, 10 + i, i, 10 + i) for i in range(n)))
    create_main_run_output(cf, path, results)
    LAST_RESULTS[path] = results
    return os.path.getsize(path)


def run_commands(trace_path, outdir):
    """Run the three summary commands; returns {command: ('error', type) | ('ok', digest of all outputs)}."""
    from phyclone.process_trace import write_map_results, write_consensus_results, write_topology_report
    res = {}
    sink = io.StringIO()
    for cmd in ("map", "consensus", "topology"):
        files = [os.path.join(outdir, cmd + ext) for ext in (".tsv", ".nwk")]
        for f in files:
            if os.path.exists(f):
                os.remove(f)
        try:
            with contextlib.redirect_stdout(sink):
                if cmd == "map":
                    write_map_results(trace_path, files[0], files[1])
                elif cmd == "consensus":
                    write_consensus_results(trace_path, files[0], files[1])
                else:
                    write_topology_report(trace_path, files[0])
            h = hashlib.sha1()
            for f in files:
                if os.path.exists(f):
                    h.update(open(f, "rb").read())
            res[cmd] = ("ok", h.hexdigest())
        except BaseException as ex:  # noqa - every failure mode counts as "fails with an error"
            if isinstance(ex, (KeyboardInterrupt, SystemExit)):
                raise
            res[cmd] = ("error", type(ex).__name__)
    return res


def companion_files(path):
    """Everything the writer created beside the trace file itself (same directory, name starting with the trace file's
    name), in the order it was written.  The unchanged writer creates none."""
    d, base = os.path.dirname(path), os.path.basename(path)
    out = [f for f in os.listdir(d) if f != base and f.startswith(base) and os.path.isfile(os.path.join(d, f))]
    return sorted(out, key=lambda f: (os.stat(os.path.join(d, f)).st_mtime_ns, f))


def sweep_companions(ck, label, path, workdir):
    """The run output is every file the writer produced: a crash can also hit a file written after (or before) the trace
    itself.  Crash points: files written earlier complete, the current file cut at any byte, later files absent."""
    comps = companion_files(path)
    if not comps:
        return
    d0 = os.path.dirname(path)
    base = os.path.basename(path)
    order = sorted([base] + comps, key=lambda f: (os.stat(os.path.join(d0, f)).st_mtime_ns, f))
    blobs = {f: open(os.path.join(d0, f), "rb").read() for f in order}
    full = run_commands(path, env.scratch(os.path.join("c20_out", "fullc_" + label)))
    tasks = []
    for i, f in enumerate(order):
        if f == base:
            continue        # prefixes of the trace file itself are the main sweep's business (with later files absent: below)
        for k in range(len(blobs[f])):
            tasks.append((i, k))
    tasks += [(order.index(base), len(blobs[base]))] if order.index(base) < len(order) - 1 else []

    def task(arg):
        i, k = arg
        d = os.path.join(workdir, "c%d" % os.getpid())
        shutil.rmtree(d, ignore_errors=True)
        os.makedirs(d)
        for j, f in enumerate(order):
            if j < i:
                open(os.path.join(d, f), "wb").write(blobs[f])
            elif j == i:
                open(os.path.join(d, f), "wb").write(blobs[f][:k])
        return arg, run_commands(os.path.join(d, base), d)

    for (i, k), res in kernels.parallel_map(task, tasks, chunksize=max(1, len(tasks) // 128)):
        ck.evaluations += 3
        for cmd, (st, dig) in res.items():
            if st == "ok" and dig != full[cmd][1]:
                ck.violation("C20|partial_result|%s|companion_file" % cmd, "the writer produces %d files (%s); with %s cut after %d of %d bytes (earlier files complete, later ones absent) %s produced results that differ from the complete output's" % (
                    len(order), ", ".join(order), order[i], k, len(blobs[order[i]]), cmd), {"trace": label, "files": order, "cut_file": order[i], "prefix": k, "command": cmd})
        ck.nontrivial("%s:companion:%d:%d" % (label, i, k))
    ck.traces_validated += len(tasks)
    ck.extra.setdefault("companion_files", {})[label] = order


def sweep(ck, label, path, prefixes, workdir, corrupt=None):
    full = run_commands(path, env.scratch(os.path.join("c20_out", "full_" + label)))
    for cmd, (st, dig) in full.items():
        if st != "ok":
            ck.violation("C20|complete_file|%s" % cmd, "%s fails on the complete trace file (%s): %s" % (cmd, label, dig), {"trace": label})
    blob = open(path, "rb").read()
    tasks = list(prefixes)

    def task(k):
        d = os.path.join(workdir, "p%d" % os.getpid())
        os.makedirs(d, exist_ok=True)
        p = os.path.join(d, "cut.pkl.gz")
        with open(p, "wb") as fh:
            fh.write(blob[:k])
        return k, run_commands(p, d)

    out = kernels.parallel_map(task, tasks, chunksize=max(1, len(tasks) // 256))
    n_err = n_same = 0
    for k, res in out:
        ck.evaluations += 3
        for cmd, (st, dig) in res.items():
            if st == "error":
                n_err += 1
                continue
            if corrupt == "digest" and k == tasks[-1]:
                dig = "x"
            if dig == full[cmd][1]:
                n_same += 1
            else:
                ck.violation("C20|partial_result|%s" % cmd, "%s produced results from the first %d of %d bytes of the trace file (%s) that differ from the complete file's" % (
                    cmd, k, len(blob), label), {"trace": label, "prefix": k, "size": len(blob), "command": cmd})
        ck.nontrivial("%s:%d" % (label, k))
    ck.traces_validated += len(tasks)
    ck.extra.setdefault("sweeps", {})[label] = {"bytes": len(blob), "prefixes": len(tasks), "command_runs_failing": n_err, "command_runs_identical_to_full": n_same}
    ck.sample({"trace": label, "bytes": len(blob), "prefixes_tested": len(tasks), "failing_runs": n_err, "identical_runs": n_same})


def real_crash(ck, workdir, seed):
    """The writer itself is killed in the middle of its write (RLIMIT_FSIZE -> SIGXFSZ) while re-writing a path that
    already holds an older, complete trace: afterwards every command must fail or report the NEW run completely -
    never the older run's entries and never a partial result."""
    import pickle
    import resource
    import signal
    from phyclone.process_trace import create_main_run_output

    d = os.path.join(workdir, "crash")
    os.makedirs(d, exist_ok=True)
    path = os.path.join(d, "trace.pkl.gz")
    ref_new = os.path.join(d, "new_complete.pkl.gz")
    make_trace(ref_new, 3, 2, 30, seed + 5)
    results_new = LAST_RESULTS[ref_new]
    size_new = os.path.getsize(ref_new)
    full_new = run_commands(ref_new, env.scratch(os.path.join("c20_out", "crash_full")))
    limits = sorted({0, 1, 6, 12, 64, 700, size_new // 3, size_new // 2, size_new - 40, size_new - 3})       # incl. a kill before anything was flushed
    for L in limits:
        make_trace(path, 2, 1, 2, seed + 6)            # the older, complete run
        run_commands(path, d)                          # ... which this (long-lived) process has already summarised once
        pid = os.fork()
        if pid == 0:
            try:
                signal.signal(signal.SIGXFSZ, signal.SIG_DFL)
                resource.setrlimit(resource.RLIMIT_FSIZE, (L, L))
                create_main_run_output(None, path, results_new)
            finally:
                os._exit(0)
        _, status = os.waitpid(pid, 0)
        killed = os.WIFSIGNALED(status)
        res = run_commands(path, d)
        ck.evaluations += 3
        ck.traces_validated += 1
        ck.nontrivial("crash:%d" % L)
        for cmd, (st, dig) in res.items():
            if st == "ok" and dig != full_new[cmd][1]:
                ck.violation("C20|stale_or_partial_after_crash|%s" % cmd, "the writer was killed after %d of %d bytes while re-writing an existing trace; %s then produced results that are not those of the complete new run" % (
                    L, size_new, cmd), {"limit": L, "size": size_new, "command": cmd, "writer_killed": killed})
        for extra in os.listdir(d):
            if extra not in ("trace.pkl.gz", "new_complete.pkl.gz") and not extra.endswith((".tsv", ".nwk")):
                try:
                    os.remove(os.path.join(d, extra))
                except OSError:
                    pass
    ck.extra["real_crash_limits"] = limits
    # the write is interrupted by an exception that unwinds the writer (Ctrl-C, a full disk reported by write()): the
    # clean-up code of the writer runs, the process then ends.  Injection point: the gzip stream's write().
    import gzip as _gz
    total = [0]
    orig_write = _gz.GzipFile.write

    def counting(self_, data_):
        total[0] += len(data_)
        return orig_write(self_, data_)

    _gz.GzipFile.write = counting
    try:
        create_main_run_output(None, os.path.join(d, "dry.pkl.gz"), results_new)
    finally:
        _gz.GzipFile.write = orig_write
    os.remove(os.path.join(d, "dry.pkl.gz"))
    points = sorted({1, total[0] // 7, total[0] // 3, total[0] // 2, (2 * total[0]) // 3, (5 * total[0]) // 6, total[0] - 5})
    for mode in ("interrupt", "disk_full"):
        for k in points:
            make_trace(path, 2, 1, 2, seed + 6)
            run_commands(path, d)
            pid = os.fork()
            if pid == 0:
                try:
                    seen = [0]
                    fired = [False]

                    def failing(self_, data_):
                        if (mode == "disk_full" and fired[0]) or (not fired[0] and seen[0] + len(data_) >= k):
                            fired[0] = True
                            if mode == "interrupt":
                                raise KeyboardInterrupt()
                            raise OSError(28, "No space left on device")
                        seen[0] += len(data_)
                        return orig_write(self_, data_)

                    _gz.GzipFile.write = failing
                    try:
                        create_main_run_output(None, path, results_new)
                    except BaseException:  # noqa - the run dies with this exception
                        pass
                finally:
                    os._exit(0)
            os.waitpid(pid, 0)
            res = run_commands(path, d)
            ck.evaluations += 3
            ck.traces_validated += 1
            ck.nontrivial("crash:%s:%d" % (mode, k))
            for cmd, (st, dig) in res.items():
                if st == "ok" and dig != full_new[cmd][1]:
                    ck.violation("C20|partial_after_%s|%s" % (mode, cmd), "the write of the trace was cut short by %s after %d of %d (uncompressed) bytes and the writer unwound; %s then produced results that are not those of the complete run" % (
                        "an interrupt" if mode == "interrupt" else "a full disk", k, total[0], cmd), {"mode": mode, "bytes": k, "total": total[0], "command": cmd})
    ck.extra["interrupted_write_points"] = points


def run(corrupt=None):
    ck = Check("C20", level="fault_enumeration")
    env.use_repo()
    thorough = ck.tier == "thorough"
    model_runs(ck)
    store_model_runs(ck)
    workdir = env.scratch("c20_files")
    specs = [("2chains_3entries", 3, 2, 3, False), ("3chains_2entries_clustered", 3, 3, 2, True)]
    if thorough:
        specs += [("1chain_6entries", 4, 1, 6, False), ("1chain_1entry", 2, 1, 1, False), ("3chains_6entries", 3, 3, 6, False), ("2chains_4entries_clustered", 4, 2, 4, True),
                  ("3chains_40entries", 5, 3, 40, False), ("1chain_25entries_clustered", 6, 1, 25, True)]
    for label, n, chains, entries, clustered in specs:
        p = os.path.join(workdir, label + ".pkl.gz")
        size = make_trace(p, n, chains, entries, ck.seed + len(label), clustered)
        sweep(ck, label, p, range(0, size), workdir, corrupt)
        sweep_companions(ck, label, p, workdir)
    # a long trace (> 1000 entries per chain): dense sample of prefixes incl. every byte of the last 300
    p = os.path.join(workdir, "long.pkl.gz")
    size = make_trace(p, 1, 2, 1100, ck.seed + 99)
    step = max(1, size // (1500 if thorough else 400))
    prefixes = sorted(set(range(0, size, step)) | set(range(max(0, size - 300), size)))
    sweep(ck, "2chains_1100entries", p, prefixes, workdir)
    real_crash(ck, workdir, ck.seed)
    shutil.rmtree(workdir, ignore_errors=True)
    shutil.rmtree(env.scratch("c20_out"), ignore_errors=True)
    ck.rule = ("every prefix length (crash point) of each small trace file x 3 summary commands; for the 1100-entry trace a dense sample of prefixes plus "
               "every byte of the last 300; non-trivial = each (file, prefix) pair")
    ck.exhaustive = True
    ck.assumptions = ["a crash leaves a prefix of the bytes written by the single streamed write (no torn or reordered blocks); additionally the real writer is "
                      "killed by the kernel (RLIMIT_FSIZE) at six points while re-writing a path that holds an older complete trace",
                      "any exception of a summary command counts as 'fails with an error'"]
    if corrupt:
        return ck
    return ck.finish()


def selftest():
    ck = run(corrupt="digest")
    ok = any(v["signature"].startswith("C20|partial_result") for v in ck.violations)
    print("selftest:", "altered output digest detected" if ok else "FAILED")
    return 0 if ok else 1


def replay(path):
    body = json.load(open(path))
    print(json.dumps(body["replay"], indent=1)[:2000])
    return 0
