"""C16 - the consensus tree contains exactly the clades with majority support.

M: SummariesCons.tla - for every sample of <= 3 trees over all forests on 3 data points (counts mode; weighted mode
   with score multipliers) and thresholds 1/2, 2/3, 1: exact rational support of every clade, Cons = clades with support
   strictly above the threshold, LaminarInv (a valid tree exists), NoCollision (the implementation's node identity
   keeps retained clades apart); undetermined instances (support exactly at the threshold) are flagged.
   SummariesCons4.tla (thorough) - all 14 M triples of forests on 4 points: LaminarInv, NoCollision.
O: get_consensus_tree + get_tree_from_consensus_graph on every printed instance (and write_consensus_results through
   real trace files on a sample): the result must be a well-formed tree whose clade set is exactly Cons, with the
   uncovered data points reported as outliers, and no exception.
"""
import json
import math
import os
import random
import shutil

from .. import env, tlc, absstate, kernels, outputs
from ..evidence import Check

MC = "---- MODULE MC_Cons ----\nEXTENDS SummariesCons\nThDef == {<<1,2>>, <<2,3>>, <<9,10>>, <<1,1>>}\n====\n"


def tlc_instances(ck, job, n, outl, maxtrees, maxmult, weighted, keep=True, timeout=3000):
    cfg = tlc.cfg_text(constants={"N": n, "OutliersOn": tlc.tla_bool(outl), "MaxTrees": maxtrees, "MaxMult": maxmult, "Weighted": tlc.tla_bool(weighted),
                                  "Thetas": "<- ThDef", "KeepClade": tlc.tla_bool(keep), "Dump": "TRUE"}, invariants=["LaminarInv", "NoCollision", "Emit"])
    r = tlc.run_tlc(job, "MC_Cons", cfg, mc_text=MC, timeout=timeout)
    return r


def consensus_key(trees_keys, mults, theta, weighted, data):
    """Run the real consensus code; returns (key, None) or (None, error string)."""
    from phyclone.process_trace.consensus import get_consensus_tree
    from phyclone.process_trace.process_trace import get_tree_from_consensus_graph
    from phyclone.utils.math import exp_normalize
    import numpy as np

    if weighted:
        # as write_consensus_results does: distinct topologies, weight = best score * count, normalised
        topo = {}
        for k, m in zip(trees_keys, mults):
            c, b = topo.get(k, (0, 0))
            topo[k] = (c + 1, max(b, m))
        keys = list(topo)
        probs = np.array([math.log(topo[k][1]) + math.log(topo[k][0]) for k in keys])
        probs, _ = exp_normalize(probs)
        trees = [absstate.build(k, data) for k in keys]
        graph = get_consensus_tree(trees, data=data, threshold=theta, weighted=True, log_p_list=probs)
    else:
        trees = [absstate.build(k, data) for k in trees_keys]
        graph = get_consensus_tree(trees, data=data, threshold=theta, weighted=False)
    tree = get_tree_from_consensus_graph(data, graph)
    key, _ = absstate.project(tree, full=True)
    return key


def check_instance(rec, n, data, corrupt=None):
    probs = []
    keys = [absstate.canon(e["t"]) for e in rec["trees"]]
    mults = [e["m"] for e in rec["trees"]]
    for bt in rec["by_theta"]:
        theta = bt["theta"][0] / bt["theta"][1]
        if not bt["determined"]:
            continue
        want = (frozenset(frozenset(c) for c in bt["cons"]), frozenset(bt["uncovered"]))
        if corrupt == "cons" and len(want[0]) >= 2:
            want = (frozenset(list(want[0])[1:]), want[1])
        rep = {"trees": rec["trees"], "theta": bt["theta"], "weighted": rec["weighted"], "expected": absstate.to_json(want)}
        try:
            got = consensus_key(keys, mults, theta, rec["weighted"], data)
        except absstate.Inconsistent as ex:
            probs.append(("C16|malformed_tree", "consensus tree is not well-formed: %s (theta %s, trees %s)" % (ex, bt["theta"], [absstate.key_str(k) for k in keys]), rep))
            continue
        except Exception as ex:
            probs.append(("C16|exception:%s" % type(ex).__name__, "consensus raised %s: %s (theta %s, trees %s)" % (type(ex).__name__, ex, bt["theta"], [absstate.key_str(k) for k in keys]), rep))
            continue
        if got != want:
            sig = "C16|clades" + ("|empty_clones_collapse" if bt["collides"] else "") + ("|weighted" if rec["weighted"] else "")
            probs.append((sig, "consensus of %s at threshold %s (%s) has clades %s, the clades with support above the threshold are %s" % (
                [absstate.key_str(k) for k in keys], bt["theta"], "weighted" if rec["weighted"] else "counts", absstate.key_str(got), absstate.key_str(want)),
                dict(rep, observed=absstate.to_json(got))))
    return probs


def file_route(rec, idx, n, workdir):
    """The same through write_consensus_results on a real trace file (2 chains), parsing TABLE/TREE back."""
    from phyclone.process_trace import write_consensus_results
    from .. import gridoracle
    import contextlib, io

    probs = []
    clusters = None
    if idx % 3 == 2:
        # a clustered run: data points are clusters whose integer ids have gaps and do not start at 0; two mutations each
        import pandas as pd
        cids = [3 + 4 * i for i in range(n)]
        names = [str(c) for c in cids]
        clusters = pd.DataFrame([{"mutation_id": "mut_%d_%d" % (i, j), "cluster_id": cids[i]} for i in range(n) for j in (1, 2)])
        name_to_idx = {"mut_%d_%d" % (i, j): i for i in range(n) for j in (1, 2)}
    else:
        names = ["m%d" % i for i in range(n)]
        name_to_idx = {nm: i for i, nm in enumerate(names)}
    data = gridoracle.data_from_tables(gridoracle.int_tables(n, 1, 5, 3), names=names)
    # every trace a worker handles is written to the SAME path (a long-lived driver re-running the sampler and summarising
    # again): the command must build the consensus of what the file holds now
    d = os.path.join(workdir, "c%d" % os.getpid())
    os.makedirs(d, exist_ok=True)
    ents = [(absstate.canon(e["t"]), math.log(e["m"]) - 2.5, idx + j) for j, e in enumerate(rec["trees"])]
    chains = ([(1, ents[1:]), (0, ents[:1])] if idx % 2 else [(0, ents[:1]), (1, ents[1:])]) if len(ents) > 1 else [(0, ents)]
    tp = os.path.join(d, "trace.pkl.gz")
    outputs.write_trace_file(tp, chains, data, ["s0"], clusters=clusters)
    try:
        for bt in rec["by_theta"]:
            if not bt["determined"]:
                continue
            theta = bt["theta"][0] / bt["theta"][1]
            want = (frozenset(frozenset(c) for c in bt["cons"]), frozenset(bt["uncovered"]))
            rep = {"trees": rec["trees"], "theta": bt["theta"], "weighted": rec["weighted"], "route": "write_consensus_results"}
            try:
                with contextlib.redirect_stdout(io.StringIO()):
                    write_consensus_results(tp, os.path.join(d, "t.tsv"), os.path.join(d, "t.nwk"), consensus_threshold=theta,
                                            weight_type="joint-likelihood" if rec["weighted"] else "counts")
                got, _, pr, _ = outputs.tree_from_outputs(outputs.read_table(os.path.join(d, "t.tsv")), open(os.path.join(d, "t.nwk")).read(), name_to_idx)
                for m in pr:
                    probs.append(("C16|file|malformed_output", m, rep))
                if got != want:
                    sig = "C16|file|clades" + ("|empty_clones_collapse" if bt["collides"] else "")
                    probs.append((sig, "consensus command (%s, threshold %s) wrote clades %s, expected %s" % (
                        "weighted" if rec["weighted"] else "counts", bt["theta"], absstate.key_str(got), absstate.key_str(want)), rep))
            except outputs.OutputError as ex:
                probs.append(("C16|file|malformed_output", str(ex), rep))
            except Exception as ex:
                probs.append(("C16|file|exception:%s" % type(ex).__name__, "consensus command raised %s: %s" % (type(ex).__name__, ex), rep))
    finally:
        shutil.rmtree(d, ignore_errors=True)
    return probs


def run(corrupt=None):
    ck = Check("C16")
    env.use_repo()
    thorough = ck.tier == "thorough"
    n = 3
    recs = []
    for job, outl, mt, mm, w in (("c16_counts", False, 3, 1, False), ("c16_weighted", False, 2, 2, True), ("c16_outl", True, 2, 1, False), ("c16_outl_w", True, 2, 2, True)):
        r = tlc_instances(ck, job, n, outl, mt, mm, w)
        if r.violated:
            raise tlc.TLCError("SummariesCons invariant violated at the model level: %s" % r.summary())
        tlc.require_ok(r, job)
        ck.add_tlc("SummariesCons N=3 outl=%d trees<=%d mult<=%d weighted=%d" % (outl, mt, mm, w), r)
        recs += r.json_prints
    negr = tlc.run_tlc("c16_neg", "SummariesCons4", tlc.cfg_text(constants={"N": 4, "KeepClade": "FALSE"}, invariants=["NoCollision"]), timeout=3000)
    ck.add_tlc("DEV node identity = own mutations only, 4 points (must collide)", negr, must_fail=True)
    if "NoCollision" not in negr.violated:
        raise tlc.TLCError("deviation not refuted: %s" % negr.summary())
    if thorough:
        r4 = tlc.run_tlc("c16_n4", "SummariesCons4", tlc.cfg_text(constants={"N": 4, "KeepClade": "TRUE"}, invariants=["LaminarInv", "NoCollision"]), timeout=6000)
        tlc.require_ok(r4, "SummariesCons4")
        ck.add_tlc("SummariesCons4: all triples of forests on 4 points (laminar, no collision)", r4)
    # weighted mode with revisited topologies (same tree recorded several times with different scores): forests on 2 points
    rw = tlc_instances(ck, "c16_weighted3", 2, False, 3, 3, True)
    tlc.require_ok(rw, "c16_weighted3")
    ck.add_tlc("SummariesCons N=2 trees<=3 mult<=3 weighted (revisited topologies)", rw)
    revisit = [x for x in rw.json_prints if len(x["trees"]) == 3]
    rnd = random.Random(ck.seed)
    if not thorough:
        big = [x for x in recs if len(x["trees"]) >= 2]
        recs = rnd.sample(big, min(6000, len(big))) + [x for x in recs if len(x["trees"]) == 1][:40]
    from .. import gridoracle
    data = gridoracle.data_from_tables(gridoracle.int_tables(n, 1, 5, 3))

    def task(arg):
        i, rec = arg
        out = check_instance(rec, n, data, corrupt if i == 0 else None)
        return out

    tasks = list(enumerate(recs))
    task(tasks[0])
    results = kernels.parallel_map(task, tasks, chunksize=64)
    for (i, rec), probs in zip(tasks, results):
        ck.evaluations += len(rec["by_theta"])
        ck.traces_validated += 1
        for sig, msg, rep in probs:
            ck.violation(sig, msg, rep)
        if len({json.dumps(e["t"], sort_keys=True) for e in rec["trees"]}) > 1:
            ck.nontrivial(json.dumps(rec["trees"], sort_keys=True) + str(rec["weighted"]))
    # 4-point instances incl. the empty-clone pattern (two retained clades that own nothing) and the file route
    special = extra_instances(ck)
    workdir = env.scratch("c16_files")
    sample = rnd.sample(recs, min(len(recs), 150 if not thorough else 1500))
    # weighted traces that contain a state without any clone (every data point an outlier) always go through the command
    clone_less = [x for x in recs if x["weighted"] and len(x["trees"]) >= 2 and any(not e["t"]["f"] for e in x["trees"]) and any(e["t"]["f"] for e in x["trees"])]
    sample += rnd.sample(clone_less, min(len(clone_less), 60 if not thorough else 400))
    rv = revisit if thorough else rnd.sample(revisit, min(len(revisit), 500))
    ftasks = [(i, rec, n) for i, rec in enumerate(sample)] + [(10000 + i, rec, 2) for i, rec in enumerate(rv)]

    def ftask(arg):
        i, rec, nn = arg
        return file_route(rec, i, nn, workdir)

    for (i, rec, _nn), probs in zip(ftasks, kernels.parallel_map(ftask, ftasks, chunksize=8)):
        ck.evaluations += 1
        ck.traces_validated += 1
        for sig, msg, rep in probs:
            ck.violation(sig, msg, rep)
    shutil.rmtree(workdir, ignore_errors=True)
    ck.sample({"trees": recs[0]["trees"], "by_theta": recs[0]["by_theta"][:2]})
    ck.rule = ("samples of <= 3 trees over all forests on 3 data points (counts), <= 2 trees with score multipliers (weighted), with outliers (<= 2 trees), "
               "4 thresholds; quick tier: seeded sample of 6000; plus hand-picked 4-point samples with empty clones; non-trivial = samples with > 1 distinct tree")
    ck.exhaustive = thorough
    ck.assumptions = ["instances with a support exactly at the threshold are not judged (the property excludes them)"]
    if corrupt:
        return ck
    return ck.finish()


def extra_instances(ck):
    """4-point samples: the TLC counterexample of the collapsing-empty-clones deviation and variations of it."""
    from .. import gridoracle
    n = 4
    data = gridoracle.data_from_tables(gridoracle.int_tables(n, 1, 5, 5))
    base = [
        [[[0], [1], [2], [3]], [[0], [1], [0, 2], [1, 3]], [[2], [3], [0, 2], [1, 3]]],
        [[[0], [1], [2], [3]], [[0, 1], [2, 3], [0], [2]], [[0, 1], [2, 3], [1], [3]]],
        [[[0, 1, 2, 3], [0, 1], [2, 3], [0], [1], [2], [3]], [[0, 1, 2, 3], [0, 1], [2, 3], [0], [1], [2], [3]], [[0], [1], [2], [3]]],
    ]
    for trees in base:
        keys = [absstate.canon({"f": t, "o": []}) for t in trees]
        # definition evaluated here only to name the expected clades of these three hand-picked samples: majority of 3
        allc = set().union(*[k[0] for k in keys])
        cons = frozenset(c for c in allc if sum(1 for k in keys if c in k[0]) * 2 > 3)
        unc = frozenset(set(range(n)) - set().union(*cons)) if cons else frozenset(range(n))
        want = (cons, unc)
        rep = {"trees": [absstate.to_json(k) for k in keys], "theta": [1, 2], "weighted": False}
        ck.evaluations += 1
        try:
            got = consensus_key(keys, [1, 1, 1], 0.5, False, data)
        except absstate.Inconsistent as ex:
            ck.violation("C16|malformed_tree|n=4", "consensus tree is not well-formed: %s (%s)" % (ex, [absstate.key_str(k) for k in keys]), rep)
            continue
        except Exception as ex:
            ck.violation("C16|exception:%s|n=4" % type(ex).__name__, "consensus raised %s: %s" % (type(ex).__name__, ex), rep)
            continue
        collide = len({frozenset(c - set().union(*[x for x in cons if x < c])) for c in cons}) < len(cons)
        if got != want:
            ck.violation("C16|clades" + ("|empty_clones_collapse" if collide else "") + "|n=4",
                         "consensus of %s at threshold 1/2 has clades %s, majority clades are %s" % ([absstate.key_str(k) for k in keys], absstate.key_str(got), absstate.key_str(want)), rep)
        ck.nontrivial("n4:" + json.dumps(rep["trees"]))


def selftest():
    ck = run(corrupt="cons")
    ok = any(v["signature"].startswith("C16|clades") for v in ck.violations)
    print("selftest:", "corrupted expected clade set detected" if ok else "FAILED")
    return 0 if ok else 1


def replay(path):
    body = json.load(open(path))
    print(json.dumps(body["replay"], indent=1)[:2000])
    return 0
