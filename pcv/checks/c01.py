"""C01 - one particle-Gibbs update of the whole tree leaves the posterior (exp log_p_one) invariant.

M: PGibbs.tla - distribution-lifted model of one update (sigma draw, retained path, init, resampling with the
   retained slot, propagation, weight recursion, last-step correction, selection) evaluated exactly in F_p over
   integer tables; Stationary proved for 3 kernels x outliers x NP x resampling policies; each deviation constant
   (no permutation density in the weights, outlier orders not counted, bootstrap half, dropped first weight,
   no last-step correction) must be refuted.
O: exact transition matrix of the real ParticleGibbsTreeSampler.sample_tree (every RNG outcome enumerated) from
   every start tree, both wirings (phyclone.run.setup_kernel/setup_samplers; library kernel with
   RootPermutationDistribution), on TLC's integer tables (TableDist) and on the real TreeJointDistribution;
   pi from the code's log_p_one;  max |pi K - pi| <= 1e-10, rows sum to one, outputs well-formed over all data.
"""
import itertools
import json
import math
import os

from .. import env, tlc, absstate, kernels
from ..evidence import Check
from ..enumrng import EnumRNG
from ..tabledist import TableDist
from . import c08

PRIMES = [46337, 46327]
TOL = 1e-10
PROPOSAL_NAME = {"boot": "bootstrap", "semi": "semi-adapted", "full": "fully-adapted"}


def pg_consts(n, np_, kernel, outl, seed, perm=True, coo=True, bh=False, pol="always", init=False, nolast=False, prime=46337):
    return {"N": n, "NP": np_, "Kernel": tlc.tla_str(kernel), "OutlierOn": tlc.tla_bool(outl), "UsePerm": tlc.tla_bool(perm),
            "CountOutlierOrders": tlc.tla_bool(coo), "BootHalfOnOutlierOnly": tlc.tla_bool(bh), "Policy": tlc.tla_str(pol),
            "InitDropsFirstWeight": tlc.tla_bool(init), "NoLastCorrection": tlc.tla_bool(nolast), "Seed": seed, "P": prime}


def pg_job(name, c, timeout=3000):
    return dict(job=name, module="PGibbs", cfg=tlc.cfg_text(constants=c, invariants=["RowSumsToOne", "Stationary"]),
                workers=1, timeout=timeout)


def model_runs(ck, thorough, seed):
    jobs, meta = [], []

    def add(label, c, must_fail=False):
        jobs.append(pg_job("c01_%d" % len(jobs), c))
        meta.append((label, must_fail))

    ns = [1, 2]
    for n in ns:
        for k in ("boot", "semi", "full"):
            for outl in (False, True):
                for pol in ("always", "never", "unequal"):
                    add("PGibbs N=%d NP=2 %s outl=%d %s" % (n, k, outl, pol), pg_consts(n, 2, k, outl, seed, pol=pol))
    add("PGibbs N=2 NP=3 semi outl=1 unequal", pg_consts(2, 3, "semi", True, seed, pol="unequal"))
    add("PGibbs N=2 NP=2 full outl=1 always prime2", pg_consts(2, 2, "full", True, seed, prime=PRIMES[1]))
    add("PGibbs N=3 NP=2 full outl=0 unequal", pg_consts(3, 2, "full", False, seed, pol="unequal"))
    if thorough:
        for k in ("boot", "semi", "full"):
            for outl in (False, True):
                for pol in ("always", "unequal"):
                    add("PGibbs N=3 NP=2 %s outl=%d %s" % (k, outl, pol), pg_consts(3, 2, k, outl, seed, pol=pol))
        add("PGibbs N=3 NP=3 full outl=0 unequal", pg_consts(3, 3, "full", False, seed, pol="unequal"))
        for k in ("boot", "semi", "full"):
            add("PGibbs N=2 NP=3 %s outl=1 always" % k, pg_consts(2, 3, k, True, seed, pol="always"))
            add("PGibbs N=3 NP=2 %s outl=1 unequal prime2" % k, pg_consts(3, 2, k, True, seed + 1, pol="unequal", prime=PRIMES[1]))
    # deviations: each must be refuted (vacuity guard; these are the models of findings F1-F4 and of seeded mutants)
    add("DEV run-wiring without permutation density", pg_consts(2, 2, "full", False, seed, perm=False), True)
    add("DEV outlier orders not counted", pg_consts(2, 2, "full", True, seed, coo=False), True)
    add("DEV bootstrap half on outlier-only parent", pg_consts(2, 2, "boot", True, seed, bh=True), True)
    add("DEV first-step weights dropped (boot+outliers)", pg_consts(2, 2, "boot", True, seed, init=True), True)
    add("DEV first-step weights dropped (n=1)", pg_consts(1, 2, "full", True, seed, pol="never", init=True), True)
    add("DEV no last-step correction", pg_consts(2, 2, "semi", False, seed, nolast=True), True)
    res = tlc.run_many(jobs, max_parallel=env.ncpu())
    for (label, must_fail), r in zip(meta, res):
        ck.add_tlc(label, r, must_fail=must_fail)
        if must_fail:
            if "Stationary" not in r.violated:
                raise tlc.TLCError("vacuity guard: deviation model not refuted: %s %s" % (label, r.summary()))
        else:
            if r.violated:
                # the design itself would be wrong: report as machinery failure (the model, not the code, is at fault)
                raise tlc.TLCError("model 'as specified' is refuted by TLC: %s %s" % (label, r.summary()))
            tlc.require_ok(r, label)


# ------------------------------------------------------------------------------------------------ code side
def universe(table, n, outl):
    out = []
    for r in table:
        k = absstate.canon(r["st"])
        if absstate.data_ids(k) == set(range(n)) and (outl or not k[1]):
            out.append(k)
    return sorted(out, key=absstate.key_str)


def make_dist(cfg, table):
    if cfg["dist"] == "table":
        return TableDist(table)
    from phyclone.tree import FSCRPDistribution, TreeJointDistribution
    return TreeJointDistribution(FSCRPDistribution(cfg["alpha"]))


def make_data(cfg):
    if cfg["dist"] == "table":
        return absstate.make_data(cfg["n"], kind="flat", grid=3)
    # unequal cluster sizes: data points carry different outlier priors, as clustered input gives
    data = absstate.make_data(cfg["n"], dims=cfg.get("dims", 1), grid=5, seed=cfg.get("dseed", 0), kind="int",
                              outlier_prob=(0.2 if cfg["outl"] else 0.0), sizes=[(1, 3, 2)[i % 3] for i in range(cfg["n"])], offset=cfg.get("offset", 0.0))
    if cfg.get("zero_prior"):
        from phyclone.data.base import DataPoint
        d0 = data[0]
        data[0] = DataPoint(d0.idx, d0.value, name=d0.name, outlier_prob=0, outlier_prob_not=0.0)     # no outlier prior on the first point
    return data


def make_sampler(cfg, td, rng, which="tree"):
    """Build the sampler exactly as the run command does ('run') or as the library/tests do ('lib')."""
    from phyclone.smc.utils import RootPermutationDistribution
    from phyclone.mcmc.particle_gibbs import ParticleGibbsTreeSampler, ParticleGibbsSubtreeSampler
    from phyclone.mcmc.gibbs_mh import DataPointSampler, PruneRegraphSampler
    import phyclone.run as prun

    outlier_prob = 0.2 if cfg["outl"] else 0
    if cfg["wiring"] == "run":
        kern = prun.setup_kernel(outlier_prob, PROPOSAL_NAME[cfg["kernel"]], rng, td)
        s = prun.setup_samplers(kern, cfg["np"], outlier_prob, cfg["thr"], rng, td)
        return {"tree": s.tree_sampler, "subtree": s.subtree_sampler, "dp": s.dp_sampler, "prg": s.prg_sampler, "burnin": s.burnin_sampler}[which]
    if which == "dp":
        return DataPointSampler(td, rng, outliers=bool(cfg["outl"]))
    if which == "prg":
        return PruneRegraphSampler(td, rng)
    kern = c08.kernel_cls(cfg["kernel"])(td, rng, outlier_proposal_prob=(0.1 if cfg["outl"] else 0.0),
                                         perm_dist=RootPermutationDistribution())
    if which == "burnin":
        from phyclone.smc.samplers import UnconditionalSMCSampler
        return UnconditionalSMCSampler(kern, num_particles=cfg["np"], resample_threshold=cfg["thr"])
    cls = ParticleGibbsTreeSampler if which == "tree" else ParticleGibbsSubtreeSampler
    return cls(kern, rng, num_particles=cfg["np"], resample_threshold=cfg["thr"])


def cfg_label(cfg):
    return "wiring=%s|kernel=%s|outl=%d|n=%d|np=%d|thr=%s|dist=%s" % (
        cfg["wiring"], cfg["kernel"], cfg["outl"], cfg["n"], cfg["np"], cfg["thr"],
        cfg["dist"] + ("" if cfg["dist"] == "table" else ":a=%s" % cfg["alpha"]) + ("" if cfg.get("alpha_pre") is None else ":after_a=%s" % cfg["alpha_pre"])
        + ("" if not cfg.get("offset") else ":heavy=%s" % cfg["offset"]) + ("" if not cfg.get("zero_prior") else ":point0_without_outlier_prior"))


def run_configs(ck, configs, table, which="tree", prop="C01", corrupt=None, sigfn=None, structural_only=False):
    """Exact kernels for all configs (parallel over (config, start state)); stationarity verdicts."""
    tasks = []
    for ci, cfg in enumerate(configs):
        for s0 in universe(table, cfg["n"], cfg["outl"]):
            tasks.append((ci, s0))

    def task(arg):
        ci, s0 = arg
        cfg = configs[ci]
        c08.clear_caches()
        td = make_dist(cfg, table)
        data = make_data(cfg)
        rng = EnumRNG()
        if which == "sweep":
            # the auxiliary moves composed as in phyclone.run._run_main_sampler, on one tree object that has already
            # had its density evaluated (as print_stats / append_to_trace do between iterations)
            dp_s, prg_s = make_sampler(cfg, td, rng, "dp"), make_sampler(cfg, td, rng, "prg")

            def sweep():
                t = absstate.build(s0, data)
                td.log_p_one(t)
                t = dp_s.sample_tree(t)
                t = prg_s.sample_tree(t)
                t.relabel_nodes()
                td.log_p_one(t)
                t = prg_s.sample_tree(t)
                return t

            res = kernels.exact_row(sweep, rng)
        else:
            sampler = make_sampler(cfg, td, rng, which)
            if cfg.get("alpha_pre") is not None and cfg["dist"] == "real":
                # history: the same sampler / kernel / distribution objects first perform every update from this start
                # tree under another concentration value, which is then changed in place WITHOUT clearing any cache
                td.prior.alpha = cfg["alpha_pre"]
                kernels.exact_row(lambda: sampler.sample_tree(absstate.build(s0, data)), rng)
                td.prior.alpha = cfg["alpha"]
            res = kernels.exact_row(lambda: sampler.sample_tree(absstate.build(s0, data)), rng)
        lp1 = float(td.log_p_one(absstate.build(s0, data)))
        return ci, s0, res, lp1

    # JIT warm-up in the parent so that forked workers inherit compiled code
    if tasks:
        task(tasks[0])
    results = kernels.parallel_map(task, tasks)
    per = {}
    for ci, s0, res, lp1 in results:
        per.setdefault(ci, {})[s0] = (res, lp1)
    for ci, cfg in enumerate(configs):
        label = cfg_label(cfg)
        states = universe(table, cfg["n"], cfg["outl"])
        K, logpi = {}, {}
        bad = []
        paths = 0
        for s0 in states:
            res, lp1 = per[ci][s0]
            K[s0] = res["row"]
            logpi[s0] = lp1
            paths += res["paths"]
            for b in res["bad"]:
                bad.append((s0, b))
        if corrupt == "pi" and len(states) > 1:
            logpi[states[0]] += 0.01
        ck.evaluations += paths
        ck.traces_validated += len(states)
        rep = {"config": cfg, "label": label, "which": which}
        base = "|".join(label.split("|")[:3]) if sigfn is None else sigfn(cfg)
        if bad:
            s0, (kind, msg, script, p) = bad[0]
            sig = "%s|%s|%s" % (prop, base, kind if kind != "exception" else "exception:" + msg.split(":")[0])
            ck.violation(sig, "%s from start %s on RNG script %s: %s  [%s]" % (kind, absstate.key_str(s0), script, msg, label),
                         dict(rep, start=absstate.to_json(s0), script=script, detail=msg))
            continue
        st = kernels.stationarity(states, logpi, K)
        if len(states) > 1:
            ck.nontrivial(("%s:" % which) + label)
        if structural_only:
            # C07: only well-formedness / data conservation / definedness of the move are judged here
            if st["escaped"] > 0:
                ck.violation("%s|%s|data_not_conserved" % (prop, base), "%s returns trees that do not hold exactly the data it was given (mass %.3g) [%s]" % (which, st["escaped"], label), rep)
            continue
        ck.extra.setdefault("residuals", {})[("%s:" % which) + label] = {"max_abs": st["max_abs"], "max_rel": st["max_rel"], "paths": paths, "states": len(states)}
        if st["escaped"] > 0:
            ck.violation("%s|%s|escaped" % (prop, base), "mass %.3g leaves the universe of trees over all data [%s]" % (st["escaped"], label), rep)
        elif st["worst_row_sum_err"] > 1e-9:
            ck.violation("%s|%s|rowsum" % (prop, base), "a kernel row sums to 1%+.3g [%s]" % (st["worst_row_sum_err"], label), rep)
        elif st["max_abs"] > TOL:
            w = st["worst_state"]
            ck.violation("%s|%s|nonstationary" % (prop, base),
                         "posterior not invariant: max|piK-pi| = %.3g (rel %.3g) at %s [%s; %d paths]" % (
                             st["max_abs"], st["max_rel"], absstate.key_str(w), label, paths),
                         dict(rep, worst_state=absstate.to_json(w), max_abs=st["max_abs"], max_rel=st["max_rel"],
                              fingerprint_label=("%s:" % which) + label, fingerprint="%.5e" % st["max_abs"],
                              pi={absstate.key_str(s): st["pi"][s] for s in states},
                              resid={absstate.key_str(s): st["resid"][s] for s in states}))
        if len(ck.samples) < 5 and len(states) > 1:
            s0 = states[-1]
            ck.sample({"config": label, "start": absstate.to_json(s0), "row": {absstate.key_str(t): p for t, p in K[s0].items() if isinstance(t, tuple) and len(t) == 2 and not isinstance(t[0], str)},
                       "max_abs_residual": st["max_abs"], "paths": paths})


def get_table(seed, n=3):
    j, out = c08.tlc_job("c01_table", c08.consts(n, "full", True, True, seed))
    r = tlc.run_tlc(**j)
    tlc.require_ok(r, "table dump")
    return json.load(open(out))["table"], r


def configs_for(tier):
    cfgs = []
    base = dict(dist="table", alpha=1.0, np=2)
    for n in (1, 2):
        for k in ("boot", "semi", "full"):
            for w in ("run", "lib"):
                for outl in (False, True):
                    for thr in (0.0, 0.5, 1.0):
                        cfgs.append(dict(base, n=n, kernel=k, wiring=w, outl=outl, thr=thr))
    # real density (end to end): alpha != 1, outliers on/off
    for k, w, outl, a in (("semi", "run", True, 0.3), ("full", "lib", False, 2.5), ("boot", "run", True, 1.0), ("semi", "lib", False, 0.3)):
        cfgs.append(dict(n=2, kernel=k, wiring=w, outl=outl, thr=0.5, np=2, dist="real", alpha=a))
    cfgs.append(dict(base, n=3, kernel="full", wiring="lib", outl=False, thr=0.5))
    # heavy data points (two samples, log-likelihoods around -800 and -1600): weights far below the range of exp()
    cfgs.append(dict(n=2, kernel="semi", wiring="run", outl=True, thr=0.5, np=2, dist="real", alpha=1.3, dims=2, offset=800.0))
    cfgs.append(dict(n=2, kernel="boot", wiring="lib", outl=False, thr=1.0, np=3, dist="real", alpha=0.7, dims=2, offset=800.0))
    # concentration changed in place between two updates on the same objects, no cache clear in between
    cfgs.append(dict(n=2, kernel="semi", wiring="lib", outl=True, thr=0.5, np=2, dist="real", alpha=2.5, alpha_pre=0.4))
    cfgs.append(dict(n=2, kernel="full", wiring="run", outl=False, thr=0.5, np=2, dist="real", alpha=0.4, alpha_pre=2.5))
    cfgs.append(dict(base, n=2, kernel="semi", wiring="run", outl=True, thr=0.5, np=3))
    # three particles with unequal first-step weights (bootstrap + outliers): resampling really chooses among particles
    cfgs.append(dict(base, n=2, kernel="boot", wiring="run", outl=True, thr=1.0, np=3))
    # ... and a threshold between the relative ESS of the whole swarm and that of its free particles (adaptive decision)
    cfgs.append(dict(base, n=2, kernel="boot", wiring="run", outl=True, thr=0.75, np=3))
    cfgs.append(dict(base, n=2, kernel="boot", wiring="lib", outl=True, thr=0.9, np=3))
    cfgs.append(dict(base, n=2, kernel="boot", wiring="lib", outl=True, thr=0.7, np=3))
    if tier == "thorough":
        for k in ("boot", "semi", "full"):
            for w in ("run", "lib"):
                for outl in (False, True):
                    cfgs.append(dict(base, n=3, kernel=k, wiring=w, outl=outl, thr=0.5))
            cfgs.append(dict(base, n=2, kernel=k, wiring="run", outl=True, thr=0.5, np=3))
            if k == "full":
                cfgs.append(dict(base, n=3, kernel=k, wiring="lib", outl=False, thr=0.5, np=3))
            for a in (0.3, 1.0, 2.5):
                cfgs.append(dict(n=2, kernel=k, wiring="run", outl=True, thr=0.5, np=2, dist="real", alpha=a))
                cfgs.append(dict(n=3, kernel=k, wiring="lib", outl=False, thr=0.5, np=2, dist="real", alpha=a))
    # de-duplicate
    seen, out = set(), []
    for c in cfgs:
        key = json.dumps(c, sort_keys=True)
        if key not in seen:
            seen.add(key)
            out.append(c)
    return out


def restrict(key, S):
    f, o = key
    out = set()
    for c in f:
        own = set(c)
        for x in f:
            if x < c:
                own -= x
        if own & S:
            out.add(frozenset(c & S))
    return (frozenset(out), frozenset(o & S))


def target_identity(ck, n, seed):
    """The SMC weights must telescope to the target the property names: for every complete forest x on n points and
    compatible orders sigma (TLC's sets), the incremental weights of the real kernel along the retained path plus
    the last-step correction equal  log_p_one(x) [as the trace records it] - log #orders(x) [TLC's count]."""
    import numpy as np
    from .. import gridoracle
    from . import c09
    from phyclone.tree import FSCRPDistribution, TreeJointDistribution
    from phyclone.smc.utils import RootPermutationDistribution
    import phyclone.run as prun

    r = c09._tlc(n, True, True, "c01_perm%d" % n)
    tlc.require_ok(r, "Perm N=%d for the target identity" % n)
    ck.add_tlc("Perm N=%d (orders and counts for the weight-target identity)" % n, r)
    tab = gridoracle.int_tables(n, 1, 4, seed, lo=1, hi=6)
    data = gridoracle.data_from_tables(tab, outlier_prob=0.2)
    checked = 0
    for rec in r.json_prints:
        key = absstate.canon(rec["st"])
        if absstate.data_ids(key) != set(range(n)):
            continue
        orders = sorted(tuple(o) for o in rec["orders"])
        for sigma in (orders[0], orders[-1]) if len(orders) > 1 else (orders[0],):
            for wiring in ("run", "lib"):
                td = TreeJointDistribution(FSCRPDistribution(0.7))
                rng = EnumRNG()
                if wiring == "run":
                    kern = prun.setup_kernel(0.2, "semi-adapted", rng, td)
                else:
                    kern = c08.kernel_cls("full")(td, rng, outlier_proposal_prob=0.1, perm_dist=RootPermutationDistribution())
                parent = None
                total = 0.0
                for t in range(1, n + 1):
                    tree_t = absstate.build(restrict(key, set(sigma[:t])), data)
                    part = kern.create_particle(0.0, parent, tree_t)
                    total += float(part.log_w)
                    parent = part
                total += float(parent.log_p_one) - float(parent.log_p)
                want = float(td.log_p_one(absstate.build(key, data))) - math.log(rec["count"])
                checked += 1
                if abs(total - want) > 1e-9 * (1 + abs(want)):
                    ck.violation("C01|wiring=%s|weight_target" % wiring,
                                 "SMC weights along the retained path of %s under order %s telescope to %.12g, but log_p_one - log #orders = %.12g" % (
                                     absstate.key_str(key), list(sigma), total, want),
                                 {"state": absstate.to_json(key), "sigma": list(sigma), "wiring": wiring, "tables": tab.tolist()})
        ck.nontrivial("target:" + absstate.key_str(key))
    ck.evaluations += checked
    ck.extra["weight_target_identities_checked_n%d" % n] = checked


def run(corrupt=None):
    ck = Check("C01")
    env.use_repo()
    seed = 1 + ck.seed
    model_runs(ck, ck.tier == "thorough", seed)
    table, r = get_table(seed)
    cfgs = configs_for(ck.tier)
    run_configs(ck, cfgs, table, corrupt=corrupt)
    target_identity(ck, 4, ck.seed)
    # "as the run command wires the sampler up": run()'s option handling up to the arguments of the chain
    from .. import lossprob
    lossprob.model_runs(ck, False, prefix="c01_")
    lossprob.bind(ck, "C01", 24, (0,), ck.seed, want_spec=False, want_order=False, want_terms=False, want_wiring=True)
    # mechanism level (diagnostic for this property): swarms of real updates must be behaviours of PGibbsSM
    from .. import pgtrace
    total, unmatched, violated = pgtrace.mechanism_check(ck, "C01", ck.tier == "thorough", 1 + ck.seed)
    for tr in unmatched[:3]:
        ck.model_drift("recorded conditional-SMC swarms are not a behaviour of PGibbsSM (start %s, events %s)" % (json.dumps(tr["s0"]), [e["ev"] for e in tr["events"]]))
    for v in violated:
        ck.model_drift("PGibbsSM invariant %s violated on a recorded update (judged by C07)" % v)
    ck.extra["swarm_traces_recorded"] = total
    ck.rule = ("exact kernel (all RNG outcomes) from every start forest for each configuration (n, proposal, wiring, outliers, "
               "particles, resampling threshold, density table / real density+alpha); non-trivial = configurations with > 1 start state")
    ck.assumptions = ["EnumRNG mirrors numpy Generator semantics (multinomial last-category remainder, shuffle, choice, integers)",
                      "F_p decisions use primes 46337/46327: one-sided error ~2^-15 per prime, no false alarms",
                      "n >= 4 not enumerated end-to-end (path explosion); n-dependent ingredients are covered by C08/C09"]
    if corrupt:
        return ck
    return ck.finish()


def selftest():
    ck = run(corrupt="pi")
    if not ck.violations:
        print("SELFTEST FAILED: perturbed target density not detected")
        return 1
    print("selftest: perturbed target detected (%d rejections)" % len(ck.violations))
    return 0


def replay(path):
    body = json.load(open(path))
    env.use_repo()
    ck = Check("C01")
    table, _ = get_table(1 + body.get("seed", 0))
    run_configs(ck, [body["replay"]["config"]], table, which=body["replay"].get("which", "tree"))
    for v in ck.violations:
        print("REPLAY:", v["signature"], v["message"])
    return 1 if ck.violations else 0
