"""C14 - memoised recursion and proposal results equal unmemoised computation.

M: Cache.tla - the four memo tables with their real key functions (multiset of content digests; set of two digests;
   proposal key incl. alpha; new-clone-tree key incl. the tree distribution by value), arbitrary call histories,
   alpha changes, clears and evictions; HitEqualsRecompute holds with the keys as implemented (with or without the
   run-loop clearing protocol) and with the protocol alone; keying compute_log_S by the SET of digests, or dropping
   alpha from the keys without the protocol, is refuted.
O: shadow execution - every call of the cached entry points (compute_log_S, _convolve_two_children, the semi/fully
   adapted proposal caches, get_cached_new_tree) during (a) seeded chains with concentration updates, all proposals,
   outliers on/off, (b) adversarial histories built from the spec (permuted and duplicated child arrays, alpha
   alternating on a reused kernel WITHOUT clears, repeated parents) is followed by a call of the wrapped original on
   the same arguments; results must agree (arrays 1e-9; distributions: same support and log-probabilities; cached
   new tree: same tree and densities).
"""
import json
import math

import numpy as np

from .. import env, tlc, absstate, chainlib
from ..evidence import Check


def cache_consts(setkey=False, keyalpha=True, proto=True, weak=False, handed=False, stateful=False, three=False):
    return {"Arr": ("{1, 2, 3}" if three else "{1, 2}"), "Alphas": ("{1}" if three else "{1, 2}"), "Parents": "{1}", "Points": "{1}", "MaxKids": (3 if three else 2), "WeakDigest": tlc.tla_bool(weak),
            "HandedDigests": tlc.tla_bool(handed), "StatefulValue": tlc.tla_bool(stateful),
            "LogSKeyIsSet": tlc.tla_bool(setkey), "KeyHasAlpha": tlc.tla_bool(keyalpha), "Protocol": tlc.tla_bool(proto)}


def model_runs(ck):
    cases = [("Cache as implemented, run-loop protocol", (False, True, True), "pass"),
             ("Cache as implemented, arbitrary histories (no protocol)", (False, True, False), "pass"),
             ("Cache keys without alpha but with the clearing protocol", (False, False, True), "pass"),
             ("DEV compute_log_S keyed by the set of digests", (True, True, True), "fail"),
             ("DEV keys without alpha and no clearing protocol", (False, False, False), "fail"),
             ("DEV content digests that collide on the arrays of a run", (False, True, True, True), "fail"),
             ("DEV a proposal object is changed by drawing from it (a hit hands out a worn object)", (False, True, True, False, False, True), "fail"),
             ("Cache as implemented, three children (caches of <= 3 entries)", (False, True, True, False, False, False, True), "pass"),
             ("DEV sorted digests handed to the pair memo for arrays in call order (three children)", (False, True, True, False, True, False, True), "fail")]
    jobs = [dict(job="c14_%d" % i, module="Cache", workers=4, timeout=1500,
                 cfg=tlc.cfg_text(constants=cache_consts(*a), invariants=["HitEqualsRecompute", "OneEntryPerKey"], constraint=("SmallCache" if len(a) > 6 and a[6] else None)))
            for i, (_, a, _) in enumerate(cases)]
    for (label, _, expect), r in zip(cases, tlc.run_many(jobs, max_parallel=3)):
        ck.add_tlc(label, r, must_fail=(expect == "fail"))
        if expect == "fail":
            if "HitEqualsRecompute" not in r.violated:
                raise tlc.TLCError("deviation not refuted: %s %s" % (label, r.summary()))
        else:
            tlc.require_ok(r, label)


class Shadow:
    """Wraps the cached entry points; after each cached call, recomputes with the wrapped original and compares."""

    def __init__(self, ck):
        self.ck = ck
        self.calls = {}
        self.hits = {}
        self.saved = []
        self.worst = 0.0
        self.ctx = ""
        self.events = []          # cache event stream for TraceCache.tla
        self.ids = {}
        self.last_alpha = None

    def _id(self, kind, obj_bytes):
        import hashlib
        d = (kind, hashlib.sha1(obj_bytes).hexdigest())
        if d not in self.ids:
            self.ids[d] = len(self.ids) + 1
        return self.ids[d]

    def _count(self, name, fn, before, spec_fn=None, args=None, alpha=None):
        self.calls[name] = self.calls.get(name, 0) + 1
        hit = False
        try:
            hit = fn.cache_info().hits > before
            if hit:
                self.hits[name] = self.hits.get(name, 0) + 1
        except Exception:
            pass
        if spec_fn is not None and len(self.events) < 60000:
            if alpha is not None and alpha != self.last_alpha:
                self.events.append({"ev": "alpha", "alpha": self._id("alpha", repr(float(alpha)).encode())})
                self.last_alpha = alpha
            self.events.append({"ev": "call", "fn": spec_fn, "args": args, "hit": bool(hit)})

    def _viol(self, name, msg, rep):
        self.ck.violation("C14|%s" % name, "%s [%s]" % (msg, self.ctx), rep)

    def _cmp_arr(self, name, a, b, rep):
        a, b = np.asarray(a, dtype=float), np.asarray(b, dtype=float)
        if a.shape != b.shape:
            self._viol(name, "memoised result has shape %s, recomputation %s" % (a.shape, b.shape), rep)
            return
        with np.errstate(invalid="ignore"):
            dev = float(np.max(np.abs(a - b))) if a.size else 0.0
        if not (dev <= 1e-9 * (1 + float(np.max(np.abs(b))) if b.size else 1)):
            self._viol(name, "memoised result differs from recomputation by %.3g" % dev, rep)
        self.worst = max(self.worst, dev if math.isfinite(dev) else 1e9)

    def install(self):
        import phyclone.tree.utils as tu
        import phyclone.tree.tree_node as tn
        import phyclone.smc.kernels.semi_adapted as sa
        import phyclone.smc.kernels.fully_adapted as fa
        sh = self

        def wrap_logS(orig):
            raw = orig.__wrapped__

            def f(child_log_R_values, *a, **k):
                before = orig.cache_info().hits
                v = orig(child_log_R_values, *a, **k)
                sh._count("compute_log_S", orig, before, "logS", [sh._id("arr", np.ascontiguousarray(x).tobytes()) for x in child_log_R_values])
                arrs = np.array([np.array(x, copy=True) for x in child_log_R_values], order="C")
                try:
                    v2 = raw(arrs, *a, **k) if len(child_log_R_values) else 0.0
                except TypeError:
                    # extra arguments that only the memo wrapper consumes (e.g. precomputed key material)
                    v2 = raw(arrs) if len(child_log_R_values) else 0.0
                sh._cmp_arr("compute_log_S", v, v2, {"n_children": len(child_log_R_values)})
                return v
            f.cache_info, f.cache_clear, f.__wrapped__ = orig.cache_info, orig.cache_clear, raw
            return f

        def wrap_conv(orig):
            raw = orig.__wrapped__

            def f(c1, c2, *a, **k):
                before = orig.cache_info().hits
                v = orig(c1, c2, *a, **k)
                sh._count("_convolve_two_children", orig, before, "conv2", [sh._id("arr", np.ascontiguousarray(c1).tobytes()), sh._id("arr", np.ascontiguousarray(c2).tobytes())])
                try:
                    v2 = raw(np.array(c1, copy=True), np.array(c2, copy=True), *a, **k)
                except TypeError:
                    # extra arguments that only the memo wrapper consumes (e.g. precomputed key material)
                    v2 = raw(np.array(c1, copy=True), np.array(c2, copy=True))
                sh._cmp_arr("_convolve_two_children", v, v2, {})
                return v
            f.cache_info, f.cache_clear, f.__wrapped__ = orig.cache_info, orig.cache_clear, raw
            return f

        def dist_table(d):
            out = {}
            for th, lp in d._log_p.items():
                out[absstate.canon(absstate.to_json(absstate.quick_key(th.tree)))] = float(lp)
            return out

        def wrap_prop(orig, name):
            raw = orig.__wrapped__

            def f(data_point, kernel, parent_particle, outlier_proposal_prob, alpha):
                before = orig.cache_info().hits
                v = orig(data_point, kernel, parent_particle, outlier_proposal_prob, alpha)
                import pickle as _pk
                pid_ = 0 if parent_particle is None else sh._id("parent", _pk.dumps((sorted(map(str, parent_particle._tree._tree["node_data"].keys())), absstate.to_json(absstate.quick_key(parent_particle.tree)), parent_particle._tree._tree["graph"])))
                sh._count(name, orig, before, "prop", [pid_, sh._id("point", repr((name, id(kernel), data_point.name, outlier_proposal_prob)).encode())], alpha)
                if parent_particle is not None:
                    parent_particle.built_tree = None   # restore the state the original consumes (deque pop)
                v2 = raw(data_point, kernel, parent_particle, outlier_proposal_prob, alpha)
                try:
                    t1, t2 = dist_table(v), dist_table(v2)
                except AttributeError:
                    sh.ck.note("proposal distribution has no _log_p table any more: shadow comparison of %s skipped" % name)
                    return v
                rep = {"alpha": alpha, "data_point": data_point.idx, "memoised": {absstate.key_str(k): x for k, x in t1.items()},
                       "recomputed": {absstate.key_str(k): x for k, x in t2.items()}}
                if set(t1) != set(t2):
                    sh._viol(name, "memoised proposal has a different support than recomputation", rep)
                else:
                    dev = max([abs(t1[k] - t2[k]) for k in t1] + [0.0])
                    sh.worst = max(sh.worst, dev)
                    if dev > 1e-9:
                        sh._viol(name, "memoised proposal probabilities differ from recomputation by %.3g (alpha now %s)" % (dev, alpha), rep)
                return v
            f.cache_info, f.cache_clear, f.__wrapped__ = orig.cache_info, orig.cache_clear, raw
            return f

        def wrap_newtree(orig):
            raw = orig.__wrapped__

            def f(parent_particle, data_point, children, tree_dist, perm_dist):
                before = orig.cache_info().hits
                v = orig(parent_particle, data_point, children, tree_dist, perm_dist)
                import pickle as _pk
                pid_ = sh._id("parent", _pk.dumps((sorted(map(str, parent_particle._tree._tree["node_data"].keys())), absstate.to_json(absstate.quick_key(parent_particle.tree)), parent_particle._tree._tree["graph"])))
                sh._count("get_cached_new_tree", orig, before, "newtree", [pid_, sh._id("point", repr(("nt", data_point.name, sorted(int(c) for c in children), id(perm_dist))).encode())], tree_dist.prior.alpha)
                v2 = raw(parent_particle, data_point, children, tree_dist, perm_dist)
                k1, k2 = absstate.quick_key(v.tree), absstate.quick_key(v2.tree)
                rep = {"alpha_now": float(tree_dist.prior.alpha), "memoised": [absstate.key_str(k1), float(v.log_p), float(v.log_p_one), float(v.log_pdf)],
                       "recomputed": [absstate.key_str(k2), float(v2.log_p), float(v2.log_p_one), float(v2.log_pdf)]}
                if k1 != k2:
                    sh._viol("get_cached_new_tree", "memoised new-clone tree differs from recomputation", rep)
                else:
                    dev = max(abs(float(v.log_p) - float(v2.log_p)), abs(float(v.log_p_one) - float(v2.log_p_one)), abs(float(v.log_pdf) - float(v2.log_pdf)))
                    sh.worst = max(sh.worst, dev)
                    if dev > 1e-9:
                        sh._viol("get_cached_new_tree", "memoised new-clone tree carries densities that differ from recomputation by %.3g (alpha now %s)" % (
                            dev, tree_dist.prior.alpha), rep)
                return v
            f.cache_info, f.cache_clear, f.__wrapped__ = orig.cache_info, orig.cache_clear, raw
            return f

        import phyclone.utils.dev as dev
        import phyclone.run as prun
        orig_clear = dev.clear_proposal_dist_caches

        def clear_proposal_dist_caches():
            orig_clear()
            if len(sh.events) < 60000:
                sh.events.append({"ev": "clear"})

        for mod in (dev, prun):
            if hasattr(mod, "clear_proposal_dist_caches"):
                self.saved.append((mod, "clear_proposal_dist_caches", getattr(mod, "clear_proposal_dist_caches")))
                setattr(mod, "clear_proposal_dist_caches", clear_proposal_dist_caches)
        w_logS = wrap_logS(tu.compute_log_S)
        w_conv = wrap_conv(tu._convolve_two_children)
        w_semi = wrap_prop(sa._get_cached_semi_proposal_dist, "_get_cached_semi_proposal_dist")
        w_full = wrap_prop(fa._get_cached_full_proposal_dist, "_get_cached_full_proposal_dist")
        w_new = wrap_newtree(sa.get_cached_new_tree)
        for mod, attr, new in ((tu, "compute_log_S", w_logS), (tn, "compute_log_S", w_logS), (tu, "_convolve_two_children", w_conv),
                               (sa, "_get_cached_semi_proposal_dist", w_semi), (fa, "_get_cached_full_proposal_dist", w_full),
                               (sa, "get_cached_new_tree", w_new), (dev, "_get_cached_semi_proposal_dist", w_semi),
                               (dev, "_get_cached_full_proposal_dist", w_full), (dev, "get_cached_new_tree", w_new),
                               (dev, "compute_log_S", w_logS), (dev, "_convolve_two_children", w_conv)):
            if hasattr(mod, attr):
                self.saved.append((mod, attr, getattr(mod, attr)))
                setattr(mod, attr, new)
            else:
                self.ck.note("attachment point %s.%s no longer exists: reduced shadow coverage" % (mod.__name__, attr))

    def uninstall(self):
        for mod, attr, old in reversed(self.saved):
            setattr(mod, attr, old)
        self.saved = []


def adversarial_arrays(sh, seed):
    """Histories for the array caches taken from the model: permutations, duplicates, growing multiplicities."""
    import phyclone.tree.utils as tu
    rs = np.random.RandomState(seed)
    A, B, C = [np.ascontiguousarray(np.log(rs.randint(1, 9, size=(2, 6)).astype(float))) for _ in range(3)]
    A2 = A.copy()
    seqs = [[A], [A, A2], [A, A2, A.copy()], [A, B], [B, A], [A, B, C], [C, A, B], [B, C, A], [A, A2, B], [B, A, A2], [A], [A, A2], [B, B.copy()], [A, B]]
    for s in seqs:
        sh.ctx = "adversarial arrays %d children" % len(s)
        tu.compute_log_S([x for x in s])
    for x, y in [(A, B), (B, A), (A, A2), (A, B), (C, C.copy()), (A, C)]:
        sh.ctx = "adversarial conv"
        tu._convolve_two_children(x, y)


def adversarial_alpha(sh, seed, thorough):
    """A reused kernel and tree distribution whose alpha alternates WITHOUT any cache clear in between."""
    from phyclone.tree import FSCRPDistribution, TreeJointDistribution
    from phyclone.smc.kernels import SemiAdaptedKernel, FullyAdaptedKernel
    from phyclone.smc.swarm import Particle
    from phyclone.smc.utils import RootPermutationDistribution
    from ..enumrng import EnumRNG, enumerate_paths
    from .. import gridoracle

    n = 4
    tab = gridoracle.int_tables(n, 1, 5, seed, dup=[(0, 1)])
    data = gridoracle.data_from_tables(tab, outlier_prob=0.2)
    parents = [absstate.canon(x) for x in ({"f": [[0]], "o": []}, {"f": [[0], [1]], "o": []}, {"f": [[0, 1], [0]], "o": [2]}, {"f": [], "o": [0]},
                                            {"f": [[0], [1], [2]], "o": []})]
    for Kcls in (SemiAdaptedKernel, FullyAdaptedKernel):
        for perm in (None, RootPermutationDistribution()):
            td = TreeJointDistribution(FSCRPDistribution(1.0))
            rng = EnumRNG()
            kern = Kcls(td, rng, outlier_proposal_prob=0.1, perm_dist=perm)
            for alpha in ((1.0, 2.5, 1.0, 0.3, 2.5) if thorough else (1.0, 2.5, 1.0)):
                td.prior.alpha = alpha
                from . import c02
                for pk, variant in [(None, 0)] + [(pk_, v_) for pk_ in parents for v_ in (0, 1)]:
                    if pk is None:       # first step of an SMC pass: no parent particle
                        ptree, ppart, d = None, None, 0
                    else:
                        # variant 1: the same clones created in another order, so that they carry other labels
                        ptree = absstate.build(pk, data)
                        if variant == 1:
                            flat = all(len(c) == 1 for c in pk[0]) and len(pk[0]) >= 2 and not pk[1]
                            if not flat:
                                continue
                            from phyclone.tree import Tree as _T
                            ptree = _T(data[0].grid_size)
                            for c in sorted(pk[0], key=sorted, reverse=True):      # clones created in the opposite order: labels swapped
                                ptree.create_root_node(children=[], data=[data[min(c)]])
                        ppart = Particle(0, None, ptree, td, perm)
                        d = max(absstate.data_ids(pk)) + 1
                    sh.ctx = "reused %s, alpha set to %s without a clear, parent %s" % (Kcls.__name__, alpha, "none" if pk is None else absstate.key_str(pk))
                    pd = kern.get_proposal_distribution(data[d], ppart, ptree)
                    drawn = []
                    for t, p, _ in enumerate_paths(lambda: pd.sample(), rng):
                        pd.log_p(t)
                        try:
                            drawn.append((round(p, 12), absstate.quick_key(t.tree)))
                        except AttributeError:
                            drawn = None
                        # whatever memo produced this candidate: the densities it carries must be those of its tree under
                        # the concentration value that is current NOW
                        try:
                            tr_ = t.tree
                            pairs = (("log_p", float(t.log_p), float(td.log_p(tr_))), ("log_p_one", float(t.log_p_one), float(td.log_p_one(tr_))))
                        except AttributeError:
                            pairs = ()
                        for nm_, got_, want_ in pairs:
                            if abs(got_ - want_) > 1e-9 * (1 + abs(want_)):
                                sh._viol("candidate_density", "a proposed tree carries %s = %.12g; its density under the current concentration value %s is %.12g" % (nm_, got_, alpha, want_),
                                         {"alpha": alpha, "kernel": Kcls.__name__, "parent": None if pk is None else absstate.to_json(pk)})
                                break
                    if variant == 1 and drawn is not None:
                        # the label-swapped twin was served after its sibling without a clear: the SAME random outcomes must give
                        # the same trees as with cold proposal caches ("caching never changes a tree")
                        from phyclone.utils.dev import clear_proposal_dist_caches
                        clear_proposal_dist_caches()
                        pd2 = kern.get_proposal_distribution(data[d], ppart, ptree)
                        cold = [(round(p, 12), absstate.quick_key(t.tree)) for t, p, _ in enumerate_paths(lambda: pd2.sample(), rng)]
                        if cold != drawn:
                            k_ = next((i for i, (a_, b_) in enumerate(zip(drawn, cold)) if a_ != b_), min(len(drawn), len(cold)))
                            sh._viol("same_draw_other_tree", "with warm proposal caches random outcome #%d of sample() gives %s, with cold caches %s (parent with clones created in the opposite order, served after its twin)" % (
                                k_, absstate.key_str(drawn[k_][1]) if k_ < len(drawn) else None, absstate.key_str(cold[k_][1]) if k_ < len(cold) else None),
                                {"alpha": alpha, "kernel": Kcls.__name__, "parent": absstate.to_json(pk)})


def validate_cache_trace(ck, sh, corrupt=None):
    """The recorded cache event stream must be explainable by Cache.tla's key functions (TraceCache.tla)."""
    import os
    ev = [e for e in sh.events]
    if not ev:
        ck.note("no cache events recorded")
        return
    first_alpha = next((e["alpha"] for e in ev if e["ev"] == "alpha"), 1)
    ev = [{"ev": "start", "alpha": first_alpha}] + ev
    ev = ev[:20000]
    if corrupt == "hit":
        for e in ev:
            if e["ev"] == "call" and e["fn"] == "logS" and not e["hit"]:
                e["hit"] = True
                break
    d = env.scratch(os.path.join("tlc", "c14_trace"))
    path = os.path.join(d, "events.json")
    with open(path, "w") as fh:
        json.dump(ev, fh)
    c = cache_consts(False, True, False)
    cfg = tlc.cfg_text(constants=c, init="TraceInit", next_="TraceNext", invariants=["HitEqualsRecompute", "Consumed"])
    r = tlc.run_tlc("c14_trace", "TraceCache", cfg, workers=1, timeout=3000, environ={"TRACE_FILE": path},
                    java_opts=["-Dtlc2.tool.queue.IStateQueue=StateDeque"])
    if r.errors or r.timed_out:
        raise tlc.TLCError("TraceCache failed: %s\n%s" % (r.summary(), r.out[-1500:]))
    ck.add_tlc("TraceCache: %d recorded cache events (calls with hit/miss, clears, alpha changes)" % (len(ev) - 1), r)
    done = any(ln.startswith('<<"MATCHED"') for ln in r.tuple_prints)
    if "HitEqualsRecompute" in r.violated:
        ck.violation("C14|trace|stale_hit", "a recorded cache hit returns a value the specification says is stale (HitEqualsRecompute violated on the recorded event stream)", {"tlc": r.out[-1200:]})
    elif not done:
        k = r.distinct  # number of states reached = events consumed + 1
        bad = ev[min(len(ev) - 1, max(1, k))]
        if corrupt == "hit" or bad.get("hit"):
            ck.violation("C14|trace|unexplained_hit", "event %d of the recorded stream is a cache hit the key functions of Cache.tla cannot explain: %s" % (k, json.dumps(bad)), {"event_index": k, "event": bad})
        else:
            raise tlc.TLCError("trace rejected at a non-hit event %d: %s" % (k, json.dumps(bad)))
    else:
        ck.traces_validated += 1
        ck.extra["cache_events_validated"] = len(ev) - 1


def adversarial_mutation(sh, seed):
    """Trees obtained from memoised values are edited in place (as the subtree sampler edits the tree it is given), then the
    same memoised calls are repeated: a later hit must still equal recomputation, i.e. cached values must not share mutable
    state with the trees handed out."""
    from phyclone.tree import FSCRPDistribution, TreeJointDistribution
    from phyclone.smc.kernels import SemiAdaptedKernel, FullyAdaptedKernel
    from phyclone.smc.swarm import Particle
    from phyclone.smc.utils import RootPermutationDistribution
    from ..enumrng import EnumRNG, enumerate_paths
    from .. import gridoracle

    n = 4
    data = gridoracle.data_from_tables(gridoracle.int_tables(n, 1, 5, seed + 2), outlier_prob=0.2)
    perm = RootPermutationDistribution()
    for Kcls in (SemiAdaptedKernel, FullyAdaptedKernel):
        td = TreeJointDistribution(FSCRPDistribution(1.0))
        rng = EnumRNG()
        kern = Kcls(td, rng, outlier_proposal_prob=0.1, perm_dist=perm)
        for pk in (absstate.canon({"f": [[0]], "o": [1]}), absstate.canon({"f": [[0], [2]], "o": [1]}), absstate.canon({"f": [], "o": [0, 1]})):
            d = max(absstate.data_ids(pk)) + 1
            for rnd in range(2):
                ptree = absstate.build(pk, data)
                ppart = Particle(0, None, ptree, td, perm)
                sh.ctx = "in-place edits of trees handed out by %s proposals, round %d, parent %s" % (Kcls.__name__, rnd, absstate.key_str(pk))
                pd = kern.get_proposal_distribution(data[d], ppart, ptree)
                outs = [t for t, p, _ in enumerate_paths(lambda: pd.sample(), rng)]
                for holder in outs:
                    t = holder.tree
                    # edit the handed-out tree through the public API, the way the subtree / data-point samplers do
                    for dp in t.outliers:
                        t.remove_data_point_from_outliers(dp)
                    nodes = t.nodes
                    if nodes:
                        for dp in list(t.get_data(nodes[0]))[:1]:
                            if t.get_data_len(nodes[0]) > 1:
                                t.remove_data_point_from_node(dp, nodes[0])


def library_driving(sh, seed, thorough):
    """The samplers driven as a library (as the repository's tests do): whole-tree, subtree and data-point moves on the
    returned tree objects, outlier modelling on, and NO cache clear between sweeps."""
    import numpy as np
    from phyclone.tree import FSCRPDistribution, TreeJointDistribution, Tree
    from phyclone.smc.kernels import SemiAdaptedKernel, FullyAdaptedKernel
    from phyclone.smc.utils import RootPermutationDistribution
    from phyclone.mcmc.particle_gibbs import ParticleGibbsTreeSampler, ParticleGibbsSubtreeSampler
    from phyclone.mcmc.gibbs_mh import DataPointSampler, PruneRegraphSampler

    for ki, Kcls in enumerate((SemiAdaptedKernel, FullyAdaptedKernel)):
        data = chainlib.make_data(5, 2, 7, seed + ki, 0.3)
        rng = np.random.default_rng(seed + 31 * ki)
        td = TreeJointDistribution(FSCRPDistribution(1.0))
        kern = Kcls(td, rng, outlier_proposal_prob=0.1, perm_dist=RootPermutationDistribution())
        pg = ParticleGibbsTreeSampler(kern, rng, num_particles=5, resample_threshold=0.5)
        sub = ParticleGibbsSubtreeSampler(kern, rng, num_particles=5, resample_threshold=0.5)
        dp = DataPointSampler(td, rng, outliers=True)
        prg = PruneRegraphSampler(td, rng)
        tree = Tree.get_single_node_tree(data)
        for it in range(60 if thorough else 25):
            sh.ctx = "library driving %s, sweep %d (no cache clear)" % (Kcls.__name__, it)
            tree = pg.sample_tree(tree)
            tree = sub.sample_tree(tree)
            tree = dp.sample_tree(tree)
            tree = prg.sample_tree(tree)
            if it % 7 == 3:
                td.prior.alpha = 0.5 + (it % 5) * 0.4


def edit_histories(sh, seed, thorough):
    """Histories of the Tree edit grammar (TreeADT.tla's actions, in-place random walks incl. extracting / removing /
    re-attaching subtrees so that inner clones become leaves and back) and the prune-regraft / subtree samplers started
    from chain-shaped trees - every memoised call made along the way is shadow-compared."""
    import numpy as np
    from .. import treeadt, gridoracle
    from phyclone.tree import FSCRPDistribution, TreeJointDistribution
    from phyclone.mcmc.gibbs_mh import PruneRegraphSampler

    n = 4
    data = gridoracle.data_from_tables(gridoracle.int_tables(n, 2, 5, seed + 3), outlier_prob=0.2)
    rs = np.random.RandomState(seed + 41)
    td = TreeJointDistribution(FSCRPDistribution(1.3))
    for w in range(60 if thorough else 25):
        sh.ctx = "edit-grammar walk %d" % w
        treeadt.walk(data, list(range(n)), 50, rs, td)
    # chains top -> mid -> leaf (-> leaf2): pruning the lowest clone turns its parent into a leaf
    data6 = gridoracle.data_from_tables(gridoracle.int_tables(6, 2, 5, seed + 4), outlier_prob=0.0)
    for shape in ([[0, 1, 2, 3], [2, 3], [3]], [[0, 1, 2, 3, 4, 5], [2, 3, 4, 5], [4, 5], [5]], [[0, 1, 2], [1, 2], [2], [3, 4, 5], [4, 5]]):
        key = absstate.canon({"f": shape, "o": []})
        sub = [dp for dp in data6 if dp.idx in absstate.data_ids(key)]
        for rep_ in range(12 if thorough else 6):
            rng = np.random.default_rng(seed + 100 * rep_ + len(shape))
            prg = PruneRegraphSampler(td, rng)
            t = absstate.build(key, sub)
            sh.ctx = "prune-regraft sampler on the chain %s, repetition %d" % (absstate.key_str(key), rep_)
            for _ in range(4):
                t = prg.sample_tree(t)


def eviction_part(sh, seed, ntrees):
    """Enough different sibling pairs in one process to push the pairwise-convolution memo table (1024 entries) and
    the children-convolution table through many LRU evictions: random forests on 30 data points built bottom-up, every
    memoised call shadow-compared."""
    import numpy as np
    from .. import gridoracle
    n = 30
    data = gridoracle.data_from_tables(gridoracle.int_tables(n, 1, 5, seed + 21, lo=1, hi=40))
    rs = np.random.RandomState(seed + 59)
    for t_ in range(ntrees):
        parent = [-1] + [int(rs.randint(-1, i)) if rs.rand() < 0.7 else -1 for i in range(1, n)]
        desc = {i: {i} for i in range(n)}
        for i in reversed(range(n)):
            if parent[i] >= 0:
                desc[parent[i]] |= desc[i]
        key = absstate.canon({"f": [sorted(v) for v in desc.values()], "o": []})
        sh.ctx = "random forest #%d on %d data points (memo tables past their capacity)" % (t_, n)
        tree = absstate.build(key, data)
        tree.data_log_likelihood


def warm_proposal_law(ck):
    """A memoised proposal object is handed out again on a cache hit: the LAW of a draw from it must not depend on the
    draws made from it before.  For parents with 3-4 top-level clones every outcome of two successive draws (the second
    through a second, memoised, look-up) is enumerated; the conditional law of the second draw given the first must
    equal the law of a draw from a cold object (which C08 binds to Proposal.tla)."""
    from .c08 import kernel_cls, clear_caches, obj_key
    from ..enumrng import EnumRNG, enumerate_paths
    from phyclone.smc.swarm import Particle
    from phyclone.smc.utils import RootPermutationDistribution
    from phyclone.tree import FSCRPDistribution, TreeJointDistribution
    data = absstate.make_data(5, kind="int", grid=4, seed=4 + ck.seed, outlier_prob=0.2)
    td = TreeJointDistribution(FSCRPDistribution(1.3))
    perm = RootPermutationDistribution()
    nev = 0
    for kname in ("semi", "full", "boot"):
        for fam in ([[0], [1], [2]], [[0], [1], [2], [3]], [[0, 1], [1], [2], [3]]):
            pkey = absstate.canon({"f": fam, "o": []})
            d = len(absstate.data_ids(pkey))
            rng = EnumRNG()

            def go(ndraws):
                clear_caches()
                kern = kernel_cls(kname)(td, rng, outlier_proposal_prob=0.1, perm_dist=perm)
                ppart = Particle(0, None, absstate.build(pkey, data), td, perm)
                outs = []
                for _ in range(ndraws):
                    pd = kern.get_proposal_distribution(data[d], ppart)
                    outs.append(obj_key(pd.sample()))
                return tuple(outs)

            try:
                cold = {}
                for res, p, _ in enumerate_paths(lambda: go(1), rng):
                    cold[res[0]] = cold.get(res[0], 0.0) + p
                joint, first = {}, {}
                for res, p, _ in enumerate_paths(lambda: go(2), rng):
                    joint[res] = joint.get(res, 0.0) + p
                    first[res[0]] = first.get(res[0], 0.0) + p
            except Exception as ex:  # noqa
                import traceback
                if not any("/phyclone/" in f.filename for f in traceback.extract_tb(ex.__traceback__)):
                    raise
                ck.violation("C14|warm_proposal|exception", "drawing twice from the memoised %s proposal of parent %s raised %s: %s" % (kname, absstate.key_str(pkey), type(ex).__name__, ex), {"kernel": kname, "parent": absstate.to_json(pkey)})
                continue
            nev += len(joint)
            worst = None
            for w, pw in first.items():
                for x, px in cold.items():
                    dev = abs(joint.get((w, x), 0.0) / pw - px)
                    if dev > 1e-9 and (worst is None or dev > worst[0]):
                        worst = (dev, w, x, joint.get((w, x), 0.0) / pw, px)
            if worst:
                ck.violation("C14|warm_proposal|law|%s" % kname, "the memoised %s proposal of parent %s + data point %d: after a first draw gave %s, a draw from the object handed out on the cache hit returns %s with probability %.6g; "
                             "a cold object returns it with probability %.6g" % (kname, absstate.key_str(pkey), d, absstate.key_str(worst[1]), absstate.key_str(worst[2]), worst[3], worst[4]),
                             {"kernel": kname, "parent": absstate.to_json(pkey), "d": d})
            ck.nontrivial("warm_proposal:%s:%s" % (kname, absstate.key_str(pkey)))
    ck.evaluations += nev
    ck.extra["warm_proposal_joint_outcomes"] = nev


def key_collisions(ck, n_arrays):
    """Different arguments must not share a memo key: the real key objects of the two convolution memo tables are
    built for n_arrays different likelihood grids (as many as a long run on a large input produces) and compared.  With
    the 64-bit content digests no two agree (chance ~1e-9); a collision is then demonstrated on the real cache: the
    second array receives the first one's result."""
    import numpy as np
    from phyclone.utils.utils import NumpyArrayListHasher, NumpyTwoArraysHasher
    from phyclone.tree.utils import compute_log_S

    rs = np.random.RandomState(4242)
    base = np.log(rs.randint(1, 50, size=(n_arrays, 1, 6)).astype(float))
    base[:, 0, 0] += np.arange(n_arrays) * 1e-3          # all different
    seen = {}
    pair0 = np.zeros((1, 6))
    hit = None
    for i in range(n_arrays):
        a = np.ascontiguousarray(base[i])
        try:
            k1 = NumpyArrayListHasher([a])
            k2 = NumpyTwoArraysHasher(a, pair0)
        except Exception:  # noqa - the key classes changed shape: nothing to compare here
            ck.note("the memo key classes are no longer constructible as NumpyArrayListHasher(list) / NumpyTwoArraysHasher(a, b): key collisions not searched")
            return
        for tag, k in (("list", k1), ("pair", k2)):
            kk = (tag, hash(k), repr(k.h))
            j = seen.get(kk)
            if j is not None and hit is None:
                hit = (tag, j, i)
            seen[kk] = i
        if hit:
            break
    ck.evaluations += n_arrays
    ck.nontrivial("key_collisions")
    if hit:
        tag, j, i = hit
        a, b = np.ascontiguousarray(base[j]), np.ascontiguousarray(base[i])
        compute_log_S.cache_clear()
        ra = np.array(compute_log_S([a]))
        rb = np.array(compute_log_S([b]))
        compute_log_S.cache_clear()
        rb_cold = np.array(compute_log_S([b]))
        dev = float(np.max(np.abs(rb - rb_cold)))
        ck.violation("C14|key_collision|%s" % tag, "two different likelihood grids (#%d and #%d of %d) share a memo key of the %s table; after the first was computed the second receives a result that differs by %.3g from its own" % (
            j, i, n_arrays, "children-convolution" if tag == "list" else "pairwise-convolution", dev), {"first": base[j].tolist(), "second": base[i].tolist()})


def run(corrupt=None):
    ck = Check("C14")
    env.use_repo()
    thorough = ck.tier == "thorough"
    model_runs(ck)
    key_collisions(ck, 400000 if thorough else 200000)
    warm_proposal_law(ck)
    sh = Shadow(ck)
    sh.install()
    try:
        from phyclone.utils.dev import clear_proposal_dist_caches
        clear_proposal_dist_caches()
        adversarial_arrays(sh, ck.seed)
        adversarial_alpha(sh, ck.seed, thorough)
        adversarial_mutation(sh, ck.seed)
        edit_histories(sh, ck.seed, thorough)
        eviction_part(sh, ck.seed, 400 if thorough else 160)
        try:
            library_driving(sh, ck.seed, thorough)
        except Exception as ex:
            ck.violation("C14|library_driving|exception:%s" % type(ex).__name__, "samplers driven without cache clears raised %s: %s [%s]" % (type(ex).__name__, ex, sh.ctx), {"ctx": sh.ctx})
        k = 0
        for prop in chainlib.PROPOSALS:
            for outl in (0, 0.3):
                for rep_ in range(3 if thorough else 1):
                    k += 1
                    sh.ctx = "chain %s outl=%s" % (prop, outl)
                    res = chainlib.run_one(5, 2, 77 * (1 + ck.seed) + k, dict(proposal=prop, outlier_prob=outl, num_iters=(60 if thorough else 12), burnin=2,
                                                                              num_particles=6, subtree_update_prob=0.3, concentration_update=True), grid=9, want_events=False)
                    if res["error"]:
                        ck.violation("C14|chain|exception", "chain aborted under the shadow wrappers: %s" % res["error"], {"proposal": prop, "outl": outl})
                    ck.traces_validated += 1
                    ck.nontrivial("chain:%s:%s:%d" % (prop, outl, rep_))
    finally:
        sh.uninstall()
    if corrupt == "inject":
        sh._viol("compute_log_S", "injected", {})
    validate_cache_trace(ck, sh, corrupt)
    total = sum(sh.calls.values())
    ck.evaluations += total
    ck.extra["shadowed_calls"] = sh.calls
    ck.extra["cache_hits_seen"] = sh.hits
    ck.extra["worst_abs_difference"] = sh.worst
    for name in ("compute_log_S", "_convolve_two_children", "_get_cached_semi_proposal_dist", "_get_cached_full_proposal_dist", "get_cached_new_tree"):
        if sh.calls.get(name, 0) == 0:
            ck.note("no call of %s was observed (vacuous for that cache)" % name)
        elif sh.hits.get(name, 0) > 0:
            ck.nontrivial("hits:" + name)
    ck.sample({"shadowed_calls": sh.calls, "hits": sh.hits})
    ck.rule = ("every call of the five cached entry points in 6 seeded chains (3 proposals x outliers on/off, concentration updates on) and in "
               "spec-derived adversarial histories (permuted / duplicated child arrays; alpha alternating on a reused kernel without clears); "
               "non-trivial = chains + caches on which real hits were observed")
    ck.assumptions = ["64-bit content-hash collisions are not considered", "argument order can legitimately change rounding: arrays compared at 1e-9 relative"]
    if corrupt:
        return ck
    return ck.finish()


def selftest():
    ck = run(corrupt="inject")
    ok = any(v["signature"] == "C14|compute_log_S" for v in ck.violations)
    print("selftest:", "injected disagreement reported" if ok else "FAILED")
    ck = run(corrupt="hit")
    ok2 = any(v["signature"].startswith("C14|trace|") for v in ck.violations)
    print("selftest:", "a miss rewritten as a hit is rejected by TLC" if ok2 else "FAILED (corrupted event accepted)")
    return 0 if (ok and ok2) else 1


def replay(path):
    body = json.load(open(path))
    print(json.dumps(body["replay"], indent=1)[:2000])
    return 0
