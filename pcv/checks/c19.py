"""C19 - a run on valid input completes and records only finite, complete trees.

M: Chain.tla - the chain driver as a state machine over the cross-product of option records (burn-in, iterations,
   thinning, time limit, concentration update, subtree probability never/maybe/always, numbers of data-point and
   prune-regraft moves): no stuck state before termination (Terminates under weak fairness), TraceProtocol,
   TraceComplete, EntriesCurrent, CacheFresh; the never-clear deviation is refuted.
O: run_phyclone_chain on data sets of 1-3 points x 1-2 samples for the FULL cross-product of CLI boundary values
   (proposal x3, particles {1,2,3}, threshold {0,.5,1}, outlier prob {0,1e-4,.5,1}, subtree prob {0,.5,1}, thin {1,2},
   burn-in {1,2}, time limit {inf,0}, concentration update on/off) with seeded real generators: no exception; every
   entry restores, is well-formed, holds all data, has a finite self-consistent log_p_one.
T: the recorded event stream of every run is validated by TLC against Chain.tla (TraceChain.tla).
"""
import itertools
import json

from .. import env, tlc, kernels, chainlib
from ..evidence import Check

GRID = {
    "proposal": chainlib.PROPOSALS,
    "num_particles": (1, 2, 3),
    "resample_threshold": (0.0, 0.5, 1.0),
    "outlier_prob": (0, 1e-4, 0.5, 1.0),
    "subtree_update_prob": (0.0, 0.5, 1.0),
    "thin": (1, 2),
    "burnin": (1, 2),
    "max_time": (float("inf"), 0),
    "concentration_update": (True, False),
}


def all_options():
    keys = list(GRID)
    for vals in itertools.product(*[GRID[k] for k in keys]):
        yield dict(zip(keys, vals))


def sweep(ck, datasets, options, seeds, label, max_traces=4000, num_iters=3, offset=0.0):
    tasks = []
    for (n, dims) in datasets:
        for oi, o in enumerate(options):
            for s in seeds:
                tasks.append((n, dims, s, oi))

    def task(arg):
        n, dims, s, oi = arg
        o = dict(options[oi], num_iters=num_iters)
        r = chainlib.run_one(n, dims, 1000 * s + oi, o, offset=offset)
        r.pop("results", None)
        r.pop("events", None)
        return r

    if tasks:
        task(tasks[0])  # JIT warm-up before forking
    results = kernels.parallel_map(task, tasks, chunksize=16)
    spec_traces = []
    for (n, dims, s, oi), r in zip(tasks, results):
        ck.evaluations += 1
        o = r["opts"]
        cfg = {k: o[k] for k in GRID}
        tag = "n=%d|dims=%d" % (n, dims)
        if r["error"]:
            ck.violation("C19|exception:%s" % r["error"].split(":")[0] + ("|n=1" if n == 1 else ""),
                         "run aborted with %s [%s %s seed=%d]" % (r["error"], tag, json.dumps(cfg), r["seed"]),
                         {"n": n, "dims": dims, "seed": r["seed"], "options": cfg})
            continue
        for kind, msg in r["problems"]:
            ck.violation("C19|%s" % kind, "%s [%s %s seed=%d]" % (msg, tag, json.dumps(cfg), r["seed"]),
                         {"n": n, "dims": dims, "seed": r["seed"], "options": cfg})
        ck.nontrivial("%s|%s" % (tag, json.dumps(cfg, sort_keys=True)))
        if r["spec_trace"] is not None and len(spec_traces) < max_traces:
            spec_traces.append(r["spec_trace"])
    ck.extra.setdefault("runs", {})[label] = len(tasks)
    return spec_traces


def crafted_runs(ck, thorough):
    """Data whose posterior sits on shapes random small tables rarely reach: (a) one clonal and four well separated
    subclonal mutations (a clone with four children), (b) sharply informative mutations at high, incompatible CCFs (every
    term of their siblings' convolution underflows).  Every proposal, with and without outliers, several seeds."""
    import numpy as np
    from phyclone.data.base import DataPoint

    def peaked(G, peaks, steep, p_out):
        xs = np.arange(G)
        op, opn = (np.log(p_out), np.log1p(-p_out)) if p_out else (0, 0.0)
        return [DataPoint(i, np.ascontiguousarray(np.array([-steep * (xs - pk) ** 2 for pk in row], dtype=float)), outlier_prob=op, outlier_prob_not=opn) for i, row in enumerate(peaks)]

    sets = [("star", 21, [[20], [4], [5], [6], [3]], 3.0), ("steep_siblings", 41, [[40, 38], [32, 30], [28, 31], [30, 12]], 40.0)]
    tasks = [(name, G, peaks, steep, prop, outl, s) for (name, G, peaks, steep) in sets for prop in chainlib.PROPOSALS for outl in (0, 0.2)
             for s in range(4 if thorough else 2)]

    def task(arg):
        name, G, peaks, steep, prop, outl, s = arg
        data = peaked(G, peaks, steep, outl)
        r = chainlib.run_one(len(peaks), len(peaks[0]), 40 + s, dict(proposal=prop, outlier_prob=outl, num_iters=(60 if thorough else 30), burnin=2, num_particles=8,
                                                                    subtree_update_prob=(0.3 if s % 2 else 0.0)), data=data, want_events=False)
        r.pop("results", None)
        return r

    for arg, r in zip(tasks, kernels.parallel_map(task, tasks, chunksize=1)):
        name, G, peaks, steep, prop, outl, s = arg
        ck.evaluations += 1
        tag = "%s data, proposal %s, outlier prob %s, seed %d" % (name, prop, outl, 40 + s)
        if r["error"]:
            ck.violation("C19|crafted|exception:%s|%s" % (r["error"].split(":")[0], name), "run aborted with %s [%s]" % (r["error"], tag), {"data": name, "peaks": peaks, "steep": steep, "grid": G, "proposal": prop, "outlier_prob": outl, "seed": 40 + s})
            continue
        for kind, msg in r["problems"]:
            if kind == "inconsistent_entry" and name == "steep_siblings":
                # these data are outside the underflow window of C02 (convolution terms below 1e-100 of the peak product are
                # floored, the floored value depends on the order the children are combined in): recorded and recomputed
                # densities may differ there - the property asks for completion, well-formed complete trees and finite values
                continue
            ck.violation("C19|crafted|%s|%s" % (kind, name), "%s [%s]" % (msg, tag), {"data": name, "proposal": prop, "outlier_prob": outl, "seed": 40 + s})
        ck.nontrivial("crafted|" + tag)
    ck.extra.setdefault("runs", {})["crafted"] = len(tasks)


def cli_runs(ck, thorough):
    """The same through the real command line (click parsing with its clamped ranges, load_data, run(), the trace file)."""
    import gzip
    import math
    import os
    import pickle
    import shutil
    from click.testing import CliRunner
    from phyclone.cli import main
    from phyclone.tree import Tree
    from .. import absstate
    from . import c18

    d = env.scratch("c19_cli")
    inp = os.path.join(d, "in.tsv")
    c18.write_input(inp, 0)
    combos = [
        ["--num-particles", "0", "--resample-threshold", "1.7", "--outlier-prob", "1.5", "--burnin", "0", "--thin", "0", "-n", "0", "-s", "2", "--grid-size", "5"],
        ["--num-particles", "1", "--resample-threshold", "0", "--outlier-prob", "0.0001", "-n", "4", "-s", "0.5", "--proposal", "bootstrap", "--no-concentration-update", "--grid-size", "11"],
        ["--num-particles", "3", "--resample-threshold", "1", "--outlier-prob", "0.5", "-n", "4", "--thin", "2", "-s", "1", "--proposal", "fully-adapted", "--density", "binomial", "--grid-size", "11"],
        ["--num-particles", "2", "-n", "3", "--max-time", "0", "--burnin", "2", "--proposal", "semi-adapted", "--precision", "1.0", "--grid-size", "12"],
        # a fine grid (FFT convolution from 1000 points) with two samples and clones that get three and more children
        ["--num-particles", "4", "-n", "3", "--burnin", "2", "--proposal", "semi-adapted", "--grid-size", "1000", "--outlier-prob", "0.1"],
        ["--num-particles", "3", "-n", "2", "--burnin", "1", "--proposal", "bootstrap", "--grid-size", "1001", "--density", "binomial", "--concentration-value", "8.0", "--no-concentration-update"],
    ]
    if thorough:
        combos += [["--num-particles", str(p_), "--resample-threshold", str(t_), "--outlier-prob", str(o_), "-n", "3", "--proposal", pr, "--grid-size", "11", "-s", str(sb)]
                   for p_ in (1, 2) for t_ in (0, 1) for o_ in (0, 1) for pr in ("bootstrap", "fully-adapted") for sb in (0, 1)]
    runner = CliRunner()
    for i, extra in enumerate(combos):
        out = os.path.join(d, "out_%d.pkl.gz" % i)
        args = ["run", "-i", inp, "-o", out, "--seed", str(100 + i), "--num-chains", "1", "--print-freq", "100000"] + extra
        if i % 2 == 1:
            args += ["-c", inp + ".clusters.tsv"]       # pre-clustered input (integer cluster ids with gaps, not starting at 0)
        res = runner.invoke(main, args)
        ck.evaluations += 1
        rep = {"argv": args}
        if res.exit_code != 0 or res.exception is not None:
            ck.violation("C19|cli|exception:%s" % type(res.exception).__name__, "`phyclone %s` failed: %r" % (" ".join(args[6:]), res.exception), rep)
            continue
        try:
            with gzip.GzipFile(out, "rb") as fh:
                results = pickle.load(fh)
            n = len(results[0]["data"])
            for j, e in enumerate(results[0]["trace"]):
                key, _ = absstate.project(Tree.from_dict(e["tree"]), full=True)
                if absstate.data_ids(key) != set(range(n)) or not math.isfinite(float(e["log_p_one"])):
                    ck.violation("C19|cli|entry", "entry %d of `phyclone %s` is incomplete or has a non-finite log_p_one" % (j, " ".join(args[6:])), rep)
        except absstate.Inconsistent as ex:
            ck.violation("C19|cli|malformed", "trace entry of `phyclone %s` is malformed: %s" % (" ".join(args[6:]), ex), rep)
        ck.nontrivial("cli:%d" % i)
    shutil.rmtree(d, ignore_errors=True)
    ck.extra["cli_invocations"] = len(combos)


def run(corrupt=None):
    ck = Check("C19")
    env.use_repo()
    thorough = ck.tier == "thorough"
    r = chainlib.model_check_chain("c19_chain")
    tlc.require_ok(r, "Chain model")
    ck.add_tlc("Chain.tla over 2592 option records: termination, trace protocol, cache freshness", r)
    neg = chainlib.model_check_chain("c19_chain_neg", clear=False)
    ck.add_tlc("DEV caches never cleared (must violate CacheFresh)", neg, must_fail=True)
    if "CacheFresh" not in neg.violated:
        raise tlc.TLCError("deviation not refuted: %s" % neg.summary())
    # the tree moves the driver composes are defined on every forest (incl. the all-outlier tree)
    from . import c04
    jobs = [dict(job="c19_moves_%d" % i, module="Moves", workers=2, timeout=1500,
                 cfg=tlc.cfg_text(constants=c04.mv_consts(3, True, "sub", 1, whole=w), invariants=["DefinedInv"])) for i, w in enumerate((True, False))]
    rd, rdn = tlc.run_many(jobs)
    tlc.require_ok(rd, "Moves defined")
    ck.add_tlc("Moves.tla MovesDefined: every move has a candidate on every forest over 3 points with outliers", rd)
    ck.add_tlc("DEV subtree move without the all-outlier fallback (must violate DefinedInv)", rdn, must_fail=True)
    if "DefinedInv" not in rdn.violated:
        raise tlc.TLCError("deviation not refuted: %s" % rdn.summary())
    options = list(all_options())
    if thorough:
        datasets = [(1, 1), (2, 1), (3, 1), (2, 2), (3, 2), (4, 1)]
        seeds = [ck.seed, ck.seed + 1, ck.seed + 2]
    else:
        datasets = [(1, 1), (2, 1)]
        seeds = [ck.seed]
    spec_traces = sweep(ck, datasets, options, seeds, "full_cross_product")
    if not thorough:
        # a seeded sample at 3 points / 2 samples
        import random
        rnd = random.Random(ck.seed)
        sample = rnd.sample(options, 600)
        spec_traces += sweep(ck, [(3, 1), (3, 2)], sample, seeds, "sample_3_points", max_traces=1200)
    # longer runs on 4-6 points (tree shapes with grafts below grafts need >= 4 points), seeded sample of option records
    import random as _r
    rnd2 = _r.Random(ck.seed + 1)
    long_opts = [o for o in rnd2.sample(options, 2500) if o["max_time"] != 0][:(900 if thorough else 320)]
    # a finite positive time limit on some of them (expires at an arbitrary iteration)
    long_opts = [dict(o, max_time=(0.02 if i % 5 == 0 else o["max_time"])) for i, o in enumerate(long_opts)]
    spec_traces += sweep(ck, [(5, 1), (6, 2)] if thorough else [(5, 1)], long_opts, seeds, "long_runs_5_points", max_traces=(600 if thorough else 200), num_iters=15)
    # heavy data points (large clusters, deep sequencing, many samples): log-likelihoods around -900 per sample row,
    # incremental SMC weights far below the range of exp()
    heavy_opts = [o for o in long_opts if o["max_time"] == float("inf")][:(120 if thorough else 40)]
    spec_traces += sweep(ck, [(3, 3), (4, 2)] if thorough else [(3, 3)], heavy_opts, seeds[:1], "heavy_data_points", max_traces=100, num_iters=6, offset=900.0)
    crafted_runs(ck, thorough)
    cli_runs(ck, thorough)
    if corrupt == "trace" and spec_traces:
        ev = spec_traces[0]["events"]
        spec_traces[0]["events"] = [e for e in ev if e["name"] != "clear_caches"]
    rv, unmatched = chainlib.validate_chain_traces("c19_traces", spec_traces)
    if rv.errors or rv.timed_out:
        raise tlc.TLCError("trace validation failed: %s\n%s" % (rv.summary(), rv.out[-1500:]))
    ck.add_tlc("TraceChain: %d recorded runs" % len(spec_traces), rv)
    for v in rv.violated:
        ck.violation("C19|trace_invariant|%s" % v, "Chain invariant %s violated on a recorded run" % v, {"tlc": rv.out[-1500:]})
    ck.traces_validated += len(spec_traces) - len(unmatched)
    for k in unmatched[:5]:
        t = spec_traces[k - 1]
        ck.violation("C19|trace_rejected", "the recorded event stream of a run is not a behaviour of Chain.tla (options %s): %s" % (
            json.dumps(t["opt"]), json.dumps([e["name"] + (":" + e.get("sampler", "") if "sampler" in e else "") for e in t["events"]])[:600]), {"trace": t})
    if spec_traces:
        ck.sample({"options": spec_traces[-1]["opt"], "events": spec_traces[-1]["events"][:12]})
    ck.rule = ("full cross-product of %d option records x data sets %s x seeds %s (+ a seeded sample of 600 records on 3 points in the quick tier); "
               "3 main iterations each; distinct_nontrivial = distinct (data set, option record) pairs that completed" % (len(options), datasets, seeds))
    ck.exhaustive = True
    ck.assumptions = ["real numpy generators seeded per run (one random trajectory per option record and seed)",
                      "time limit abstracted to {infinity, 0}", "3 main iterations per run"]
    if corrupt:
        return ck
    return ck.finish()


def selftest():
    ck = run(corrupt="trace")
    ok = any(v["signature"] == "C19|trace_rejected" for v in ck.violations)
    print("selftest:", "corrupted event stream rejected by TLC" if ok else "FAILED")
    return 0 if ok else 1


def replay(path):
    body = json.load(open(path))
    env.use_repo()
    r = body["replay"]
    o = dict(r["options"], num_iters=3)
    if o.get("max_time") in (None, "inf"):
        o["max_time"] = float("inf")
    out = chainlib.run_one(r["n"], r["dims"], r["seed"], o)
    print("error:", out["error"], "problems:", out["problems"])
    return 1 if (out["error"] or out["problems"]) else 0
