"""C06 - incrementally maintained likelihoods equal a from-scratch rebuild.

M: TreeADT.tla - closure of the sampler edit grammar G1-G6 over <= 3 (quick) / 4 (thorough) data points with
   symbolic cache signatures; InvFresh (every cached array corresponds to the current structure) after every
   public action; the deviation DropUpdateOnRemoveDP must violate InvFresh.
O/R: co-exploration of real Tree objects against the TLC edge dump: every action the spec enables at every real
   state reached is applied to restored copies (copy / from_dict / pickled dict); after each, every node's log_p,
   log_r, data_log_likelihood and both joint densities are compared with a tree freshly built from the projected
   shape; the (source, action, target) triple must be an edge of the TLC graph (drift note otherwise).
"""
import json

from .. import env, tlc, absstate, treeadt
from ..evidence import Check


def tlc_graph(ck, data_ids, job, maxname=7, workers=None):
    cfg = tlc.cfg_text(constants=treeadt.consts(data_ids, dump=True, maxname=maxname), invariants=treeadt.INVS, view="view",
                       constraint="NameBound", action_constraint="EdgeDump")
    r = tlc.run_tlc(job, "TreeADT", cfg, workers=workers, timeout=3000)
    tlc.require_ok(r, "TreeADT %s" % data_ids)
    return r


def neg_runs(ck):
    jobs = []
    for i, (label, kw, inv) in enumerate((("DEV remove_data_point refreshes from the parent only", dict(d1=True), "InvFresh"),
                                          ("DEV graft never relabels clashing names", dict(d3=True), None))):
        jobs.append(dict(job="c06_neg%d" % i, module="TreeADT", workers=4, timeout=1500,
                         cfg=tlc.cfg_text(constants=treeadt.consts([0, 1, 2], **kw), invariants=treeadt.INVS, view="view", constraint="NameBound")))
    res = tlc.run_many(jobs)
    for (label, inv), r in zip((("DEV remove_data_point refreshes from the parent only", "InvFresh"),
                                ("DEV graft never relabels clashing names", None)), res):
        ck.add_tlc(label, r, must_fail=True)
        if not r.violated or (inv and inv not in r.violated):
            raise tlc.TLCError("deviation not refuted: %s %s" % (label, r.summary()))


def make_dist(alpha=0.7):
    from phyclone.tree import FSCRPDistribution, TreeJointDistribution
    return TreeJointDistribution(FSCRPDistribution(alpha))


def explore(ck, n, kind, seed, max_edges=None, job="c06_graph"):
    r = tlc_graph(ck, list(range(n)), job)
    ck.add_tlc("TreeADT grammar closure Data=0..%d outliers on (edge dump)" % (n - 1), r)
    graph, states, nedges = treeadt.load_graph(r.json_prints)
    if nedges < r.generated - 1:
        raise tlc.TLCError("edge dump incomplete: %d of %d" % (nedges, r.generated))
    oracle = None
    if kind in ("int", "intdup"):
        from .. import gridoracle
        tab = gridoracle.int_tables(n, 2, 5, seed, dup=([(0, 1)] if kind == "intdup" else []))
        oracle, ro = gridoracle.run_oracle(job + "_oracle", tab, check_def=(n <= 3))
        ck.add_tlc("GridOracle N=%d D=2 G=5 (%s)" % (n, kind), ro)
        data = gridoracle.data_from_tables(tab, outlier_prob=0.2)
    else:
        data = absstate.make_data(n, dims=2, grid=5, seed=seed, kind=kind, outlier_prob=0.2)
    _clear_array_caches()
    res = treeadt.coexplore(graph, data, make_dist(), max_edges=max_edges, oracle=oracle)
    res["spec_states"] = len(states)
    res["spec_edges"] = nedges
    return res


def _clear_array_caches():
    from phyclone.tree.utils import compute_log_S, _convolve_two_children
    compute_log_S.cache_clear()
    _convolve_two_children.cache_clear()


def report(ck, res, prop, kinds):
    for kind in kinds:
        for it in res[kind][:200]:
            act = it["act"]["name"]
            ck.violation("%s|%s|%s" % (prop, kind, act), "%s after %s (%s): %s" % (kind, json.dumps(it["act"]), it.get("restore"), it.get("error", "edge not in spec graph")), it)


def walks(ck, n, nwalks, steps, seed, kind="intdup", corrupt=None, job="c06_walk"):
    """In-place random walks (objects never restored between steps, sibling trees sharing grafted subtrees kept
    alive) on n data points; every recorded step is validated by TLC against TreeADT (TraceTreeADT.tla)."""
    import numpy as np
    from .. import gridoracle

    tab = gridoracle.int_tables(n, 2, 5, seed + 7, dup=([(0, 1)] if kind == "intdup" else []))
    oracle, ro = gridoracle.run_oracle(job + "_oracle", tab, check_def=(n <= 3))
    ck.add_tlc("GridOracle N=%d D=2 G=5 (%s) for walks" % (n, kind), ro)
    data = gridoracle.data_from_tables(tab, outlier_prob=0.2)
    rs = np.random.RandomState(seed + 99)
    _clear_array_caches()
    edges, issues = [], []
    for w in range(nwalks):
        e, iss = treeadt.walk(data, list(range(n)), steps, rs, make_dist(), oracle=oracle)
        edges += e
        issues += iss
    if corrupt == "edge" and edges:
        edges[len(edges) // 2]["dst"]["cur"]["outl"] = sorted(set(edges[len(edges) // 2]["dst"]["cur"]["outl"]) ^ {0})
    r, unmatched = treeadt.validate_edges(job + "_trace", edges, list(range(n)))
    if r.errors or r.timed_out or (r.violated and not unmatched):
        # an invariant violated on a recorded real state is a property-level finding, anything else is machinery
        if r.violated:
            for v in r.violated:
                ck.violation("C06|trace_invariant|%s" % v, "TreeADT invariant %s violated on a recorded real state" % v, {"tlc": r.out[-2000:]})
        else:
            raise tlc.TLCError("trace validation failed: %s\n%s" % (r.summary(), r.out[-2000:]))
    ck.add_tlc("TraceTreeADT N=%d: %d recorded steps" % (n, len(edges)), r)
    ck.traces_validated += len(edges) - len(unmatched)
    ck.evaluations += len(edges)
    return edges, issues, unmatched


def run(corrupt=None):
    ck = Check("C06")
    env.use_repo()
    neg_runs(ck)
    total_edges = 0
    for kind in ("intdup", "real"):
        res = explore(ck, 3, kind, ck.seed)
        ck.traces_validated += res["edges"]
        ck.evaluations += res["edges"] * 2
        total_edges += res["edges"]
        if corrupt == "stale":
            res["stale"].append({"act": {"name": "selftest"}, "error": "injected"})
        report(ck, res, "C06", ("stale", "exception"))
        for it in res["mismatch"][:5]:
            ck.model_drift("edge not in the TreeADT graph: %s -> %s" % (json.dumps(it["act"]), json.dumps(it["observed"])[:300]))
        for it in res["inconsistent"][:5]:
            ck.violation("C06|inconsistent|%s" % it["act"]["name"], "tree views disagree after %s: %s" % (json.dumps(it["act"]), it["error"]), it)
        ck.extra["coexploration_%s" % kind] = {k: res[k] for k in ("edges", "states", "spec_states", "spec_edges", "spec_edges_unrealised", "max_depth")}
        for s in res["samples"]:
            ck.sample(s)
        # non-trivial: real states reached by >= 2 edits (depth) - counted as states beyond the first two levels
        for i in range(res["states"]):
            ck.nontrivial("%s:%d" % (kind, i))
    nw = 400 if ck.tier == "thorough" else 80
    for n, kind in ((4, "intdup"),) + (((5, "intdup"), (4, "int")) if ck.tier == "thorough" else ()):
        edges, issues, unmatched = walks(ck, n, nw, 60, ck.seed, kind=kind, corrupt=corrupt, job="c06_walk%d%s" % (n, kind))
        for kind_, it in issues[:100]:
            if kind_ in ("stale", "exception", "inconsistent"):
                ck.violation("C06|%s|%s" % (kind_, it["act"]["name"]), "%s in an in-place walk after %s: %s" % (kind_, json.dumps(it["act"]), it["error"]), it)
        for k in unmatched[:5]:
            e = edges[k - 1]
            if corrupt == "edge":
                ck.violation("C06|selftest|unmatched", "corrupted step rejected", {"edge": e})
            else:
                ck.model_drift("recorded step not a TreeADT step: %s" % json.dumps(e["act"]))
        ck.extra["walks_n%d_%s" % (n, kind)] = {"steps": len(edges), "unmatched": len(unmatched), "issues": len(issues)}
        if edges:
            ck.sample({"walk_step": edges[-1]})
    ck.rule = ("all edges of the TreeADT grammar closure on 3 data points (outliers on) realised by the real Tree, each applied to a restored "
               "copy (copy / from_dict / pickled dict in rotation), for an integer-table and a real-valued data set; distinct_nontrivial = "
               "distinct real (cur, sub, mode) states reached")
    ck.exhaustive = True
    ck.assumptions = ["tolerance 1e-8 relative absorbs add/remove rounding drift", "clone names bounded by 7 in the TLC closure (graft relabelling draws fresh names)"]
    if corrupt:
        return ck
    return ck.finish()


def selftest():
    ck = run(corrupt="stale")
    ok = any(v["signature"].startswith("C06|stale") for v in ck.violations)
    print("selftest:", "injected stale value reported" if ok else "FAILED")
    ck = run(corrupt="edge")
    ok2 = any(v["signature"].startswith("C06|selftest") for v in ck.violations)
    print("selftest:", "corrupted recorded step rejected by TLC" if ok2 else "FAILED (corrupted step accepted)")
    return 0 if (ok and ok2) else 1


def replay(path):
    body = json.load(open(path))
    print(json.dumps(body["replay"], indent=1)[:3000])
    return 0
