"""C06 - incrementally maintained likelihoods equal a from-scratch rebuild.

M: TreeADT.tla - closure of the sampler edit grammar G1-G6 over <= 3 (quick) / 4 (thorough) data points with
   symbolic cache signatures; InvFresh (every cached array corresponds to the current structure) after every
   public action; the deviation DropUpdateOnRemoveDP must violate InvFresh.
O/R: co-exploration of real Tree objects against the TLC edge dump: every action the spec enables at every real
   state reached is applied to restored copies (copy / from_dict / pickled dict); after each, every node's log_p,
   log_r, data_log_likelihood and both joint densities are compared with a tree freshly built from the projected
   shape; the (source, action, target) triple must be an edge of the TLC graph (drift note otherwise).
"""
import json

from .. import env, tlc, absstate, treeadt
from ..evidence import Check


def tlc_graph(ck, data_ids, job, maxname=7, workers=None):
    cfg = tlc.cfg_text(constants=treeadt.consts(data_ids, dump=True, maxname=maxname), invariants=treeadt.INVS, view="view",
                       constraint="NameBound", action_constraint="EdgeDump")
    r = tlc.run_tlc(job, "TreeADT", cfg, workers=workers, timeout=3000)
    tlc.require_ok(r, "TreeADT %s" % data_ids)
    return r


def neg_runs(ck):
    cases = (("DEV remove_data_point refreshes from the parent only", dict(d1=True), "InvFresh", True),
             ("DEV graft never relabels clashing names", dict(d3=True), None, True),
             ("two live trees: the host is edited while an extracted subtree is alive (as implemented: copies)", dict(host_edits=True), None, False),
             ("DEV get_subtree hands out the host's own node payloads", dict(host_edits=True, shared=True), "InvFresh", True))
    jobs = []
    for i, (label, kw, inv, must_fail) in enumerate(cases):
        jobs.append(dict(job="c06_neg%d" % i, module="TreeADT", workers=4, timeout=1500,
                         cfg=tlc.cfg_text(constants=treeadt.consts([0, 1, 2], **kw), invariants=treeadt.INVS, view="view", constraint="NameBound")))
    res = tlc.run_many(jobs)
    for (label, kw, inv, must_fail), r in zip(cases, res):
        ck.add_tlc(label, r, must_fail=must_fail)
        if must_fail:
            if not r.violated or (inv and inv not in r.violated):
                raise tlc.TLCError("deviation not refuted: %s %s" % (label, r.summary()))
        else:
            tlc.require_ok(r, label)


def make_dist(alpha=0.7):
    from phyclone.tree import FSCRPDistribution, TreeJointDistribution
    return TreeJointDistribution(FSCRPDistribution(alpha))


def explore(ck, n, kind, seed, max_edges=None, job="c06_graph"):
    r = tlc_graph(ck, list(range(n)), job)
    ck.add_tlc("TreeADT grammar closure Data=0..%d outliers on (edge dump)" % (n - 1), r)
    graph, states, nedges = treeadt.load_graph(r.json_prints)
    if nedges < r.generated - 1:
        raise tlc.TLCError("edge dump incomplete: %d of %d" % (nedges, r.generated))
    oracle = None
    if kind in ("int", "intdup"):
        from .. import gridoracle
        tab = gridoracle.int_tables(n, 2, 5, seed, dup=([(0, 1)] if kind == "intdup" else []))
        oracle, ro = gridoracle.run_oracle(job + "_oracle", tab, check_def=(n <= 3))
        ck.add_tlc("GridOracle N=%d D=2 G=5 (%s)" % (n, kind), ro)
        data = gridoracle.data_from_tables(tab, outlier_prob=0.2)
    else:
        data = absstate.make_data(n, dims=2, grid=5, seed=seed, kind=kind, outlier_prob=0.2)
    _clear_array_caches()
    res = treeadt.coexplore(graph, data, make_dist(), max_edges=max_edges, oracle=oracle)
    res["spec_states"] = len(states)
    res["spec_edges"] = nedges
    return res


def _clear_array_caches():
    from phyclone.tree.utils import compute_log_S, _convolve_two_children
    compute_log_S.cache_clear()
    _convolve_two_children.cache_clear()


def report(ck, res, prop, kinds):
    for kind in kinds:
        for it in res[kind][:200]:
            act = it["act"]["name"]
            ck.violation("%s|%s|%s" % (prop, kind, act), "%s after %s (%s): %s" % (kind, json.dumps(it["act"]), it.get("restore"), it.get("error", "edge not in spec graph")), it)


def walks(ck, n, nwalks, steps, seed, kind="intdup", corrupt=None, job="c06_walk"):
    """In-place random walks (objects never restored between steps, sibling trees sharing grafted subtrees kept
    alive) on n data points; every recorded step is validated by TLC against TreeADT (TraceTreeADT.tla)."""
    import numpy as np
    from .. import gridoracle

    tab = gridoracle.int_tables(n, 2, 5, seed + 7, dup=([(0, 1)] if kind == "intdup" else []))
    oracle, ro = gridoracle.run_oracle(job + "_oracle", tab, check_def=(n <= 3))
    ck.add_tlc("GridOracle N=%d D=2 G=5 (%s) for walks" % (n, kind), ro)
    data = gridoracle.data_from_tables(tab, outlier_prob=0.2)
    if kind == "intbig":
        # data points of very different magnitude (a large cluster beside single mutations): log-likelihoods around
        # -4e5 and -2e5 for two of them; the exact oracle does not apply, the from-scratch rebuild is the reference
        from phyclone.data.base import DataPoint
        offs = {0: -4.0e5, n - 1: -2.0e5}
        data = [DataPoint(dp.idx, np.ascontiguousarray(dp.value + offs.get(dp.idx, 0.0)), name=dp.name, outlier_prob=dp.outlier_prob, outlier_prob_not=dp.outlier_prob_not) for dp in data]
        oracle = None
    rs = np.random.RandomState(seed + 99)
    _clear_array_caches()
    edges, issues = [], []
    from phyclone.tree import Tree
    held = {"dicts": None}

    def on_state(cur, sub, state, act):
        """A dictionary taken from a tree BEFORE an in-place edit must still restore to that earlier tree afterwards,
        with arrays equal to a from-scratch build of that earlier state."""
        out = []
        if held["dicts"] is not None:
            for d_, key_, nm in held["dicts"]:
                try:
                    back = Tree.from_dict(d_)
                    k2 = absstate.project(back, full=True)[0]
                    if k2 != key_:
                        out.append("the dictionary taken from the %s tree before %s restores to %s, it was taken from %s" % (nm, act["name"], absstate.key_str(k2), absstate.key_str(key_)))
                    else:
                        m = treeadt.compare_with_fresh(back, data, None, 1e-8)
                        if m:
                            out.append("the tree restored from a dictionary taken before %s: %s" % (act["name"], m))
                except absstate.Inconsistent as ex:
                    out.append("the dictionary taken before %s restores to a malformed tree: %s" % (act["name"], ex))
        try:
            held["dicts"] = [(t.to_dict(), absstate.project(t, full=True)[0], nm) for t, nm in ((cur, "current"), (sub, "side"))]
        except absstate.Inconsistent:
            held["dicts"] = None
        return out

    for w in range(nwalks):
        held["dicts"] = None
        e, iss = treeadt.walk(data, list(range(n)), steps, rs, make_dist(), oracle=oracle, on_state=(on_state if w % 2 == 0 else None))
        edges += e
        issues += [(("stale" if k_ == "callback" else k_), it) for k_, it in iss]
    if corrupt == "edge" and edges:
        edges[len(edges) // 2]["dst"]["cur"]["outl"] = sorted(set(edges[len(edges) // 2]["dst"]["cur"]["outl"]) ^ {0})
    r, unmatched = treeadt.validate_edges(job + "_trace", edges, list(range(n)))
    if r.errors or r.timed_out or (r.violated and not unmatched):
        # an invariant violated on a recorded real state is a property-level finding, anything else is machinery
        if r.violated:
            for v in r.violated:
                ck.violation("C06|trace_invariant|%s" % v, "TreeADT invariant %s violated on a recorded real state" % v, {"tlc": r.out[-2000:]})
        else:
            raise tlc.TLCError("trace validation failed: %s\n%s" % (r.summary(), r.out[-2000:]))
    ck.add_tlc("TraceTreeADT N=%d: %d recorded steps" % (n, len(edges)), r)
    ck.traces_validated += len(edges) - len(unmatched)
    ck.evaluations += len(edges)
    return edges, issues, unmatched


def fft_walks(ck, seed, nwalks, steps):
    """In-place walks on a fine grid (1000 points: sibling clones are convolved on the FFT path).  The incrementally
    maintained arrays are snapshotted after every step and compared at the END with rebuilds made with cold memo tables,
    so that the comparison neither disturbs nor depends on the tables' state during the history."""
    import numpy as np
    from .. import gridoracle
    n, G = 4, 1000
    rs0 = np.random.RandomState(seed + 5)
    tab = rs0.randint(1, 4, size=(n, 1, G))
    data = gridoracle.data_from_tables(tab, outlier_prob=0.2)
    rs = np.random.RandomState(seed + 17)
    _clear_array_caches()
    snaps = []

    def on_state(cur, sub, dst, act):
        if len(snaps) < 400:
            for t in (cur, sub):
                try:
                    key, conc = absstate.project(t, full=False)
                except absstate.Inconsistent:
                    continue
                clades = list(conc["clade"].values())
                if conc["names"] and len(set(clades)) == len(clades):
                    arrs, rr, _ = treeadt.node_arrays(t)
                    snaps.append((act, key, {c: a[1].copy() for c, a in arrs.items()}, rr.copy()))
        return ()

    # a fixed history first: three sibling clones (convolved pairwise, the pair result memoised), then edits that hit
    # the memoised pair again inside new sibling sets - as SMC and the Gibbs moves do
    from phyclone.tree import Tree
    rs1 = np.random.RandomState(seed + 23)
    tab7 = rs1.randint(1, 4, size=(7, 1, G))
    data7 = gridoracle.data_from_tables(tab7, outlier_prob=0.2)

    def snap(label, t):
        key, conc = absstate.project(t, full=False)
        arrs, rr, _ = treeadt.node_arrays(t)
        snaps.append(({"name": label}, key, {c: a[1].copy() for c, a in arrs.items()}, rr.copy()))

    t = Tree(data7[0].grid_size)
    a = t.create_root_node(children=[], data=[data7[0]])
    b = t.create_root_node(children=[], data=[data7[1]])
    c = t.create_root_node(children=[], data=[data7[2]])
    snap("three top-level clones", t)
    t1 = t.copy()
    t1.add_data_point_to_node(data7[3], a)
    snap("data added to the first of three top-level clones", t1)
    t2 = t1.copy()
    top = t2.create_root_node(children=[a, b, c], data=[data7[4]])
    snap("clone created above three top-level clones", t2)
    t3 = t2.copy()
    t3.add_data_point_to_node(data7[5], b)
    snap("data added to one of three siblings", t3)
    t4 = t3.copy()
    t4.remove_data_point_from_node(data7[3], a)
    t4.add_data_point_to_node(data7[3], c)
    snap("data point moved between two of three siblings", t4)
    t5 = t4.copy()
    t5.add_data_point_to_node(data7[6], a)
    snap("data added to another sibling", t5)
    fixed = list(snaps)
    del snaps[:]
    nsteps = 0
    for w in range(nwalks):
        e, iss = treeadt.walk(data, list(range(n)), steps, rs, None, oracle=None, tol=1e-5, on_state=on_state)
        nsteps += len(e)
        for kind_, it in iss[:20]:
            if kind_ in ("stale", "exception", "inconsistent"):
                ck.violation("C06|fft|%s|%s" % (kind_, it["act"]["name"]), "%s in an in-place walk on a 1000-point grid after %s: %s" % (kind_, json.dumps(it["act"]), it["error"]), it)
    bad = 0
    for (act, key, arrs, rr), dset in [(x, data7) for x in fixed] + [(x, data) for x in snaps]:
        _clear_array_caches()
        fresh = absstate.build(key, dset)
        farrs, frr, _ = treeadt.node_arrays(fresh)
        dev = max([float(np.max(np.abs(arrs[c] - farrs[c][1]))) for c in arrs] + [float(np.max(np.abs(rr - frr)))])
        ck.evaluations += 1
        if not (dev <= 1e-5):
            bad += 1
            if bad <= 3:
                ck.violation("C06|fft|stale_vs_cold_rebuild|%s" % act["name"], "on a 1000-point grid the arrays maintained through the edit history (last step %s) differ by %.3g from a rebuild of %s made with cold memo tables" % (
                    json.dumps(act), dev, absstate.key_str(key)), {"act": act, "state": absstate.to_json(key)})
    _clear_array_caches()
    ck.traces_validated += nwalks
    ck.extra["fft_walks"] = {"steps": nsteps, "snapshots": len(snaps), "many_children": sum(1 for _, k, _, _ in snaps if len([c for c in k[0] if not any(c < d for d in k[0])]) >= 3)}
    ck.nontrivial("fft_walks")


def extract_then_edit(ck, prop="C06", n=4):
    """Directed histories with TWO live trees: a clone's subtree is extracted (the host keeps it, as between the two halves
    of a prune-regraft / subtree move), then ONE of the two trees is edited in place - a data point added to and removed
    from a clone, clones relabelled - and BOTH trees are compared with fresh rebuilds of the forests they represent."""
    from .. import gridoracle
    dist = make_dist()
    tab = gridoracle.int_tables(n, 2, 4, 23 + ck.seed, lo=1, hi=6)
    data = gridoracle.data_from_tables(tab, outlier_prob=0.2)
    extra = data[n - 1]
    res = tlc.run_tlc("%s_forests_x" % prop.lower(), "Density", tlc.cfg_text(constants={"N": n - 1, "OutliersOn": "FALSE", "Dump": "TRUE", "Starts": "{}"}, invariants=["FeatConsistent", "Emit"]), timeout=1500)
    tlc.require_ok(res, "Density (forests for extract-then-edit)")
    ck.add_tlc("Density.tla N=%d: forests for the extract-then-edit histories" % (n - 1), res)
    keys = sorted({absstate.canon(x["st"]) for x in res.json_prints if absstate.data_ids(absstate.canon(x["st"])) == set(range(n - 1))}, key=absstate.key_str)
    nsteps = 0

    def judge(t, what, ctx):
        try:
            absstate.project(t, full=True)
            return treeadt.compare_with_fresh(t, data, dist, 1e-8)
        except absstate.Inconsistent as ex:
            return "malformed tree: %s" % ex

    for key in keys:
        if len(key[0]) < 2:
            continue
        base = absstate.build(key, data)
        _, conc = absstate.project(base, full=False)
        for v in conc["names"]:
            ctx = {"state": absstate.to_json(key), "extracted": sorted(conc["clade"][v])}
            try:
                for edited in ("host", "subtree", "subtree_relabelled"):
                    host = base.copy()
                    sub = host.get_subtree(v)
                    _, csub = absstate.project(sub, full=False)
                    _, chost = absstate.project(host, full=False)
                    target_tree, names = (host, chost["names"]) if edited == "host" else (sub, csub["names"])
                    if edited == "subtree_relabelled":
                        sub.relabel_nodes()
                        steps = [("the extracted subtree was relabelled", None)]
                    else:
                        steps = []
                        for m in names:
                            target_tree.add_data_point_to_node(extra, m)
                            steps.append(("data point %d was added to clone %s of the %s" % (extra.idx, m, edited), None))
                            for t, nm in ((host, "host"), (sub, "extracted subtree")):
                                nsteps += 1
                                msg = judge(t, nm, ctx)
                                if msg:
                                    raise _Stale("%s after %s: %s" % (nm, steps[-1][0], msg))
                            target_tree.remove_data_point_from_node(extra, m)
                            steps.append(("... and removed again", None))
                    for t, nm in ((host, "host"), (sub, "extracted subtree")):
                        nsteps += 1
                        msg = judge(t, nm, ctx)
                        if msg:
                            raise _Stale("%s after %s: %s" % (nm, steps[-1][0] if steps else "extraction", msg))
            except _Stale as ex:
                ck.violation("%s|extract_then_edit|stale" % prop, "forest %s, subtree of clone %s extracted (host keeps it): %s" % (absstate.key_str(key), ctx["extracted"], ex), ctx)
            except Exception as ex:  # noqa
                import traceback
                if not any("/phyclone/" in f.filename for f in traceback.extract_tb(ex.__traceback__)):
                    raise
                ck.violation("%s|extract_then_edit|exception" % prop, "forest %s, subtree of clone %s extracted, then an in-place edit raised %s: %s" % (absstate.key_str(key), ctx["extracted"], type(ex).__name__, ex), ctx)
        ck.nontrivial("extract_then_edit:" + absstate.key_str(key))
    ck.evaluations += nsteps
    ck.extra["extract_then_edit_comparisons"] = nsteps


class _Stale(Exception):
    pass


def run(corrupt=None):
    ck = Check("C06")
    env.use_repo()
    neg_runs(ck)
    total_edges = 0
    for kind in ("intdup", "real"):
        res = explore(ck, 3, kind, ck.seed)
        ck.traces_validated += res["edges"]
        ck.evaluations += res["edges"] * 2
        total_edges += res["edges"]
        if corrupt == "stale":
            res["stale"].append({"act": {"name": "selftest"}, "error": "injected"})
        report(ck, res, "C06", ("stale", "exception"))
        for it in res["mismatch"][:5]:
            ck.model_drift("edge not in the TreeADT graph: %s -> %s" % (json.dumps(it["act"]), json.dumps(it["observed"])[:300]))
        for it in res["inconsistent"][:5]:
            ck.violation("C06|inconsistent|%s" % it["act"]["name"], "tree views disagree after %s: %s" % (json.dumps(it["act"]), it["error"]), it)
        ck.extra["coexploration_%s" % kind] = {k: res[k] for k in ("edges", "states", "spec_states", "spec_edges", "spec_edges_unrealised", "max_depth")}
        for s in res["samples"]:
            ck.sample(s)
        # non-trivial: real states reached by >= 2 edits (depth) - counted as states beyond the first two levels
        for i in range(res["states"]):
            ck.nontrivial("%s:%d" % (kind, i))
    nw = 400 if ck.tier == "thorough" else 80
    for n, kind in ((4, "intdup"), (4, "intbig")) + (((5, "intdup"), (4, "int")) if ck.tier == "thorough" else ()):
        edges, issues, unmatched = walks(ck, n, (nw if kind != "intbig" else nw // 2), 60, ck.seed, kind=kind, corrupt=corrupt, job="c06_walk%d%s" % (n, kind))
        for kind_, it in issues[:100]:
            if kind_ in ("stale", "exception", "inconsistent"):
                ck.violation("C06|%s|%s" % (kind_, it["act"]["name"]), "%s in an in-place walk after %s: %s" % (kind_, json.dumps(it["act"]), it["error"]), it)
        if unmatched and corrupt != "edge":
            # re-validate the rejected steps comparing targets as abstract forests only: differences in clone names alone are
            # drift of the specification's naming discipline; another forest (data lost, moved, a clone elsewhere) means the
            # edit did not produce the tree whose values the caches are supposed to hold
            rej = [edges[k - 1] for k in unmatched]
            r2, un2 = treeadt.validate_edges("c06_walk_abs_%d%s" % (n, kind), rej, list(range(n)), abstract_only=True)
            hard = {id(rej[k - 1]) for k in un2}
            for e in rej[:8]:
                if id(e) in hard:
                    ck.violation("C06|edge_not_in_spec|%s" % e["act"]["name"], "after %s the tree is not the one the edit is specified to produce (TreeADT.tla): the values it holds belong to another assignment" % json.dumps(e["act"]), {"edge": e})
                else:
                    ck.model_drift("recorded step %s matches the specification up to clone names" % json.dumps(e["act"]))
        for k in (unmatched[:5] if corrupt == "edge" else []):
            e = edges[k - 1]
            ck.violation("C06|selftest|unmatched", "corrupted step rejected", {"edge": e})
        ck.extra["walks_n%d_%s" % (n, kind)] = {"steps": len(edges), "unmatched": len(unmatched), "issues": len(issues)}
        if edges:
            ck.sample({"walk_step": edges[-1]})
    fft_walks(ck, ck.seed, (30 if ck.tier == "thorough" else 10), 40)
    extract_then_edit(ck, "C06", 5 if ck.tier == "thorough" else 4)
    ck.rule = ("all edges of the TreeADT grammar closure on 3 data points (outliers on) realised by the real Tree, each applied to a restored "
               "copy (copy / from_dict / pickled dict in rotation), for an integer-table and a real-valued data set; distinct_nontrivial = "
               "distinct real (cur, sub, mode) states reached")
    ck.exhaustive = True
    ck.assumptions = ["tolerance 1e-8 relative absorbs add/remove rounding drift", "clone names bounded by 7 in the TLC closure (graft relabelling draws fresh names)"]
    if corrupt:
        return ck
    return ck.finish()


def selftest():
    ck = run(corrupt="stale")
    ok = any(v["signature"].startswith("C06|stale") for v in ck.violations)
    print("selftest:", "injected stale value reported" if ok else "FAILED")
    ck = run(corrupt="edge")
    ok2 = any(v["signature"].startswith("C06|selftest") for v in ck.violations)
    print("selftest:", "corrupted recorded step rejected by TLC" if ok2 else "FAILED (corrupted step accepted)")
    return 0 if (ok and ok2) else 1


def replay(path):
    body = json.load(open(path))
    print(json.dumps(body["replay"], indent=1)[:3000])
    return 0
