"""C18 - a seeded run is reproducible regardless of scheduling and hash seed.

M: Chains.tla - K chains with spawned streams on W worker slots, every interleaving of their draws and every
   completion order: ScheduleIndependence (each chain's result is exactly the draws of its own stream), KeyedByChain,
   NoSharedDraw; sharing one stream, or assigning streams per worker slot, is refuted.  The model states the
   assumption the implementation must satisfy: no state shared between chains except the read-only input.
O: real `phyclone run --seed S --num-chains k` executions of a small input (outlier modelling and subtree moves on)
   under perturbations - PYTHONHASHSEED 0 / 4242 / 1, CPU affinity all cores vs one core, per-chain start delays that
   reverse the completion order (asserted from the run's output) - must produce, for every chain number, the identical
   sequence of (tree, concentration value, log_p_one), floats bit-equal; likewise single-chain runs.
"""
import gzip
import json
import os
import pickle
import shutil
import subprocess
import sys
import time

import numpy as np

from .. import env, tlc, absstate
from ..evidence import Check


def model_runs(ck):
    cases = [("Chains K=3 Steps=2 W=3", (3, 2, 3, False, False, 0, False), "pass"), ("Chains K=3 Steps=2 W=2 (queued chain)", (3, 2, 2, False, False, 0, False), "pass"),
             ("Chains K=2 Steps=3 W=1 (sequential workers)", (2, 3, 1, False, False, 0, False), "pass"),
             ("Chains K=2 Steps=2 W=2, loader draws 2 from the parent stream first", (2, 2, 2, False, False, 2, False), "pass"),
             ("Chains K=1 Steps=3, loader draws 2 first (single chain continues on the parent stream)", (1, 3, 1, False, False, 2, False), "pass"),
             ("DEV one shared stream", (2, 2, 2, True, False, 0, False), "fail"), ("DEV streams per worker slot", (3, 2, 2, False, True, 0, False), "fail"),
             ("DEV loader draws concurrently with a single chain", (1, 2, 1, False, False, 2, True), "fail"),
             ("DEV chains do not clear the process-global memo tables (3 chains, 3 workers: a finished worker takes a queued chain)", (3, 1, 3, False, False, 0, False, False), "fail"),
             ("DEV the convolution routine is chosen by a timing race", (2, 1, 2, False, False, 0, False, True, True), "fail")]
    jobs = [dict(job="c18_%d" % i, module="Chains", workers=2, timeout=900,
                 cfg=tlc.cfg_text(constants={"K": a[0], "Steps": a[1], "W": a[2], "SharedStream": tlc.tla_bool(a[3]), "StreamPerWorker": tlc.tla_bool(a[4]),
                                             "PreDraws": a[5], "LazyLoad": tlc.tla_bool(a[6]),
                                             "ColdStartPerChain": tlc.tla_bool(a[7] if len(a) > 7 else True),
                                             "RaceChoice": tlc.tla_bool(a[8] if len(a) > 8 else False)},
                                  invariants=["ScheduleIndependence", "KeyedByChain", "NoSharedDraw"])) for i, (_, a, _) in enumerate(cases)]
    for (label, _, expect), r in zip(cases, tlc.run_many(jobs)):
        ck.add_tlc(label, r, must_fail=(expect == "fail"))
        if expect == "fail":
            if "ScheduleIndependence" not in r.violated:
                raise tlc.TLCError("deviation not refuted: %s" % label)
        else:
            tlc.require_ok(r, label)


def write_input(path, seed):
    import numpy as np
    rs = np.random.RandomState(100 + seed)
    rows = ["mutation_id\tsample_id\tref_counts\talt_counts\tmajor_cn\tminor_cn\tnormal_cn"]
    # one clonal cluster and four mutually exclusive subclones (siblings: a clone with four children is the well supported
    # shape), plus two noisy mutations that tend to become outliers
    ccf = {"a": (0.95, 0.95), "b": (0.95, 0.95), "c": (0.25, 0.02), "d": (0.02, 0.25), "e": (0.2, 0.2), "f": (0.22, 0.3),
           "g": (0.6, 0.01), "h": (0.01, 0.7), "i": (0.25, 0.02), "j": (0.2, 0.2)}
    for m, (c1, c2) in ccf.items():
        for s, c in (("T1", c1), ("T2", c2)):
            depth = 400
            alt = int(round(depth * c / 2))
            rows.append("mut_%s\t%s\t%d\t%d\t1\t1\t2" % (m, s, depth - alt, alt))
    with open(path, "w") as fh:
        fh.write("\n".join(rows) + "\n")
    # pre-clustering (integer cluster ids that neither start at 0 nor are contiguous): a, b together; c, i together; e, j together
    cl = {"a": 2, "b": 2, "c": 5, "i": 5, "d": 7, "e": 11, "j": 11, "f": 12, "g": 20, "h": 31}
    with open(path + ".clusters.tsv", "w") as fh:
        fh.write("mutation_id\tcluster_id\n" + "".join("mut_%s\t%d\n" % (m, c) for m, c in cl.items()))


def write_input_assign(path):
    """Clustered input for --assign-loss-prob: a truncal cluster spread over six chromosomes, a subclone confined to one
    chromosome (a candidate lost cluster), a subclone spread over four; the cluster table carries sample, prevalence and
    chromosome columns as PyClone-VI writes them."""
    # (the truncal cluster holds 36 mutations: large clusters are summed by other code paths than small ones may be)
    cl = {"K0": ((0.95, 0.95), tuple(1 + (i % 6) for i in range(36))), "K1": ((0.3, 0.05), (7, 7, 7, 7)), "K2": ((0.05, 0.4), (1, 2, 3, 4))}
    rows = ["mutation_id\tsample_id\tref_counts\talt_counts\tmajor_cn\tminor_cn\tnormal_cn"]
    crows = ["mutation_id\tsample_id\tcluster_id\tcellular_prevalence\tchrom"]
    for cid, (ccf, chroms) in cl.items():
        for i, ch in enumerate(chroms):
            for s, c in zip(("T1", "T2"), ccf):
                alt = int(round(300 * c / 2)) + i
                rows.append("%s_m%d\t%s\t%d\t%d\t1\t1\t2" % (cid, i, s, 300 - alt, alt))
                crows.append("%s_m%d\t%s\t%s\t%s\tchr%d" % (cid, i, s, cid, c, ch))
    with open(path, "w") as fh:
        fh.write("\n".join(rows) + "\n")
    with open(path + ".clusters.tsv", "w") as fh:
        fh.write("\n".join(crows) + "\n")


def write_input_branching(path):
    """12 mutations x 3 samples at depth 1000: a clonal cluster with three sibling subclones, so that sampled trees
    branch and the convolution caches are filled with many-children entries."""
    import numpy as np
    rs = np.random.default_rng(1)
    ccfs = [(1.0, 1.0, 1.0), (0.5, 0.1, 0.3), (0.1, 0.5, 0.2), (0.3, 0.3, 0.4)]
    rows = ["mutation_id\tsample_id\tref_counts\talt_counts\tmajor_cn\tminor_cn\tnormal_cn"]
    for m in range(12):
        for s in range(3):
            b = rs.binomial(1000, ccfs[m % 4][s] / 2)
            rows.append("m%d\tS%d\t%d\t%d\t1\t1\t2" % (m, s, 1000 - b, b))
    with open(path, "w") as fh:
        fh.write("\n".join(rows) + "\n")


def write_input_six(path):
    """Six mutations in three samples whose CCFs do not nest (sibling clones meet in many pairings): few data points, so
    the memo tables are not flushed between the chains of a worker."""
    import numpy as np
    rs = np.random.default_rng(3)
    clones = [(1.0, 1.0, 1.0), (0.7, 0.2, 0.1), (0.2, 0.6, 0.1), (0.05, 0.1, 0.7), (0.4, 0.1, 0.05), (0.1, 0.3, 0.02)]
    rows = ["mutation_id\tsample_id\tref_counts\talt_counts\tmajor_cn\tminor_cn\tnormal_cn"]
    for k, ccfs in enumerate(clones):
        for s_, ccf in zip(("S1", "S2", "S3"), ccfs):
            alt = rs.binomial(300, ccf / 2)
            rows.append("mut_%02d\t%s\t%d\t%d\t1\t1\t2" % (k, s_, 300 - alt, alt))
    with open(path, "w") as fh:
        fh.write("\n".join(rows) + "\n")


def launch_shared(label, workdir, in_file, seed, shared, iters, chains=3, particles=20, extra=("--precision", "400")):
    """3 chains; with `shared` all pool workers but the first are slow to come up, so that the first worker process
    executes the chains one after the other (a schedule the executor permits)."""
    out = os.path.join(workdir, label + ".pkl.gz")
    marks = os.path.join(workdir, "marks_" + label)
    os.makedirs(marks, exist_ok=True)
    e = dict(os.environ)
    e.update(PYTHONHASHSEED="0", PHYCLONE_VERIF="1", PCV_CHAIN_PIDS=marks, NUMBA_CACHE_DIR=os.path.join(env.BUILD_DIR, "numba_cache"),
             PYTHONPATH=os.pathsep.join([os.path.join(env.VERIF, "pcv", "sitecustom"), env.REPO]))
    e.pop("PCV_CHAIN_DELAYS", None)
    if shared:
        e["PCV_WORKER_START_DELAY"] = "%s:%d" % (marks, shared)
    cmd = [sys.executable, "-c", "from phyclone.cli import main; main()", "run", "-i", in_file, "-o", out, "--seed", str(seed), "-n", str(iters), "-b", "5",
           "--num-chains", str(chains), "--num-particles", str(particles), "--print-freq", "100000"] + list(extra)
    p = subprocess.Popen(cmd, cwd=workdir, env=e, stdout=subprocess.PIPE, stderr=subprocess.STDOUT)
    return {"label": label, "proc": p, "out": out, "hashseed": 0, "one_core": False, "delays": ("the other workers start %ds late" % shared) if shared else None, "marks": marks}


def launch_timing(label, workdir, in_file, seed, slow):
    """One chain on a 512-point grid (between the sizes where either convolution back-end is clearly faster); `slow`
    delays the first calls of one back-end routine without touching its results."""
    out = os.path.join(workdir, label + ".pkl.gz")
    e = dict(os.environ)
    e.update(PYTHONHASHSEED="0", PHYCLONE_VERIF="1", NUMBA_CACHE_DIR=os.path.join(env.BUILD_DIR, "numba_cache"),
             PYTHONPATH=os.pathsep.join([os.path.join(env.VERIF, "pcv", "sitecustom"), env.REPO]))
    e.pop("PCV_CHAIN_DELAYS", None)
    if slow:
        e["PCV_SLOW_CALLS"] = slow
    cmd = [sys.executable, "-c", "from phyclone.cli import main; main()", "run", "-i", in_file, "-o", out, "--seed", str(seed), "-n", "12", "-b", "2",
           "--num-chains", "1", "--num-particles", "8", "--grid-size", "512", "--print-freq", "100000"]
    p = subprocess.Popen(cmd, cwd=workdir, env=e, stdout=subprocess.PIPE, stderr=subprocess.STDOUT)
    return {"label": label, "proc": p, "out": out, "hashseed": 0, "one_core": False, "delays": slow}


def chain_pids(run):
    pids = {}
    for f in os.listdir(run["marks"]):
        if f.startswith("chain_"):
            _, c, _, pid = f.split("_")
            pids[int(c)] = int(pid)
    return pids


LOADER_SCRIPT = """
import sys, json, io, contextlib
import numpy as np
from phyclone.data.pyclone import load_data
out = []
for data_file, cluster_file in json.loads(sys.argv[1]):
    with contextlib.redirect_stdout(io.StringIO()):
        data, samples = load_data(data_file, np.random.default_rng(11), 0.002, 0.3, True, cluster_file=cluster_file, density="binomial", grid_size=5, outlier_prob=0.0001, precision=400)
    out.append([[dp.name, float(dp.outlier_prob).hex(), float(dp.outlier_prob_not).hex(), [float(x).hex() for x in dp.value.ravel()[:4]]] for dp in data])
print("LOADED " + json.dumps(out))
"""


BIG_LOADER_SCRIPT = """
import sys, json, io, contextlib, hashlib
import numpy as np
from phyclone.data.pyclone import load_data
out = []
for data_file, cluster_file in json.loads(sys.argv[1]):
    with contextlib.redirect_stdout(io.StringIO()):
        data, samples = load_data(data_file, np.random.default_rng(11), 0.0001, 0.4, False, cluster_file=cluster_file, density="binomial", grid_size=21, outlier_prob=0.001, precision=400)
    out.append([[dp.idx, dp.name, hashlib.sha1(np.ascontiguousarray(dp.value).tobytes()).hexdigest()] for dp in data])
print("LOADED " + json.dumps(out))
"""


def loader_large_inputs(ck, workdir, thorough):
    """An input of 1200 mutations x 2 samples (with and without a cluster file of 40 clusters) loaded in several fresh
    processes: the data points - their order, names and likelihood grids bit for bit - are the start of every trace and
    must be the same in every process, whatever the scheduling of any helper threads."""
    import random as _r
    d = os.path.join(workdir, "loader_big")
    os.makedirs(d, exist_ok=True)
    rnd = _r.Random(5)
    p = os.path.join(d, "big.tsv")
    with open(p, "w") as fh:
        fh.write("mutation_id\tsample_id\tref_counts\talt_counts\tmajor_cn\tminor_cn\tnormal_cn\n")
        for m in range(1200):
            for s_ in ("S1", "S2"):
                dep = rnd.randint(40, 400)
                alt = rnd.randint(1, dep // 2)
                fh.write("mut%04d\t%s\t%d\t%d\t%d\t%d\t2\n" % (m, s_, dep - alt, alt, rnd.choice((1, 2, 3)), rnd.choice((0, 1))))
    cp = os.path.join(d, "big.clusters.tsv")
    with open(cp, "w") as fh:
        fh.write("mutation_id\tcluster_id\n")
        for m in range(1200):
            fh.write("mut%04d\t%d\n" % (m, m % 40))
    files = [[p, None], [p, cp]]
    nproc = 6 if thorough else 4
    procs = []
    for k in range(nproc):
        e = dict(os.environ, PYTHONHASHSEED=str(k % 2), PYTHONPATH=env.REPO, NUMBA_CACHE_DIR=os.path.join(env.BUILD_DIR, "numba_cache"))
        cmd = [sys.executable, "-c", BIG_LOADER_SCRIPT, json.dumps(files)]
        if k == 1 and shutil.which("taskset"):
            cmd = ["taskset", "-c", "0"] + cmd        # one process confined to a single core
        procs.append(subprocess.Popen(cmd, cwd=d, env=e, stdout=subprocess.PIPE, stderr=subprocess.STDOUT))
    outs = []
    for pr in procs:
        txt = pr.communicate(timeout=1800)[0].decode("utf-8", "replace")
        line = [l for l in txt.splitlines() if l.startswith("LOADED ")]
        if pr.returncode != 0 or not line:
            raise RuntimeError("large-input loader subprocess failed: %s" % txt[-800:])
        outs.append(json.loads(line[0][7:]))
    for k in range(1, nproc):
        for fi, what in enumerate(("without a cluster file", "with a cluster file")):
            ck.evaluations += 1
            a, b = outs[0][fi], outs[k][fi]
            if a != b:
                j = next((i for i, (x, y) in enumerate(zip(a, b)) if x != y), min(len(a), len(b)))
                ck.violation("C18|loaded_data_differs|large_input", "the same input of 1200 mutations (%s) loads differently in two processes: data point %d is %s in one and %s in the other" % (
                    what, j, a[j][:2] if j < len(a) else None, b[j][:2] if j < len(b) else None), {"process": k, "clustered": bool(fi)})
        ck.nontrivial("loader_big|process %d" % k)
    ck.traces_validated += nproc


def loader_hashseeds(ck, workdir, thorough):
    """--assign-loss-prob on clustered inputs whose permutation test is borderline (exact p-value 1/99 against the 0.01
    threshold; string cluster ids and chromosome names): the loaded data must not depend on PYTHONHASHSEED."""
    from .. import lossprob
    d = os.path.join(workdir, "loader")
    os.makedirs(d, exist_ok=True)
    insts = [lossprob.borderline_instance(0)] + lossprob.borderline_instances3(1)
    files = []
    for inst in insts:
        inst2 = dict(inst, id=100 + inst["id"])
        files.append(list(lossprob.write_files(inst2, d, 0)))
    seeds = (0, 1, 2, 3, 4, 5, 6, 7) if thorough else (0, 1, 2, 3, 4, 5)
    procs = []
    for hs in seeds:
        e = dict(os.environ, PYTHONHASHSEED=str(hs), PYTHONPATH=env.REPO, NUMBA_CACHE_DIR=os.path.join(env.BUILD_DIR, "numba_cache"))
        procs.append((hs, subprocess.Popen([sys.executable, "-c", LOADER_SCRIPT, json.dumps(files)], cwd=d, env=e, stdout=subprocess.PIPE, stderr=subprocess.STDOUT)))
    outs = {}
    for hs, p in procs:
        txt = p.communicate(timeout=900)[0].decode("utf-8", "replace")
        line = [l for l in txt.splitlines() if l.startswith("LOADED ")]
        if p.returncode != 0 or not line:
            raise RuntimeError("loader subprocess failed (hash seed %s): %s" % (hs, txt[-800:]))
        outs[hs] = json.loads(line[0][7:])
    base = outs[seeds[0]]
    for hs in seeds[1:]:
        ck.evaluations += len(base)
        for k, (a, b) in enumerate(zip(base, outs[hs])):
            if a != b:
                ck.violation("C18|loaded_data_differs|hash_seed", "the same clustered input loads with different outlier priors under PYTHONHASHSEED %s and %s (--assign-loss-prob, seed fixed): %s vs %s" % (
                    seeds[0], hs, [(x[0], x[1]) for x in a], [(x[0], x[1]) for x in b]), {"instance": k, "hashseeds": [seeds[0], hs]})
                break
        ck.nontrivial("loader|hash seed %s -> %s" % (seeds[0], hs))
    ck.traces_validated += len(seeds)


def launch(label, workdir, in_file, seed, chains, hashseed, one_core=False, delays=None, extra=()):
    out = os.path.join(workdir, label + ".pkl.gz")
    e = dict(os.environ)
    e["PYTHONHASHSEED"] = str(hashseed)
    e["PHYCLONE_VERIF"] = "1"
    pp = [env.REPO]
    if delays:
        e["PCV_CHAIN_DELAYS"] = delays
        pp.insert(0, os.path.join(env.VERIF, "pcv", "sitecustom"))
    else:
        e.pop("PCV_CHAIN_DELAYS", None)
    e["PYTHONPATH"] = os.pathsep.join(pp)
    e["NUMBA_CACHE_DIR"] = os.path.join(env.BUILD_DIR, "numba_cache")
    cmd = [sys.executable, "-c", "from phyclone.cli import main; main()", "run", "-i", in_file, "-c", in_file + ".clusters.tsv", "-o", out, "--seed", str(seed), "-n", "40",
           "--num-chains", str(chains), "--outlier-prob", "0.3", "-s", "0.5", "--num-particles", "6", "--grid-size", "21", "--burnin", "2", "--print-freq", "1000"] + list(extra)
    if one_core and shutil.which("taskset"):
        cmd = ["taskset", "-c", "0"] + cmd
    p = subprocess.Popen(cmd, cwd=workdir, env=e, stdout=subprocess.PIPE, stderr=subprocess.STDOUT)
    return {"label": label, "proc": p, "out": out, "hashseed": hashseed, "one_core": one_core, "delays": delays}


def collect(run):
    txt = run["proc"].communicate(timeout=900)[0].decode("utf-8", "replace")
    run["rc"] = run["proc"].returncode
    run["order"] = [int(l.split()[-1]) for l in txt.splitlines() if l.startswith("Finished chain")]
    run["stdout_tail"] = txt[-1500:]
    run.pop("proc")
    if run["rc"] == 0 and os.path.exists(run["out"]):
        from phyclone.tree import Tree
        with gzip.GzipFile(run["out"], "rb") as fh:
            res = pickle.load(fh)
        per = {}
        for num, ch in res.items():
            seq = []
            for en in ch["trace"]:
                key = absstate.quick_key(Tree.from_dict(en["tree"]))
                seq.append((absstate.key_str(key), float(en["alpha"]).hex(), float(en["log_p_one"]).hex(), en["iter"]))
            per[int(num)] = seq
        run["chains"] = per
        run["dict_order"] = [int(k) for k in res.keys()]
        # the data points stored with the trace (what every chain worked on), bit for bit
        import hashlib
        try:
            run["data_digest"] = [hashlib.sha1(np.ascontiguousarray(dp.value).tobytes()).hexdigest()[:16] + ":%r:%r" % (float(dp.outlier_prob), float(dp.outlier_prob_not))
                                  for dp in res[sorted(res)[0]]["data"]]
        except Exception:  # noqa - another storage layout: not compared
            run["data_digest"] = None
    return run


def compare(ck, base, other, what):
    rep = {"base": {k: base[k] for k in ("label", "hashseed", "one_core", "delays", "order")}, "other": {k: other[k] for k in ("label", "hashseed", "one_core", "delays", "order")}}
    if sorted(base["chains"]) != sorted(other["chains"]):
        ck.violation("C18|chain_numbers", "runs hold chains %s vs %s (%s)" % (sorted(base["chains"]), sorted(other["chains"]), what), rep)
        return
    if base.get("data_digest") and other.get("data_digest") and base["data_digest"] != other["data_digest"]:
        k = next((i for i, (x, y) in enumerate(zip(base["data_digest"], other["data_digest"])) if x != y), 0)
        ck.violation("C18|loaded_data_differs|%s" % what, "the data points stored with the trace differ between two runs with the same seed (%s): data point %d is not bit-identical" % (what, k), dict(rep, data_point=k))
    for c in sorted(base["chains"]):
        a, b = base["chains"][c], other["chains"][c]
        ck.evaluations += len(a)
        if a != b:
            j = next((i for i, (x, y) in enumerate(zip(a, b)) if x != y), min(len(a), len(b)))
            ck.violation("C18|trace_differs|%s" % what, "chain %d: traces of two runs with the same seed differ from entry %d on (%s): %s vs %s" % (
                c, j, what, a[j] if j < len(a) else None, b[j] if j < len(b) else None), dict(rep, chain=c, entry=j))


def run(corrupt=None):
    ck = Check("C18", level="exploration")
    env.use_repo()
    thorough = ck.tier == "thorough"
    model_runs(ck)
    workdir = env.scratch("c18_runs")
    in_file = os.path.join(workdir, "in.tsv")
    write_input(in_file, 0)
    seed = 11 + ck.seed
    plans = [("base_h0", dict(hashseed=0)), ("h4242_onecore", dict(hashseed=4242, one_core=True)), ("h1_delay_chain0", dict(hashseed=1, delays="0:6,1:0")),
             ("h2_delay_chain1", dict(hashseed=2, delays="0:0,1:6"))]
    runs = [launch(l, workdir, in_file, seed, 2, **kw) for l, kw in plans]
    singles = [launch("single_h0", workdir, in_file, seed, 1, hashseed=0), launch("single_h99", workdir, in_file, seed, 1, hashseed=99, one_core=True)]
    seed0 = [launch("seed0_a", workdir, in_file, 0, 1, hashseed=0), launch("seed0_b", workdir, in_file, 0, 1, hashseed=0)]      # --seed 0 is a seed too
    runs = [collect(r) for r in runs]
    singles = [collect(r) for r in singles]
    seed0 = [collect(r) for r in seed0]
    extra_groups = []
    # --assign-loss-prob: the loss priors are drawn with the main generator before the chains are spawned
    in_assign = os.path.join(workdir, "in_assign.tsv")
    write_input_assign(in_assign)
    grp = [launch("assign_%s" % l, workdir, in_assign, seed + 7, 2, extra=("--assign-loss-prob", "--high-loss-prob", "0.3"), **kw)
           for l, kw in (("h0_delay_chain1", dict(hashseed=0, delays="0:0,1:5")), ("h5_onecore_delay_chain0", dict(hashseed=5, one_core=True, delays="0:5,1:0")))]
    grp1 = [launch("assign1_%s" % l, workdir, in_assign, seed + 8, 1, extra=("--assign-loss-prob", "--high-loss-prob", "0.3"), **kw)
            for l, kw in (("h0", dict(hashseed=0)), ("h31_onecore", dict(hashseed=31, one_core=True)))]
    # chains executed one after the other by ONE worker process vs each in its own: process-global state (memo tables)
    # must not leak from one chain into the next
    in_branch = os.path.join(workdir, "in_branch.tsv")
    write_input_branching(in_branch)
    iters = 150
    grp_sh = [launch_shared("own_process_each", workdir, in_branch, 3, 0, iters), launch_shared("one_worker_runs_all", workdir, in_branch, 3, 80, iters)]
    loader_hashseeds(ck, workdir, thorough)
    loader_large_inputs(ck, workdir, thorough)
    grp_t = [launch_timing("timing_direct_slow", workdir, in_file, seed + 3, "phyclone.tree.utils:_np_conv_dims:0.004:12"),
             launch_timing("timing_fft_slow", workdir, in_file, seed + 3, "phyclone.tree.utils:fft_convolve_two_children:0.004:12")]
    in_six = os.path.join(workdir, "in_six.tsv")
    write_input_six(in_six)
    grp_six = [[launch_shared("six_s%d_own_process_each" % sd, workdir, in_six, sd, 0, 40, chains=2, particles=10, extra=()),
                launch_shared("six_s%d_one_worker_runs_all" % sd, workdir, in_six, sd, 45, 40, chains=2, particles=10, extra=())] for sd in ((7, 8, 9) if thorough else (7, 8))]
    assign_group = [collect(r) for r in grp]
    six_groups = [[collect(r) for r in g] for g in grp_six]
    timing_group = [collect(r) for r in grp_t]
    assign_single = [collect(r) for r in grp1]
    shared_group = [collect(r) for r in grp_sh]
    for r in shared_group:
        r["pids"] = chain_pids(r)
    n_proc = [len(set(r["pids"].values())) for r in shared_group]
    ck.extra["worker_processes_used"] = {r["label"]: n for r, n in zip(shared_group, n_proc)}
    if not (n_proc[0] == 3 and n_proc[1] < 3):
        ck.note("the worker start delays did not produce the intended schedules (processes used: %s): coverage of chains sharing a worker process reduced in this run" % n_proc)
    if thorough:
        for gi, (prop, op) in enumerate((("bootstrap", "0.3"), ("fully-adapted", "0"), ("semi-adapted", "0.3"))):
            grp = [launch("g%d_%s" % (gi, l), workdir, in_file, seed + 1 + gi, 3, extra=("--proposal", prop, "--outlier-prob", op), **kw)
                   for l, kw in (("h0", dict(hashseed=0)), ("h7_onecore", dict(hashseed=7, one_core=True)), ("h3_delayed", dict(hashseed=3, delays="0:7,1:3,2:0")))]
            extra_groups.append([collect(r) for r in grp])
    for grp, what in [(runs, "2 chains")] + [(singles, "1 chain"), (seed0, "1 chain, --seed 0 twice")] + [(assign_group, "2 chains, --assign-loss-prob"), (assign_single, "1 chain, --assign-loss-prob"), (shared_group, "3 chains, one worker process runs them all")] + [(g, "2 chains on 6 mutations, one worker process runs both (#%d)" % gi) for gi, g in enumerate(six_groups)] + [(timing_group, "1 chain, 512-point grid, timing of the convolution routines perturbed")] + [(g, "3 chains") for g in extra_groups]:
        for r in grp:
            if r["rc"] != 0 or "chains" not in r:
                raise RuntimeError("phyclone run failed in the harness (%s): %s" % (r["label"], r["stdout_tail"][-800:]))
        base = grp[0]
        if corrupt == "trace" and what == "2 chains":
            grp[1]["chains"][0][2] = ("x",) + tuple(grp[1]["chains"][0][2][1:])
        for other in grp[1:]:
            pert = "hash seed %s -> %s%s%s" % (base["hashseed"], other["hashseed"], ", one core" if other["one_core"] else "", ", start delays" if other["delays"] else "")
            if "marks" in other:
                pert = "each chain in its own worker process -> one worker process executes several chains"
            if other["label"].startswith("seed0_"):
                pert = "the same run with --seed 0 repeated"
            if other["label"].startswith("timing_"):
                pert = "first calls of the direct convolution routine slowed -> first calls of the FFT routine slowed"
            compare(ck, base, other, pert)
            ck.nontrivial("%s|%s" % (what, pert))
        orders = {tuple(r["order"]) for r in grp}
        ck.extra.setdefault("completion_orders", {})[what] = sorted(list(o) for o in orders)
        if not what.startswith("1 chain") and "one worker" not in what and len(orders) < 2:
            ck.note("the perturbations did not change the completion order for %s (orders %s): scheduling coverage reduced in this run" % (what, sorted(orders)))
        ck.traces_validated += len(grp)
    ck.sample({"run": runs[0]["label"], "completion_order": runs[0]["order"], "chain0_first_entries": runs[0]["chains"][0][:3]})
    shutil.rmtree(workdir, ignore_errors=True)
    ck.rule = ("real `phyclone run` executions with the same seed under 3 perturbation settings (hash seed, CPU affinity, chain start delays reversing completion "
               "order) for 2 chains, 2 settings for 1 chain, 2 settings for a clustered input with --assign-loss-prob (thorough: + 3 proposals x 3 chains); every trace entry of every chain compared bit-for-bit; "
               "non-trivial = each (group, perturbation) comparison")
    ck.assumptions = ["OS scheduling is sampled, not enumerated (the interleavings are exhaustive only in Chains.tla)",
                      "completion order is read from the run's own 'Finished chain' lines",
                      "the data points stored with the trace must be bit-identical across runs too: the trace is a deterministic function of them, and last-bit differences there change log_p_one for generic inputs"]
    if corrupt:
        return ck
    return ck.finish()


def selftest():
    ck = run(corrupt="trace")
    ok = any(v["signature"].startswith("C18|trace_differs") for v in ck.violations)
    print("selftest:", "altered trace entry detected" if ok else "FAILED")
    return 0 if ok else 1


def replay(path):
    body = json.load(open(path))
    print(json.dumps(body["replay"], indent=1)[:2000])
    return 0
