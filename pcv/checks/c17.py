"""C17 - input loading is order-independent and filters exactly as documented.

M: Loader.tla - every table over M mutations x S samples whose cells hold 0-2 rows with major copy number 0/1/2:
   the documented kept set (every sample has exactly one row, with positive major copy number), the
   implementation-shaped count rule, and the flags for the inputs the property excludes (a sample left without any
   usable row; extra rows in one sample offsetting missing rows in another).  TLC checks that on judged tables the
   two rules can differ only where a zero-copy-number row was removed first, and prints every table with its kept set.
O: each judged table is written as a real TSV in 4 row orders (also CSV; optional columns present / absent; with a
   cluster file) and loaded with load_data: kept mutations must be exactly TLC's, named and numbered 0..n-1 in sorted
   identifier order, one likelihood row per sample in sorted sample order, each row equal to the grid of that
   (mutation, sample) row loaded alone, identical bit-for-bit across row orders; defaults as documented;
   major < minor must raise.
"""
import io
import contextlib
import json
import os
import random
import shutil

import numpy as np

from .. import env, tlc, kernels, lossprob
from ..evidence import Check

MUT = {1: "mB", 2: "mA", 3: "mC", 4: "mZ", 5: "m10", 6: "m9", 7: "mD", 8: "mY"}
SAM = {1: "S2", 2: "S10", 3: "S1"}
INT_MUT = {1: "77", 2: "101", 3: "9", 4: "1000", 5: "12", 6: "3", 7: "250", 8: "41"}      # integer-looking mutation ids
CLUSTER_OF = {"mB": 7, "mA": 3, "mC": 3, "mZ": 11, "m10": 7, "m9": 2, "mD": 11, "mY": 5,
              "77": 7, "101": 3, "9": 3, "1000": 11, "12": 7, "3": 2, "250": 11, "41": 5}
MC = "---- MODULE MC_Loader ----\nEXTENDS Loader\nCellsDef == {<<>>, <<1>>, <<2>>, <<0>>, <<1, 1>>, <<1, 0>>}\n====\n"


def tlc_tables(ck, job, M, S):
    cfg = tlc.cfg_text(constants={"M": M, "S": S, "Cells": "<- CellsDef", "FixedTabs": "{}", "Dump": "TRUE"}, invariants=["RulesAgree", "DocIsSubset", "Emit"])
    r = tlc.run_tlc(job, "MC_Loader", cfg, mc_text=MC, timeout=3000)
    tlc.require_ok(r, "Loader")
    ck.add_tlc("Loader.tla M=%d S=%d (all tables, 6 cell contents)" % (M, S), r)
    return r.json_prints


def big_tables(ck, seed):
    """Large tables (8 mutations x 3 samples, more than 16 kept rows) given to Loader.tla as FixedTabs."""
    rnd = random.Random(seed + 21)
    tabs = []
    for _ in range(3):
        cells = {}
        for m in range(1, 9):
            bad = rnd.random() < 0.25
            for s in range(1, 4):
                cells[(m, s)] = [1] if not bad or s != rnd.randint(1, 3) else rnd.choice([[], [0], [1, 1], [1, 0]])
        tabs.append(cells)
    lit = ", ".join("[c \\in (1..8) \\X (1..3) |-> CASE " + " [] ".join("c = <<%d, %d>> -> <<%s>>" % (m, s, ", ".join(str(x) for x in rows)) for (m, s), rows in cells.items()) + "]" for cells in tabs)
    mc = MC.replace("====", "FixedDef == {%s}\n====" % lit)
    cfg = tlc.cfg_text(constants={"M": 8, "S": 3, "Cells": "<- CellsDef", "FixedTabs": "<- FixedDef", "Dump": "TRUE"}, invariants=["RulesAgree", "DocIsSubset", "Emit"])
    r = tlc.run_tlc("c17_big", "MC_Loader", cfg, mc_text=mc, timeout=1500)
    tlc.require_ok(r, "Loader fixed tables")
    ck.add_tlc("Loader.tla on 3 large tables (8 mutations x 3 samples)", r)
    return r.json_prints


def payload(m, s, j, major):
    ref = 20 + 7 * m + 3 * s + 11 * j
    alt = 5 + 2 * m + 5 * s + j
    return {"mutation_id": MUT[m], "sample_id": SAM[s], "ref_counts": ref, "alt_counts": alt, "major_cn": major,
            "minor_cn": min(major, 1), "normal_cn": 2, "tumour_content": [0.8, 1.0, 0.65][s - 1], "error_rate": [0.002, 0.03, 0.0005][(s + m) % 3]}


def rows_of(rec, idx=0):
    rows = []
    for c in sorted(rec["cells"], key=lambda c: (c["m"], c["s"])):
        for j, major in enumerate(c["rows"]):
            # duplicated rows with the same copy number are byte-identical copies in every other table
            exact_copy = (j > 0 and c["rows"][0] == major and (idx + c["m"] + c["s"]) % 2 == 0)
            rows.append(payload(c["m"], c["s"], 0 if exact_copy else j, major))
    return rows


def write_table(path, rows, sep="\t", optional=True, annotate=False):
    cols = ["mutation_id", "sample_id", "ref_counts", "alt_counts", "major_cn", "minor_cn", "normal_cn"] + (["tumour_content", "error_rate"] if optional else [])
    # annotate: two further columns the loader does not use (as annotated variant tables carry), with empty and NA cells
    ann = ["gene", "note"] if annotate else []
    with open(path, "w") as fh:
        fh.write(sep.join(cols + ann) + "\n")
        for r in rows:
            k = (int(r["ref_counts"]) + int(r["alt_counts"])) % 3
            extra = ([("", "NA", "TP53")[k], ("NA", "x", "")[k]] if annotate else [])
            fh.write(sep.join([str(r[c]) for c in cols] + extra) + "\n")


def load(path, cluster_file=None):
    from phyclone.data.pyclone import load_data
    with contextlib.redirect_stdout(io.StringIO()):
        return load_data(path, None, 0.0001, 0.4, False, cluster_file=cluster_file, density="binomial", grid_size=5, outlier_prob=0, precision=400)


_ref_cache = {}


def reference_row(row, d, optional=True):
    """Grid of one (mutation, sample) row loaded alone."""
    key = (json.dumps(row, sort_keys=True), optional)
    if key not in _ref_cache:
        p = os.path.join(d, "single.tsv")
        write_table(p, [row], optional=optional)
        data, samples = load(p)
        _ref_cache[key] = data[0].value[0].copy()
    return _ref_cache[key]


INT_SAM = {1: "2", 2: "10", 3: "1"}      # purely numeric sample ids (read back as text: sorted "1", "10", "2")


def check_table(rec, idx, workdir, seed, corrupt=None, names=None):
    global MUT, SAM
    saved_mut, saved_sam = MUT, SAM
    if names is not None:
        MUT = names
    if idx % 5 == 3 or idx % 10 == 0:       # tab- and comma-separated tables (every 5th table is written as CSV)
        SAM = INT_SAM
    try:
        return _check_table(rec, idx, workdir, seed, corrupt)
    finally:
        MUT, SAM = saved_mut, saved_sam


def _check_table(rec, idx, workdir, seed, corrupt=None):
    probs = []
    if not rec["judged"]:
        return probs
    d = os.path.join(workdir, "t%d_%d" % (os.getpid(), idx))
    os.makedirs(d, exist_ok=True)
    try:
        rows = rows_of(rec, idx)
        if not rows:
            return probs
        kept = sorted(MUT[m] for m in rec["kept"])
        if all(v.isdigit() for v in MUT.values()):
            kept = sorted(kept, key=int)     # integer identifiers are read as numbers: their sorted order is numeric
        if corrupt == "kept" and kept:
            kept = kept[1:]
        samples_sorted = sorted({SAM[c["s"]] for c in rec["cells"]})
        rep = {"cells": rec["cells"], "expected_kept": kept}
        rnd = random.Random(seed + idx)
        orders = [rows, rows[::-1]]
        for _ in range(2):
            r2 = list(rows)
            rnd.shuffle(r2)
            orders.append(r2)
        optional = (idx % 3 != 0)
        sep = "," if idx % 5 == 0 else "\t"
        base = None
        for oi, ro in enumerate(orders):
            p = os.path.join(d, "in_%d.%s" % (oi, "csv" if sep == "," else "tsv"))
            write_table(p, ro, sep=sep, optional=optional, annotate=(idx % 4 == 1))
            try:
                data, samples = load(p)
            except Exception as ex:
                if not kept:
                    break   # a table without any usable mutation cannot be analysed; failing on it is not judged
                probs.append(("C17|exception:%s" % type(ex).__name__, "load_data raised %s: %s on a valid table (row order %d)" % (type(ex).__name__, ex, oi), rep))
                break
            names = [str(dp.name) for dp in data]
            if names != kept:
                extra = sorted(set(names) - set(kept))
                sig = "C17|kept_set"
                if extra and not (set(kept) - set(names)):
                    # which documented drop reason was not applied?
                    cells = {(MUT[c["m"]], c["s"]): c["rows"] for c in rec["cells"]}
                    if all(any(0 in cells[(nm, s)] and len(cells[(nm, s)]) > 1 for s in (1, 2, 3) if (nm, s) in cells) for nm in extra):
                        sig = "C17|kept_set|zero_cn_row_beside_valid_row"
                probs.append((sig, "loaded mutations %s, documented rule keeps %s" % (names, kept), rep))
                break
            if [dp.idx for dp in data] != list(range(len(data))):
                probs.append(("C17|numbering", "data point indices %s" % [dp.idx for dp in data], rep))
            if kept and list(samples) != samples_sorted:
                # purely numeric sample ids: "sorted" may be read as text order or as numeric order - both are accepted
                numeric = all(x.isdigit() for x in samples_sorted)
                if numeric and [str(x) for x in samples] == sorted(samples_sorted, key=int):
                    samples_sorted = [str(x) for x in samples]
                else:
                    probs.append(("C17|sample_order", "samples %s, expected %s" % (list(samples), samples_sorted), rep))
                    break
            cells = {(MUT[c["m"]], SAM[c["s"]]): c for c in rec["cells"]}
            for dp in data:
                dp_name = str(dp.name)
                if dp.value.shape != (len(samples_sorted), 5):
                    probs.append(("C17|shape", "value shape %s for %d samples" % (dp.value.shape, len(samples_sorted)), rep))
                    continue
                for si, sn in enumerate(samples_sorted):
                    c = cells[(dp_name, sn)]
                    j = [k for k, mj in enumerate(c["rows"]) if mj > 0][0]
                    row = payload(c["m"], c["s"], j, c["rows"][j])
                    if not optional:
                        row = dict(row, tumour_content=1.0, error_rate=0.001)    # the documented defaults
                    ref = reference_row(row, d, optional=True)
                    if dp.value[si].shape != ref.shape or not np.allclose(dp.value[si], ref, rtol=0, atol=1e-12):
                        probs.append(("C17|row_value", "likelihood row of %s in sample %s differs from that row loaded alone%s (max dev %.3g)" % (
                            dp_name, sn, "" if optional else " with tumour_content=1.0, error_rate=0.001", float(np.max(np.abs(dp.value[si] - ref)))), rep))
            cur = [(str(dp.name), dp.idx, dp.value.tobytes()) for dp in data]
            if base is None:
                base = cur
            elif cur != base:
                probs.append(("C17|order_dependent", "loaded data differ between row orders 0 and %d" % oi, rep))
        # with a cluster file: data points per cluster, sorted by cluster id, value = sum of the kept members' grids
        if idx % 2 == 0 and base is not None and not probs:
            cf = os.path.join(d, "clusters.tsv")
            present = sorted({r["mutation_id"] for r in rows})
            with open(cf, "w") as fh:
                fh.write("mutation_id\tcluster_id\n")
                for nm in present:
                    fh.write("%s\t%d\n" % (nm, CLUSTER_OF[nm]))
            p = os.path.join(d, "in_c.tsv")
            write_table(p, orders[2], optional=True)
            try:
                data, samples = load(p, cluster_file=cf)
                un, _ = load(p)
                by = {str(dp.name): dp.value for dp in un}
                want = {}
                for nm in kept:
                    want.setdefault(CLUSTER_OF[nm], []).append(nm)
                ids = sorted(want)
                if [dp.name for dp in data] != [str(c) for c in ids] or [dp.idx for dp in data] != list(range(len(ids))):
                    probs.append(("C17|cluster|numbering", "clustered data points %s / idx %s, expected clusters %s numbered from 0" % (
                        [dp.name for dp in data], [dp.idx for dp in data], ids), rep))
                else:
                    for dp, cid in zip(data, ids):
                        s = sum(by[nm] for nm in want[cid])
                        if not np.allclose(dp.value, s, rtol=0, atol=1e-12):
                            probs.append(("C17|cluster|value", "cluster %s is not the sum of its members' grids" % cid, rep))
            except Exception as ex:
                if kept:
                    probs.append(("C17|cluster|exception:%s" % type(ex).__name__, "load_data with a cluster file raised %s: %s" % (type(ex).__name__, ex), rep))
    finally:
        shutil.rmtree(d, ignore_errors=True)
    return probs


def many_samples(ck, workdir):
    """Twelve samples whose names carry numbers of different width (S1 .. S12): likelihood rows and the returned sample list
    in sorted sample order, each row that of its own sample, for three row orders."""
    import numpy as np
    d = os.path.join(workdir, "many_samples")
    os.makedirs(d, exist_ok=True)
    names = ["S%d" % i for i in range(1, 13)]
    rows = []
    for mi, m in enumerate(("mutB", "mutA")):
        for si, sn in enumerate(names):
            rows.append({"mutation_id": m, "sample_id": sn, "ref_counts": 30 + 5 * si + mi, "alt_counts": 3 + si + 2 * mi, "major_cn": 2, "minor_cn": 1, "normal_cn": 2,
                         "tumour_content": 0.9, "error_rate": 0.001})
    rnd = random.Random(5)
    base = None
    for oi in range(3):
        ro = list(rows)
        if oi == 1:
            ro.reverse()
        elif oi == 2:
            rnd.shuffle(ro)
        p = os.path.join(d, "in_%d.tsv" % oi)
        write_table(p, ro, optional=True)
        ck.evaluations += 1
        try:
            data, samples = load(p)
        except Exception as ex:  # noqa
            ck.violation("C17|many_samples|exception:%s" % type(ex).__name__, "load_data raised %s: %s on a table with 12 samples" % (type(ex).__name__, ex), {"samples": names})
            return
        if [str(x) for x in samples] != sorted(names):
            ck.violation("C17|many_samples|sample_order", "12 samples are returned as %s, sorted order is %s" % (list(samples), sorted(names)), {"samples": names})
            return
        if [str(dp.name) for dp in data] != ["mutA", "mutB"]:
            ck.violation("C17|many_samples|kept_set", "loaded mutations %s" % [dp.name for dp in data], {"samples": names})
            return
        for dp in data:
            mi = 0 if dp.name == "mutB" else 1
            for pos, sn in enumerate(sorted(names)):
                si = names.index(sn)
                row = {"mutation_id": dp.name, "sample_id": sn, "ref_counts": 30 + 5 * si + mi, "alt_counts": 3 + si + 2 * mi, "major_cn": 2, "minor_cn": 1, "normal_cn": 2,
                       "tumour_content": 0.9, "error_rate": 0.001}
                ref = reference_row(row, d, optional=True)
                if not np.allclose(dp.value[pos], ref, rtol=0, atol=1e-12):
                    ck.violation("C17|many_samples|row_value", "likelihood row %d of %s is not that of sample %s (sorted position %d of 12 samples)" % (pos, dp.name, sn, pos), {"samples": names})
                    return
        cur = [(str(dp.name), dp.value.tobytes()) for dp in data]
        if base is None:
            base = cur
        elif cur != base:
            ck.violation("C17|many_samples|order_dependent", "12-sample table: loaded data differ between row orders", {"samples": names})
            return
    ck.nontrivial("many_samples")


def run(corrupt=None):
    ck = Check("C17")
    env.use_repo()
    thorough = ck.tier == "thorough"
    recs = tlc_tables(ck, "c17_22", 2, 2)
    if thorough:
        recs += tlc_tables(ck, "c17_32", 3, 2)[::2]
        recs += tlc_tables(ck, "c17_23", 2, 3)[::3]
    else:
        extra = tlc_tables(ck, "c17_32", 3, 2)
        rnd = random.Random(ck.seed)
        recs += rnd.sample([x for x in extra if x["judged"]], 500)
    big = big_tables(ck, ck.seed)
    nsmall = len(recs)
    recs = recs + big + big          # the large tables once with alphabetic, once with integer-looking mutation ids
    workdir = env.scratch("c17_files")
    tasks = list(enumerate(recs))

    def task(arg):
        i, rec = arg
        names = INT_MUT if i >= nsmall + len(big) else None
        return check_table(rec, i, workdir, ck.seed, corrupt if i == next(k for k, r in enumerate(recs) if r["judged"] and r["kept"]) else None, names=names)

    first = next(k for k, r in enumerate(recs) if r["judged"] and r["kept"])
    task(tasks[first])
    for (i, rec), probs in zip(tasks, kernels.parallel_map(task, tasks, chunksize=8)):
        if not rec["judged"]:
            continue
        ck.evaluations += 4
        ck.traces_validated += 1
        for sig, msg, rep in probs:
            ck.violation(sig, msg, rep)
        allm = {c["m"] for c in rec["cells"] if c["rows"]}
        if rec["kept"] and len(rec["kept"]) < len(allm):
            ck.nontrivial(json.dumps(rec["cells"], sort_keys=True))
    # copy-number validation
    d = env.scratch("c17_cn")
    from phyclone.utils.exceptions import MajorCopyNumberError
    row = dict(payload(1, 1, 0, 1), minor_cn=2)
    write_table(os.path.join(d, "bad.tsv"), [row])
    ck.evaluations += 1
    try:
        load(os.path.join(d, "bad.tsv"))
        ck.violation("C17|cn_validation", "a row with major copy number 1 and minor copy number 2 was accepted", {"row": row})
    except MajorCopyNumberError:
        pass
    except Exception as ex:
        ck.violation("C17|cn_validation", "major < minor raised %s instead of MajorCopyNumberError" % type(ex).__name__, {"row": row})
    many_samples(ck, workdir)
    # cluster table + option resolution (LossProb.tla): the loaded data must not depend on the row order of either file
    lossprob.bind(ck, "C17", 96 if thorough else 36, (0, 1, 2, 3, 4, 5) if thorough else (0, 1, 2, 3), ck.seed, want_spec=True, want_order=True)
    shutil.rmtree(workdir, ignore_errors=True)
    j = [r for r in recs if r["judged"] and r["kept"]]
    ck.sample({"cells": j[len(j) // 2]["cells"], "kept": j[len(j) // 2]["kept"]})
    ck.extra["tables_excluded_by_the_property"] = sum(1 for r in recs if not r["judged"])
    ck.rule = ("all 1 296 tables of 2 mutations x 2 samples (cells: no row, one row with major 1/2/0, duplicated row, valid+zero row) and a sample of "
               "3x2 / 2x3 tables, each in 4 row orders, TSV/CSV, optional columns present/absent, every other one also with a cluster file; "
               "non-trivial = judged tables in which at least one mutation is kept and one dropped; plus clustered inputs with per-cluster prior columns / "
               "--assign-loss-prob (instances of LossProb.tla incl. truncal-cluster ties and a Monte-Carlo borderline case) in 4-6 row orders of both files")
    ck.exhaustive = True
    ck.assumptions = ["tables the property excludes (a sample without any usable row; offsetting extra/missing rows) are not judged",
                      "the grid of a row loaded alone is the reference for that row (the emission model itself is C05)"]
    if corrupt:
        return ck
    return ck.finish()


def selftest():
    ck = run(corrupt="kept")
    ok = any(v["signature"].startswith("C17|kept_set") for v in ck.violations)
    print("selftest:", "corrupted kept set detected" if ok else "FAILED")
    return 0 if ok else 1


def replay(path):
    body = json.load(open(path))
    print(json.dumps(body["replay"], indent=1)[:2000])
    return 0
