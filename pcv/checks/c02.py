"""C02 - tree likelihood equals the exact CCF-grid marginal under the sum constraint.

M: GridRec.tla / GridOracle.tla - on every forest over <= N data points TLC proves that the implemented recursion
   (pairwise truncated convolution of children, running sum, product with the clone's own row) equals the
   definitional sum over all feasible CCF-index assignments, per clone and for the virtual root, and prints the
   exact integer vectors.  GridRecPoly.tla evaluates the same recursion over Z[B] (monomial weights c*B^e) so
   that instances with hundreds of orders of magnitude of dynamic range have exact oracles.
O: the same instances as real trees (value = log L; several construction orders; 1-3 samples; per-sample scale
   offsets; grids 3..5, 101 with 10 samples, 999/1000/1001 across the direct/FFT switch):
   Tree.data_log_likelihood must equal log Z - (K+1) log G to 1e-9 wherever the exact value is above the floor,
   never be below it (direct path), and always be finite.
"""
import itertools
import json
import math

import numpy as np

from .. import env, tlc, absstate, gridoracle
from ..evidence import Check

LN10 = math.log(10.0)


def clear_caches():
    from phyclone.tree.utils import compute_log_S, _convolve_two_children
    compute_log_S.cache_clear()
    _convolve_two_children.cache_clear()


def build_variants(key, data):
    """The same abstract tree through different construction histories."""
    from phyclone.tree import Tree

    out = [("bottom_up", absstate.build(key, data))]
    f, o = key
    by = {dp.idx: dp for dp in data}
    # reversed sibling / clade order, empty nodes first then data one by one (exercises add_data_point's += path)
    t = Tree(data[0].grid_size)
    name_of = {}
    for c in sorted(f, key=lambda c: (len(c), sorted(c, reverse=True)), reverse=False):
        subs = [x for x in f if x < c]
        kids = [x for x in subs if not any(x < y for y in subs)]
        node = t.create_root_node(children=[name_of[k] for k in reversed(sorted(kids, key=sorted))], data=[])
        name_of[c] = node
    for c in sorted(f, key=lambda c: -len(c)):
        own = set(c)
        for x in f:
            if x < c:
                own -= x
        for d in sorted(own, reverse=True):
            t.add_data_point_to_node(by[d], name_of[c])
    for d in sorted(o):
        t.add_data_point_to_outliers(by[d])
    out.append(("empty_nodes_then_data", t))
    # dict round trip of the first
    out.append(("from_dict", Tree.from_dict(out[0][1].to_dict())))
    return out


def part_small(ck, n, G, D, seed, corrupt=None):
    tab = gridoracle.int_tables(n, D, G, seed, lo=1, hi=6, dup=[(0, 1)] if n >= 3 else [])
    oracle, r = gridoracle.run_oracle("c02_small", tab, check_def=True)
    ck.add_tlc("GridOracle N=%d G=%d D=%d recursion=definition on every forest" % (n, G, D), r)
    if corrupt == "oracle":
        k0 = [k for k in sorted(oracle, key=absstate.key_str) if len(k[0]) >= 2][-1]
        oracle[k0]["Z"][0][0] += 1
    for offsets in (None, [-(350.0 * i) for i in range(D)]):
        data = gridoracle.data_from_tables(tab)
        if offsets is not None:
            for dp in data:
                dp.value += np.array(offsets)[:, None]
        clear_caches()
        for key in sorted(oracle, key=absstate.key_str):
            if not key[0]:
                continue
            for vname, tree in build_variants(key, data):
                ck.evaluations += 1
                msg = compare_int(tree, key, oracle, G, offsets)
                if msg:
                    ck.violation("C02|small|%s" % ("scaled_samples" if offsets else "plain"),
                                 "%s [%s built %s, G=%d D=%d]" % (msg, absstate.key_str(key), vname, G, D),
                                 {"state": absstate.to_json(key), "tables": tab.tolist(), "offsets": offsets, "variant": vname})
            ck.traces_validated += 1
            if len(key[0]) > 1:
                ck.nontrivial("small:%s:%s" % (absstate.key_str(key), bool(offsets)))
    ck.sample({"part": "small", "state": absstate.to_json(sorted(oracle, key=absstate.key_str)[-1]), "Z": oracle[sorted(oracle, key=absstate.key_str)[-1]]["Z"]})


def part_histories(ck, n, G, D, seed, nwalks, steps):
    """Edit histories on live objects (in-place walks through the samplers' edit grammar; a pruned subtree grafted into
    several trees that all stay alive, as the prune-regraft sampler builds them): after every step the root vector and
    every clone's vector of every live tree must equal TLC's exact grid marginal of the forest the tree then represents -
    also the trees that were NOT edited in that step."""
    from .. import treeadt
    from phyclone.tree import FSCRPDistribution, TreeJointDistribution

    tab = gridoracle.int_tables(n, D, G, seed + 31, lo=1, hi=6)
    oracle, r = gridoracle.run_oracle("c02_hist", tab, check_def=False)
    ck.add_tlc("GridOracle N=%d G=%d D=%d for edit histories" % (n, G, D), r)
    data = gridoracle.data_from_tables(tab, outlier_prob=0.2)
    rs = np.random.RandomState(seed + 5)
    clear_caches()
    nsteps = 0
    for w in range(nwalks):
        edges, issues = treeadt.walk(data, list(range(n)), steps, rs, TreeJointDistribution(FSCRPDistribution(0.9)), oracle=oracle)
        nsteps += len(edges)
        for kind, it in issues:
            if kind in ("stale", "inconsistent"):
                ck.violation("C02|history|%s|%s" % (kind, it["act"]["name"]), "after %s the vectors of a live tree (%s) are not the exact grid marginal of the forest it represents: %s" % (
                    json.dumps(it["act"]), it.get("obj", "edited tree"), it["error"]), {"step": it.get("step"), "act": it["act"], "src": it.get("src")})
                break
            if kind == "exception" and "/phyclone/" in it.get("error", ""):
                ck.violation("C02|history|exception", "edit %s raised %s" % (json.dumps(it["act"]), it["error"]), {"act": it["act"]})
                break
    ck.evaluations += nsteps
    ck.traces_validated += nwalks
    ck.nontrivial("histories:%d" % n)
    ck.extra["history_steps"] = nsteps
    graft_then_edit(ck, oracle, data, n, G)


def graft_then_edit(ck, oracle, data, n, G):
    """Directed histories (what a prune-regraft move followed by a data-point move does): every forest on n-1 of the n data
    points, every clone's subtree cut out and re-attached below every other clone / at the top, WITHOUT a whole-tree
    refresh, and then the remaining data point added to - and removed again from - every clone in place.  After every
    step the vectors of the edited tree must be the exact grid marginal (TLC) of the forest it then represents."""
    by = {dp.idx: dp for dp in data}
    extra = by[n - 1]
    keys = sorted((k for k in oracle if absstate.data_ids(k) == set(range(n - 1)) and not k[1] and len(k[0]) >= 2), key=absstate.key_str)
    nsteps = 0
    for key in keys:
        base = absstate.build(key, data)
        _, conc = absstate.project(base, full=False)
        for v in conc["names"]:
            inside = {m for m in conc["names"] if conc["clade"][m] <= conc["clade"][v]}
            for target in [None] + [m for m in conc["names"] if m not in inside]:
                if target == conc["par"].get(v) or (target is None and conc["par"].get(v) == base._ROOT_NODE_NAME):
                    continue
                ctx = {"state": absstate.to_json(key), "cut": sorted(conc["clade"][v]), "below": (sorted(conc["clade"][target]) if target is not None else None)}
                try:
                    t = base.copy()
                    sub = t.get_subtree(v)
                    t.remove_subtree(sub)
                    t.add_subtree(sub, parent=target)
                    steps = [("re-attached", t)]
                    msg = gridoracle.compare_tree(t, oracle, G)
                    nsteps += 1
                    if msg is None:
                        _, c2 = absstate.project(t, full=False)
                        for m in c2["names"]:
                            t2 = t.copy()
                            t2.add_data_point_to_node(extra, m)
                            nsteps += 1
                            msg = gridoracle.compare_tree(t2, oracle, G)
                            if msg:
                                ctx["then"] = "data point %d added to clone %s" % (extra.idx, sorted(c2["clade"][m]))
                                break
                            t2.remove_data_point_from_node(extra, m)
                            nsteps += 1
                            msg = gridoracle.compare_tree(t2, oracle, G)
                            if msg:
                                ctx["then"] = "data point %d added to clone %s and removed again" % (extra.idx, sorted(c2["clade"][m]))
                                break
                except absstate.Inconsistent as ex:
                    msg = "malformed tree: %s" % ex
                except Exception as ex:  # noqa
                    import traceback
                    if not any("/phyclone/" in f.filename for f in traceback.extract_tb(ex.__traceback__)):
                        raise
                    msg = "%s: %s" % (type(ex).__name__, ex)
                if msg:
                    ck.violation("C02|graft_then_edit|stale", "forest %s, subtree of clone %s re-attached below %s%s: %s" % (
                        absstate.key_str(key), ctx["cut"], ctx["below"] if ctx["below"] is not None else "the root", (", then " + ctx["then"]) if "then" in ctx else "", msg), ctx)
        ck.nontrivial("graft_then_edit:" + absstate.key_str(key))
    ck.evaluations += nsteps
    ck.extra["graft_then_edit_steps"] = nsteps


def compare_int(tree, key, oracle, G, offsets=None, tol=1e-9):
    o = oracle[key]
    K = len(key[0])
    ndata = len(set().union(*key[0])) if key[0] else 0
    got = tree.data_log_likelihood
    want = np.log(np.array(o["Z"], dtype=float)) - (K + 1) * math.log(G)
    if offsets is not None:
        want = want + np.array(offsets)[:, None] * ndata
    if got.shape != want.shape:
        return "data_log_likelihood has shape %s, expected %s" % (got.shape, want.shape)
    if not np.all(np.isfinite(got)):
        return "data_log_likelihood is not finite"
    dev = float(np.max(np.abs(got - want)))
    if dev > tol * (1 + float(np.max(np.abs(want)))):
        i, k = np.unravel_index(np.argmax(np.abs(got - want)), got.shape)
        return "data_log_likelihood[%d,%d] = %.12g, exact marginal %.12g (dev %.3g)" % (i, k, got[i, k], want[i, k], dev)
    return None


# ------------------------------------------------------------------------------------------------ polynomial weights
def poly_tab_txt(tab):
    return "<<" + ", ".join("<<" + ", ".join("<<" + ", ".join("<<%d, %d>>" % (c, e) for (c, e) in row) + ">>" for row in dp) + ">>" for dp in tab) + ">>"


def poly_log(coeffs, m):
    """log( sum_j c_j * 10^(-m j) ) exactly (big integers)."""
    E = len(coeffs) - 1
    num = sum(int(c) * 10 ** (m * (E - j)) for j, c in enumerate(coeffs))
    if num <= 0:
        return float("-inf")
    return math.log(num) - m * E * LN10


def run_poly(job, n, G, E, tab, outl=False, workers=4):
    mc = "---- MODULE MC_Poly ----\nEXTENDS PolyOracle\nLDef == %s\n====\n" % poly_tab_txt(tab)
    cfg = tlc.cfg_text(constants={"N": n, "G": G, "E": E, "OutliersOn": tlc.tla_bool(outl), "L": "<- LDef"}, invariants=["DegreeFits", "Emit"])
    r = tlc.run_tlc(job, "MC_Poly", cfg, mc_text=mc, workers=workers, timeout=3000)
    tlc.require_ok(r, "PolyOracle")
    out = {}
    for rec in r.json_prints:
        out[absstate.canon(rec["st"])] = {"Z": rec["Z"], "R": {frozenset(x["c"]): x["r"] for x in rec["R"]}}
    return out, r


def part_poly(ck, n, G, D, m, seed, maxe, label, fft=False, tab=None):
    """Monomial weights c*B^e with B = 10^-m; the tree has D identical sample rows (TLC computes one)."""
    from phyclone.data.base import DataPoint

    rs = np.random.RandomState(777 + seed + G)
    if tab is None:
        tab = [[[(int(rs.randint(1, 4)), int(rs.randint(0, maxe + 1))) for k in range(G)]] for d in range(n)]
    E = sum(max(e for (_, e) in tab[d][0]) for d in range(n))
    oracle, r = run_poly("c02_poly_%s" % label, n, G, E, tab)
    ck.add_tlc("PolyOracle N=%d G=%d E=%d (B=1e-%d) %s" % (n, G, E, m, label), r)
    data = []
    for d in range(n):
        row = np.array([math.log(c) - e * m * LN10 for (c, e) in tab[d][0]])
        data.append(DataPoint(d, np.ascontiguousarray(np.tile(row, (D, 1)))))
    rowmax = [max(math.log(c) - e * m * LN10 for (c, e) in tab[d][0]) for d in range(n)]
    clear_caches()
    for key in sorted(oracle, key=absstate.key_str):
        if not key[0]:
            continue
        tree = absstate.build(key, data)
        K = len(key[0])
        got = tree.data_log_likelihood
        ck.evaluations += 1
        ck.traces_validated += 1
        ck.nontrivial("poly:%s:%s" % (label, absstate.key_str(key)))
        rep = {"state": absstate.to_json(key), "tab": tab, "m": m, "G": G, "D": D, "label": label}
        if got.shape != (D, G) or not np.all(np.isfinite(got)):
            ck.violation("C02|poly|%s|not_finite" % label, "data_log_likelihood not finite / wrong shape for %s" % absstate.key_str(key), rep)
            continue
        exact = np.array([poly_log(z, m) for z in oracle[key]["Z"]]) - (K + 1) * math.log(G)
        # the property's floor: 1e-100 of the children's peak product - for the virtual root the product of the exact
        # peaks of the top-level clones' vectors (TLC's exact polynomials); 5 nats of margin
        roots = [c for c in key[0] if not any(c < d for d in key[0])]
        peak_prod = 0.0
        for c in roots:
            size_c = sum(1 for x in key[0] if x <= c)
            peak_prod += max(poly_log(z, m) for z in oracle[key]["R"][c]) - size_c * math.log(G)
        ub = peak_prod - math.log(G) + 5.0
        peak = float(np.max(exact))
        for i in range(D):
            for k in range(G):
                ex, g = exact[k], got[i, k]
                if fft:
                    if ex >= peak + math.log(1e-6):
                        if abs(g - ex) > 1e-5:
                            ck.violation("C02|poly|%s|fft_entry" % label, "FFT path: entry [%d,%d] = %.10g, exact %.10g (%s)" % (i, k, g, ex, absstate.key_str(key)), rep)
                            break
                    continue
                if ex >= ub - 225.0:
                    if abs(g - ex) > 1e-9 * (1 + abs(ex)):
                        ck.violation("C02|poly|%s|entry" % label, "entry [%d,%d] = %.12g, exact marginal %.12g, which is %.3g of the children's peak-product bound (%s)" % (
                            i, k, g, ex, math.exp(ex - ub), absstate.key_str(key)), rep)
                        break
                elif g < ex - 1e-3:
                    ck.violation("C02|poly|%s|below_exact" % label, "entry [%d,%d] = %.12g is below the exact marginal %.12g (%s)" % (i, k, g, ex, absstate.key_str(key)), rep)
                    break
    ck.sample({"part": "poly", "label": label, "G": G, "D": D, "B": "1e-%d" % m, "first_row": tab[0][0][:6]})


# ------------------------------------------------------------------------------------------------ large grids
def part_large(ck, G, seed):
    """Integer tables on grids around the direct/FFT switch; TLC evaluates the (proved) recursion exactly."""
    n = 3
    rs = np.random.RandomState(99 + seed + G)
    tab = rs.randint(1, 3, size=(n, 1, G))
    mc = ("---- MODULE MC_Large ----\nEXTENDS GridRec, Json\nLDef == %s\n"
          "Shapes == {{{0}, {1}}, {{0, 1}, {0}}, {{0}, {1}, {2}}, {{0, 1, 2}, {0}, {1}}, {{0, 1, 2}, {0, 1}, {0}}}\n"
          "ASSUME \\A F \\in Shapes : PrintT(ToJson([f |-> F, Z |-> ZRecT(F, LDef, 1, %d)]))\n"
          "VARIABLE x\nInit == x = 0\nNext == UNCHANGED x\n====\n") % (gridoracle.tla_tab(tab), G)
    r = tlc.run_tlc("c02_large_%d" % G, "MC_Large", tlc.cfg_text(), mc_text=mc, workers=1, timeout=1500)
    tlc.require_ok(r, "large grid %d" % G)
    ck.add_tlc("GridRec recursion on G=%d (5 shapes)" % G, r)
    data = gridoracle.data_from_tables(tab)
    clear_caches()
    for rec in r.json_prints:
        key = absstate.canon({"f": rec["f"], "o": []})
        K = len(key[0])
        tree = absstate.build(key, data)
        got = tree.data_log_likelihood[0]
        exact = np.log(np.array(rec["Z"], dtype=float)) - (K + 1) * math.log(G)
        ck.evaluations += 1
        ck.traces_validated += 1
        ck.nontrivial("large:%d:%s" % (G, absstate.key_str(key)))
        rep = {"state": absstate.to_json(key), "G": G, "tab_seed": 99 + seed + G}
        if not np.all(np.isfinite(got)):
            ck.violation("C02|large|G=%d|not_finite" % G, "not finite on %s" % absstate.key_str(key), rep)
            continue
        if G >= 1000:
            mask = exact >= np.max(exact) + math.log(1e-6)
            dev = float(np.max(np.abs(got - exact)[mask]))
            tol = 1e-5
        else:
            dev = float(np.max(np.abs(got - exact)))
            tol = 1e-9 * (1 + float(np.max(np.abs(exact))))
        if dev > tol:
            ck.violation("C02|large|G=%d|entry" % G, "G=%d %s: max deviation %.3g from the exact marginal (%s path)" % (
                G, absstate.key_str(key), dev, "FFT" if G >= 1000 else "direct"), rep)


def part_many_children(ck, seed):
    """Clones (and the virtual root) with 6-9 children - more than any forest on 5 points has: stars of top-level clones
    and one clone above many children, TLC evaluating the proved recursion exactly (GridRec.tla) on a 4-point grid."""
    G = 4
    n = 10
    rs = np.random.RandomState(31 + seed)
    tab = rs.randint(1, 6, size=(n, 1, G))
    shapes = []
    for k in (6, 7, 9):
        shapes.append([[i] for i in range(k)])                                   # k top-level clones
    for k in (6, 7, 8):
        shapes.append([list(range(k + 1))] + [[i] for i in range(1, k + 1)])      # clone 0 above k children
    shapes.append([list(range(10)), [1, 2, 3, 4, 5, 6, 7], [2], [3], [4], [5], [6], [7], [8], [9]])   # 3 children, one of them with 6
    tla_shapes = ", ".join("{%s}" % ", ".join("{%s}" % ", ".join(map(str, c)) for c in f) for f in shapes)
    mc = ("---- MODULE MC_Many ----\nEXTENDS GridRec, Json\nLDef == %s\nShapes == {%s}\n"
          "ASSUME \\A F \\in Shapes : PrintT(ToJson([f |-> F, Z |-> ZRecT(F, LDef, 1, %d)]))\n"
          "VARIABLE x\nInit == x = 0\nNext == UNCHANGED x\n====\n") % (gridoracle.tla_tab(tab), tla_shapes, G)
    r = tlc.run_tlc("c02_many", "MC_Many", tlc.cfg_text(), mc_text=mc, workers=1, timeout=1500)
    tlc.require_ok(r, "many children")
    ck.add_tlc("GridRec recursion on %d shapes with 6-9 children per node (G=%d)" % (len(shapes), G), r)
    data = gridoracle.data_from_tables(tab)
    clear_caches()
    for rec in r.json_prints:
        key = absstate.canon({"f": rec["f"], "o": []})
        ids = sorted(absstate.data_ids(key))
        K = len(key[0])
        tree = absstate.build(key, [dp for dp in data if dp.idx in ids])
        got = tree.data_log_likelihood[0]
        exact = np.log(np.array(rec["Z"], dtype=float)) - (K + 1) * math.log(G)
        ck.evaluations += 1
        ck.traces_validated += 1
        ck.nontrivial("many:%s" % absstate.key_str(key))
        if not np.all(np.isfinite(got)) or float(np.max(np.abs(got - exact))) > 1e-9 * (1 + float(np.max(np.abs(exact)))):
            ck.violation("C02|many_children|entry", "%s (a node with %d children): root vector deviates from the exact marginal by %.3g" % (
                absstate.key_str(key), max(len([c for c in key[0] if c < p and not any(c < q < p for q in key[0])]) for p in list(key[0]) + [frozenset(range(100))]),
                float(np.max(np.abs(got - exact)))), {"state": absstate.to_json(key), "tab_seed": 31 + seed})


def run(corrupt=None):
    ck = Check("C02")
    env.use_repo()
    thorough = ck.tier == "thorough"
    seed = ck.seed
    if thorough:
        part_small(ck, 4, 4, 3, seed, corrupt)
        part_small(ck, 5, 3, 1, seed + 1)
        part_small(ck, 3, 6, 2, seed + 2)
    else:
        part_small(ck, 4, 4, 2, seed, corrupt)
    part_histories(ck, 4, 4, 2, seed, (60 if thorough else 25), 60)
    # wide dynamic range, direct path
    part_poly(ck, 3, 5, 2, 40, seed, 2, "G5_B1e-40")
    part_poly(ck, 3, 4, 1, 12, seed, 3, "G4_B1e-12")
    # a parent whose own data favour the lowest grid point by 276 nats above two children that need the upper points:
    # convolution entries between 1e-308 and 1e-100 of the children's peak decide the parent's (and the root's) vector
    steep = [[[(1, 0), (1, 3), (1, 3), (1, 3), (1, 3)]], [[(1, 3), (1, 3), (2, 0), (1, 0), (3, 0)]], [[(1, 3), (2, 3), (1, 0), (2, 0), (1, 0)]]]
    part_poly(ck, 3, 5, 2, 40, seed, 3, "steep_parent_B1e-40", tab=steep)
    part_many_children(ck, seed)
    # grid < 1000 but samples*grid >= 1000: still the direct path
    part_poly(ck, 2, 101, 10, 30, seed, 2, "G101xD10_B1e-30")
    if thorough:
        part_poly(ck, 3, 6, 3, 60, seed + 1, 2, "G6_B1e-60")
        part_poly(ck, 2, 999, 2, 20, seed, 1, "G999_B1e-20")
        part_poly(ck, 2, 1000, 1, 3, seed, 1, "G1000_B1e-3_fft", fft=True)
    # FFT path with rows spanning more than 745 nats (B = 1e-400): single-child and two-child shapes must stay finite
    part_poly(ck, 2, 1000, 1, 400, seed, 1, "G1000_B1e-400_fft", fft=True)
    # 1011 and 1201 points: grid sizes whose FFT length (next fast length of 2G-1) is odd
    for G in ((999, 1000, 1001, 1011, 1201) if thorough else (999, 1000, 1011)):
        part_large(ck, G, seed)
    ck.rule = ("every forest on <= 4-5 data points (TLC-enumerated, brute-force definition checked) built through 3 construction histories, "
               "plain and with per-sample scale offsets; monomial-weight instances with B = 1e-12..1e-60; grids 101x10 samples and "
               "999/1000/1001; non-trivial = forests with > 1 clone / every wide-range and large-grid instance")
    ck.assumptions = ["comparison zones: agreement 1e-9 where exact >= (upper bound of the children's peak product) * e^-225; below that "
                      "only finiteness and 'not below exact' (direct path); FFT path (G >= 1000): entries >= 1e-6 of the row peak at 1e-5",
                      "polynomial oracle evaluated at B = 10^-m with exact big-integer arithmetic by the harness"]
    if corrupt:
        return ck
    return ck.finish()


def selftest():
    ck = run(corrupt="oracle")
    ok = any(v["signature"].startswith("C02|small") for v in ck.violations)
    print("selftest:", "corrupted oracle value detected" if ok else "FAILED")
    return 0 if ok else 1


def replay(path):
    body = json.load(open(path))
    print(json.dumps(body["replay"], indent=1)[:2000])
    return 0
