"""C11 - trace summaries pick the true maximum and count topologies exactly.

M: SummariesMap.tla - every trace of <= 2 (thorough: 3) chains in any completion order x <= 2 entries over all forests on
   2 data points with integer score multipliers (ties included): the implementation-shaped single scan (strict '>'
   arg-max; dictionary keyed by tree identity) is run one entry per step and at the end satisfies the definitions
   (MAP entry attains the global maximum; one row per distinct forest with exact count, maximum and an attaining
   pointer; counts sum to the number of entries).  TLC prints the admissible outputs of every trace.
O: every printed trace is written as a real gzip-pickle trace (tree dicts from real trees incl. relabelled copies,
   log_p_one = log m, chains inserted in the trace's completion order) and run through write_map_results (both
   modes) and write_topology_report (with archive, top_trees 1 / 2 / all); outputs are parsed back (table + Newick
   -> clades) and compared with TLC's admissible sets.
"""
import json
import math
import os
import random
import shutil

from .. import env, tlc, absstate, kernels, outputs
from ..evidence import Check


def tla_state(key):
    f, o = key
    return "[f |-> {%s}, o |-> {%s}]" % (", ".join("{%s}" % ", ".join(str(d) for d in sorted(c)) for c in sorted(f, key=sorted)), ", ".join(str(d) for d in sorted(o)))


def tla_trace(chains):
    """chains: list of (num, [(key, mult)...]) -> TLA+ literal of a trace."""
    return "<<" + ", ".join("[num |-> %d, entries |-> <<%s>>]" % (num, ", ".join("[t |-> %s, m |-> %d]" % (tla_state(k), m) for k, m in ents)) for num, ents in chains) + ">>"


def long_traces(ck, seed):
    """A few long traces over the forests on 3 points (>= 11 distinct trees, ties, two chains finishing out of order),
    given to SummariesMap as FixedTraces so that TLC scans them and prints their admissible outputs."""
    rs = random.Random(seed + 77)
    r0 = tlc.run_tlc("c11_universe", "Density", tlc.cfg_text(constants={"N": 3, "OutliersOn": "TRUE", "Dump": "TRUE", "Starts": "{}"}, invariants=["FeatConsistent", "Emit"]), timeout=600)
    tlc.require_ok(r0, "forest universe")
    forests = [absstate.canon(x["st"]) for x in r0.json_prints if absstate.data_ids(absstate.canon(x["st"])) == {0, 1, 2}]
    forests.sort(key=absstate.key_str)
    traces = []
    pick = rs.sample(forests, 14)
    traces.append([(0, [(k, rs.randint(1, 40)) for k in pick])])
    pick = rs.sample(forests, 12)
    traces.append([(1, [(k, rs.randint(1, 6)) for k in pick[:7]] + [(pick[0], 9)]), (0, [(k, rs.randint(1, 6)) for k in pick[5:]] + [(pick[1], 3), (pick[1], 9)])])
    pick = rs.sample(forests, 11)
    traces.append([(0, [(k, 5) for k in pick] + [(pick[3], 5), (pick[3], 5)])])
    mc = "---- MODULE MC_SumMap ----\nEXTENDS SummariesMap\nFixedDef == {%s}\n====\n" % ", ".join(tla_trace(t) for t in traces)
    cfg = tlc.cfg_text(constants={"N": 3, "OutliersOn": "TRUE", "MaxChains": 1, "MaxEntries": 1, "MaxMult": 1, "Dump": "TRUE", "FixedTraces": "<- FixedDef"},
                       invariants=["MapCorrect", "TopoCorrect", "CountsSum", "Emit"])
    r = tlc.run_tlc("c11_long", "MC_SumMap", cfg, mc_text=mc, timeout=1500)
    tlc.require_ok(r, "SummariesMap fixed traces")
    ck.add_tlc("SummariesMap on 3 long traces over the forests on 3 points (>= 11 distinct trees)", r)
    return r.json_prints


def tlc_traces(ck, job, n, outl, chains, entries, mult, timeout=3000):
    cfg = tlc.cfg_text(constants={"N": n, "OutliersOn": tlc.tla_bool(outl), "MaxChains": chains, "MaxEntries": entries, "MaxMult": mult, "Dump": "TRUE", "FixedTraces": "{}"},
                       invariants=["MapCorrect", "TopoCorrect", "CountsSum", "Emit"])
    r = tlc.run_tlc(job, "SummariesMap", cfg, timeout=timeout)
    tlc.require_ok(r, "SummariesMap")
    ck.add_tlc("SummariesMap N=%d outl=%d chains<=%d entries<=%d mult<=%d" % (n, outl, chains, entries, mult), r)
    return r.json_prints


def check_trace(orc, idx, n, workdir, corrupt=None, tops=None):
    """Materialise one oracle trace, run the commands, compare. Returns list of (signature, message, replay)."""
    from phyclone.process_trace import write_map_results, write_topology_report
    from .. import gridoracle
    import contextlib, io
    import pandas as pd

    probs = []
    tab = gridoracle.int_tables(n, 1, 5, 3)
    names = ["m%d" % i for i in range(n)]
    data = gridoracle.data_from_tables(tab, outlier_prob=0.2, names=names)
    name_to_idx = {nm: i for i, nm in enumerate(names)}
    # one directory per worker process, re-used for every trace that worker handles: the trace file is re-written at the
    # SAME path again and again (as a long-lived driver does) and each command must summarise what the file holds now
    d = os.path.join(workdir, "t%d" % os.getpid())
    os.makedirs(d, exist_ok=True)
    for stale in os.listdir(d):
        os.remove(os.path.join(d, stale))
    chains = []
    v = idx
    for ch in orc["trace"]:
        ents = []
        for e in ch["entries"]:
            v += 1
            ents.append((absstate.canon(e["t"]), math.log(e["m"]) - 3.25, v))
        chains.append((ch["num"], ents))
    trace_path = os.path.join(d, "trace.pkl.gz")
    outputs.write_trace_file(trace_path, chains, data, ["s0"])
    rep = {"trace": orc["trace"]}
    sink = io.StringIO()
    try:
        for mode, adm in (("joint-likelihood", orc["map_trees"]), ("frequency", orc["freq_trees"])):
            tp, np_ = os.path.join(d, "map.tsv"), os.path.join(d, "map.nwk")
            with contextlib.redirect_stdout(sink):
                write_map_results(trace_path, tp, np_, map_type=mode)
            key, _, pr, _ = outputs.tree_from_outputs(outputs.read_table(tp), open(np_).read(), name_to_idx)
            for m in pr:
                probs.append(("C11|map|malformed_output", m, rep))
            admissible = {absstate.canon(t) for t in adm}
            if corrupt == "map" and idx == 0:
                admissible = set()
            if key not in admissible:
                probs.append(("C11|map|%s" % mode, "%s MAP returned %s, admissible: %s" % (mode, absstate.key_str(key), [absstate.key_str(k) for k in admissible]), rep))
        top = (1, 2, float("inf"))[idx % 3] if tops is None else tops[idx % len(tops)]
        rp, ap = os.path.join(d, "report.tsv"), os.path.join(d, "arch.tar.gz")
        with contextlib.redirect_stdout(sink):
            write_topology_report(trace_path, rp, topologies_archive=ap, top_trees=top)
        df = pd.read_csv(rp, sep="\t")
        rows = {absstate.canon(r["t"]): r for r in orc["rows"]}
        by_num = {ch["num"]: ch for ch in orc["trace"]}
        seen = {}
        total = 0
        for _, row in df.iterrows():
            ch, it = int(row["chain_num"]), int(row["iter"])
            if ch not in by_num or not (0 <= it < len(by_num[ch]["entries"])):
                probs.append(("C11|report|pointer", "row %s points to chain %d entry %d which does not exist" % (row["topology_id"], ch, it), rep))
                continue
            e = by_num[ch]["entries"][it]
            key = absstate.canon(e["t"])
            if key in seen:
                probs.append(("C11|report|duplicate_row", "two rows (%s, %s) for the same tree %s" % (seen[key], row["topology_id"], absstate.key_str(key)), rep))
            seen[key] = row["topology_id"]
            want = rows.get(key)
            total += int(row["count"])
            if want is None:
                continue
            if int(row["count"]) != want["count"]:
                probs.append(("C11|report|count", "tree %s: count %d, the trace holds it %d times" % (absstate.key_str(key), int(row["count"]), want["count"]), rep))
            exp_score = math.log(want["max"]) - 3.25
            if abs(float(row["log_p_joint_max"]) - exp_score) > 1e-12:
                probs.append(("C11|report|score", "tree %s: reported score %.12g, maximum over its entries %.12g" % (absstate.key_str(key), float(row["log_p_joint_max"]), exp_score), rep))
            if [ch, it] not in [list(p) for p in want["pointers"]]:
                probs.append(("C11|report|pointer", "tree %s: pointer (chain %d, entry %d) does not attain its maximum (admissible %s)" % (absstate.key_str(key), ch, it, want["pointers"]), rep))
        if set(seen) != set(rows):
            probs.append(("C11|report|rows", "report has rows for %d trees, the trace holds %d distinct trees" % (len(seen), len(rows)), rep))
        n_entries = sum(len(ch["entries"]) for ch in orc["trace"])
        if total != n_entries:
            probs.append(("C11|report|count_sum", "counts sum to %d, the trace has %d entries" % (total, n_entries), rep))
        scores = [float(x) for x in df["log_p_joint_max"]]
        if any(scores[i] < scores[i + 1] - 1e-15 for i in range(len(scores) - 1)) or list(df["topology_id"]) != ["t_%d" % i for i in range(len(df))]:
            probs.append(("C11|report|rank", "rows are not ranked by score: %s / %s" % (scores, list(df["topology_id"])), rep))
        # archive: exactly the requested top-ranked topologies, each matching its row's tree
        arch = outputs.read_archive(ap)
        want_ids = ["t_%d" % i for i in range(len(df)) if i < top]
        if sorted(arch) != sorted(want_ids):
            probs.append(("C11|archive|membership", "archive holds %s, requested top %s of %d -> %s" % (sorted(arch), top, len(df), want_ids), rep))
        for tid, (tb, nw) in arch.items():
            if tb is None or nw is None:
                probs.append(("C11|archive|incomplete", "archive entry %s lacks table or tree" % tid, rep))
                continue
            key, _, pr, _ = outputs.tree_from_outputs(tb, nw, name_to_idx)
            rowk = [k for k, v_ in seen.items() if v_ == tid]
            if rowk and key != rowk[0]:
                probs.append(("C11|archive|tree", "archive entry %s holds %s, its report row is %s" % (tid, absstate.key_str(key), absstate.key_str(rowk[0])), rep))
    except outputs.OutputError as ex:
        probs.append(("C11|malformed_output", str(ex), rep))
    except Exception as ex:
        probs.append(("C11|exception:%s" % type(ex).__name__, "%s: %s" % (type(ex).__name__, ex), rep))
    finally:
        shutil.rmtree(d, ignore_errors=True)
    return probs


def run(corrupt=None):
    ck = Check("C11")
    env.use_repo()
    thorough = ck.tier == "thorough"
    n = 2
    oracles = tlc_traces(ck, "c11_a", n, False, 2, 2, 2)
    if thorough:
        oracles += tlc_traces(ck, "c11_b", n, True, 2, 2, 1)
        oracles += tlc_traces(ck, "c11_c", n, False, 3, 1, 2)
    rnd = random.Random(ck.seed)
    if not thorough:
        multi = [o for o in oracles if len(o["trace"]) > 1 and len(o["rows"]) > 1]
        single = [o for o in oracles if len(o["trace"]) == 1]
        oracles = rnd.sample(multi, min(900, len(multi))) + rnd.sample(single, min(100, len(single)))
    # forests with outliers stored in different orders; long traces
    outl_oracles = tlc_traces(ck, "c11_outl", 2, True, 1, 3, 1)
    long_oracles = long_traces(ck, ck.seed)
    workdir = env.scratch("c11_files")
    tasks = [(i, o, 2, None) for i, o in enumerate(oracles)] + [(i, o, 2, None) for i, o in enumerate(outl_oracles)] + \
            [(i, o, 3, (3, 11, 3)) for i, o in enumerate(long_oracles)]
    oracles = [t[1] for t in tasks]

    def task(arg):
        i, o, nn, tops = arg
        return check_trace(o, i, nn, workdir, corrupt, tops)

    task(tasks[0])
    results = kernels.parallel_map(task, tasks, chunksize=8)
    for (i, o, _nn, _tops), probs in zip(tasks, results):
        ck.evaluations += 3
        ck.traces_validated += 1
        for sig, msg, rep in probs:
            ck.violation(sig, msg, rep)
        if len(o["rows"]) > 1 or len(o["trace"]) > 1:
            ck.nontrivial(json.dumps(o["trace"], sort_keys=True))
    shutil.rmtree(workdir, ignore_errors=True)
    ck.sample({"trace": oracles[0]["trace"], "map_trees": oracles[0]["map_trees"], "rows": oracles[0]["rows"]})
    ck.rule = ("traces enumerated by TLC (<= 2-3 chains in every completion order, <= 2 entries, all forests on 2 points, score multipliers 1..2); "
               "quick tier: seeded sample of 1000 of them; non-trivial = multi-chain traces or traces with > 1 distinct tree")
    ck.exhaustive = thorough
    ck.assumptions = ["tree identity of a report row is taken through its chain/entry pointer (the report lists Newick labels only)",
                      "scores are log m - 3.25 for integer m so ties are exact"]
    if corrupt:
        return ck
    return ck.finish()


def selftest():
    ck = run(corrupt="map")
    ok = any(v["signature"].startswith("C11|map|") for v in ck.violations)
    print("selftest:", "emptied admissible set detected" if ok else "FAILED")
    return 0 if ok else 1


def replay(path):
    body = json.load(open(path))
    env.use_repo()
    probs = check_trace({"trace": body["replay"]["trace"], "map_trees": [], "freq_trees": [], "rows": []}, 1, 2, env.scratch("c11_replay"))
    for p in probs[:5]:
        print("REPLAY:", p[0], p[1][:300])
    return 0
