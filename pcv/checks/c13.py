"""C13 - the concentration update is an exact Gibbs step for the CRP concentration.

M: Concentration.tla - over a rational grid (a, b, alpha, L = -log eta, 1 <= K <= n <= 6): Beta(alpha+1, n) parameters,
   shape s = a+K-1, rate r = b+L, mixture weight pi = x/(1+x) with x = s/(n r); TLC proves the mixture identity
   n pi r = s (1-pi) (<=> density proportional to x^(s-1) (x+n) e^(-r x)) on the whole grid and refutes s = a+K.
   ConcentrationKN.tla - (K, n) of every forest with outliers excluded.  Chain.tla - AlphaOnlyAtConc, EntriesCurrent.
O: the three scipy distribution objects used by GammaPriorConcentrationSampler are replaced by recording stubs
   that return a chosen eta = exp(-L), Bernoulli outcome and gamma variate; the recorded parameters must equal
   TLC's on every grid point (1e-12) and the returned value must be the gamma variate; update_concentration_value
   on every forest with <= 4 points must pass exactly TLC's (K, n) and store the returned value so that every
   later density evaluation uses it; recorded chains: alpha in each entry is the value current at append time.
"""
import json
import math

import numpy as np

from .. import env, tlc, absstate, chainlib
from ..evidence import Check

MC = """---- MODULE MC_Conc ----
EXTENDS Concentration
AsDef == {<<1,100>>, <<1,1>>, <<5,2>>}
BsDef == {<<1,100>>, <<1,1>>, <<3,1>>}
AlDef == {<<1,10>>, <<1,1>>, <<7,2>>}
LsDef == {<<1,10>>, <<1,1>>, <<5,1>>}
ExtraDef == {<<172, 172>>, <<200, 400>>, <<500, 2000>>}
====
"""


class Stub:
    """Stands in for scipy.stats.{beta,bernoulli,gamma}: records parameters, returns scripted variates."""

    def __init__(self, name, log, script):
        self.name, self.log, self.script = name, log, script

    def rvs(self, *args, **kw):
        kw = dict(kw)
        rs = kw.pop("random_state", None)
        self.log.append((self.name, args, kw, rs))
        return self.script[self.name]


def fr(x):
    return x[0] / x[1]


def law_test(ck, conc):
    """Distribution-level oracle (supplementary; continuous laws are outside TLC): the empirical law of seeded draws of
    sample() against the exact one-step transition CDF  E_eta[pi F_Gamma(s+1, r) + (1 - pi) F_Gamma(s, r)]."""
    import numpy as np
    from scipy import stats

    nodes, weights = np.polynomial.legendre.leggauss(400)
    eta = 0.5 * (nodes + 1.0)
    w = 0.5 * weights
    N = 6000
    for ci, (a, b, alpha, K, n) in enumerate(((0.01, 0.01, 1.0, 1, 5), (0.5, 1.0, 0.4, 1, 3), (1.0, 1.0, 2.0, 3, 6), (2.5, 0.5, 1.3, 2, 2))):
        rng = np.random.default_rng(9000 + ck.seed + ci)
        sampler = conc.GammaPriorConcentrationSampler(a, b, rng=rng)
        xs = np.sort(np.array([sampler.sample(alpha, K, n) for _ in range(N)], dtype=float))
        s = a + K - 1
        r = b - np.log(eta)
        x = s / (n * r)
        pi = x / (1 + x)
        dens = stats.beta.pdf(eta, alpha + 1, n) * w
        dens = dens / dens.sum()
        lo = np.quantile(xs, [0.02, 0.1, 0.25, 0.5, 0.75, 0.9, 0.98])
        # the implementation clamps the value at 1e-10 ("catch numerical error"): compare the CDFs from just above that atom
        floor = 1e-10 * (1 + 1e-6)
        grid = np.unique(np.concatenate([lo, np.exp(np.linspace(np.log(max(xs[0], floor)), np.log(xs[-1]), 60))]))
        grid = grid[grid >= floor]
        worst = 0.0
        for g in grid:
            F = float(np.sum(dens * (pi * stats.gamma.cdf(g, s + 1, scale=1.0 / r) + (1 - pi) * stats.gamma.cdf(g, s, scale=1.0 / r))))
            emp = float(np.searchsorted(xs, g, side="right")) / N
            worst = max(worst, abs(F - emp))
        ck.evaluations += N
        ck.nontrivial("law:%d" % ci)
        ck.extra.setdefault("ks_distances", {})["a=%s,b=%s,alpha=%s,K=%d,n=%d" % (a, b, alpha, K, n)] = worst
        if worst > 0.035:
            ck.violation("C13|law|ks", "the law of the new value differs from the Escobar-West mixture: sup |F_emp - F| = %.3f over %d seeded draws (a=%s b=%s alpha=%s K=%d n=%d)" % (
                worst, N, a, b, alpha, K, n), {"a": a, "b": b, "alpha": alpha, "K": K, "n": n, "ks": worst})


def exact_cdf(g, a, b, alpha, K, n, quad):
    """Exact one-step transition CDF of the update at g (Gauss-Legendre over eta)."""
    import numpy as np
    from scipy import stats
    eta, w = quad
    s = a + K - 1
    r = b - np.log(eta)
    x = s / (n * r)
    pi = x / (1 + x)
    dens = stats.beta.pdf(eta, alpha + 1, n) * w
    dens = dens / dens.sum()
    return float(np.sum(dens * (pi * stats.gamma.cdf(g, s + 1, scale=1.0 / r) + (1 - pi) * stats.gamma.cdf(g, s, scale=1.0 / r))))


def sequence_law_test(ck, conc):
    """ONE sampler object used for a long sequence of calls in which K and n change from call to call (as in a run with
    outlier modelling) and each call continues from the value the previous call returned.  Probability integral
    transform: u_t = F(new_t | old_t, K_t, n_t) with the exact one-step CDF must be uniform on (0, 1) - whatever the
    history of the object."""
    import numpy as np
    nodes, weights = np.polynomial.legendre.leggauss(600)
    quad = (0.5 * (nodes + 1.0), 0.5 * weights)
    a, b = 1.0, 1.0
    schedule = [(2, 30), (2, 2), (1, 5), (3, 40), (3, 3), (2, 12)]
    rng = np.random.default_rng(7000 + ck.seed)
    sampler = conc.GammaPriorConcentrationSampler(a, b, rng=rng)
    N = 3000
    alpha = 1.0
    us = {kn: [] for kn in schedule}
    for t in range(N):
        K, n = schedule[t % len(schedule)]
        new = float(sampler.sample(alpha, K, n))
        if new > 1e-10 * (1 + 1e-6):
            us[(K, n)].append(exact_cdf(new, a, b, alpha, K, n, quad))
        alpha = min(max(new, 1e-3), 50.0) if not (1e-3 <= new <= 50.0) else new      # keep the chain in a range where the quadrature is accurate
    ck.evaluations += N
    for kn, u in us.items():
        u = np.sort(np.array(u))
        m = len(u)
        if m < 100:
            continue
        d = float(np.max(np.maximum(np.arange(1, m + 1) / m - u, u - np.arange(0, m) / m)))
        ck.extra.setdefault("sequence_ks", {})["K=%d,n=%d" % kn] = d
        ck.nontrivial("sequence_law:%s" % (kn,))
        if d > 4.0 / math.sqrt(m):            # p < 1e-13 for a correct sampler
            ck.violation("C13|law|sequence", "one sampler object called in sequence with changing (K, n): the new values for K=%d n=%d are not distributed as the exact update from the value passed in (PIT sup-distance %.3f over %d calls)" % (
                kn[0], kn[1], d, m), {"K": kn[0], "n": kn[1], "ks": d, "calls": m})


class DuckRNG:
    """Minimal numpy-Generator look-alike with scripted uniforms (for updates that draw from the generator directly)."""

    def __init__(self, u):
        self.u = u
        self.calls = []

    def random(self, size=None):
        self.calls.append(("random",))
        return self.u

    def uniform(self, low=0.0, high=1.0, size=None):
        self.calls.append(("uniform", low, high))
        return low + (high - low) * self.u

    def beta(self, a, b, size=None):
        self.calls.append(("beta", float(a), float(b)))
        return 0.3

    def gamma(self, shape, scale=1.0, size=None):
        self.calls.append(("gamma", float(shape), float(scale)))
        return 0.9

    def standard_gamma(self, shape, size=None):
        self.calls.append(("gamma", float(shape), 1.0))
        return 0.9

    def binomial(self, n, p, size=None):
        self.calls.append(("binomial", n, float(p)))
        return int(self.u < p) if p == p else 0


def large_k_reachability(ck, conc):
    """For hundreds of clones both mixture components must be reachable (an update that draws from the generator
    directly is driven with a uniform near 0 and near 1; with the recording stubs in place this is decided by the mixture
    weight itself)."""
    for a, b, alpha, K, n in ((1.0, 1.0, 1.5, 200, 400), (0.5, 2.0, 0.7, 172, 172), (2.5, 0.01, 3.0, 500, 2000)):
        shapes = set()
        skipped = False
        for u in (1e-12, 1 - 1e-12):
            rng = DuckRNG(u)
            try:
                with np_errstate():
                    conc.GammaPriorConcentrationSampler(a, b, rng=rng).sample(alpha, K, n)
            except Exception:  # noqa - scipy refuses the look-alike (the unchanged code draws through scipy: judged by the stubs) or another API is used
                skipped = True
                break
            shapes |= {round(c[1], 9) for c in rng.calls if c[0] == "gamma"}
        if skipped:
            continue
        ck.evaluations += 2
        s = a + K - 1
        if not ({round(s, 9), round(s + 1, 9)} <= shapes):
            ck.violation("C13|large_k|component_unreachable", "K=%d n=%d: driving the update with a uniform near 0 and near 1 reaches Gamma shapes %s only; the mixture has the components %s and %s" % (
                K, n, sorted(shapes), s, s + 1), {"a": a, "b": b, "alpha": alpha, "K": K, "n": n, "shapes": sorted(shapes)})


def np_errstate():
    import numpy as np
    return np.errstate(all="ignore")


def run(corrupt=None):
    ck = Check("C13")
    env.use_repo()
    import phyclone.mcmc.concentration as conc
    import phyclone.run as prun
    from phyclone.tree import FSCRPDistribution, TreeJointDistribution

    thorough = ck.tier == "thorough"
    cfg = tlc.cfg_text(constants={"As": "<- AsDef", "Bs": "<- BsDef", "Alphas": "<- AlDef", "Ls": "<- LsDef", "MaxN": (9 if thorough else 6), "ExtraKN": "<- ExtraDef",
                                  "ShapeOffByOne": "FALSE", "Dump": "TRUE"}, invariants=["MixtureIdentity", "PiIsProbability", "Emit"])
    r = tlc.run_tlc("c13_conc", "MC_Conc", cfg, mc_text=MC, timeout=600)
    tlc.require_ok(r, "Concentration")
    ck.add_tlc("Concentration.tla mixture identity on the rational grid", r)
    neg = tlc.run_tlc("c13_neg", "MC_Conc", cfg.replace("ShapeOffByOne = FALSE", "ShapeOffByOne = TRUE").replace("Dump = TRUE", "Dump = FALSE"), mc_text=MC, timeout=600)
    ck.add_tlc("DEV shape = a + K (must violate MixtureIdentity)", neg, must_fail=True)
    if "MixtureIdentity" not in neg.violated:
        raise tlc.TLCError("deviation not refuted: %s" % neg.summary())
    n_kn = 4 if thorough else 3
    rkn = tlc.run_tlc("c13_kn", "ConcentrationKN", tlc.cfg_text(constants={"N": n_kn, "CountOutliers": "FALSE"}, invariants=["KLeqN", "Emit"]), timeout=600)
    tlc.require_ok(rkn, "ConcentrationKN")
    ck.add_tlc("ConcentrationKN.tla (K, n) of every forest on <= %d points" % n_kn, rkn)
    rc = chainlib.model_check_chain("c13_chain")
    tlc.require_ok(rc, "Chain")
    ck.add_tlc("Chain.tla AlphaOnlyAtConc / EntriesCurrent", rc)

    # ---- parameter wiring on the grid
    _missing = object()
    saved = tuple(getattr(conc, nm_, _missing) for nm_ in ("beta", "bernoulli", "gamma"))
    rng_token = object()
    structure_changed = []
    try:
        for rec in r.json_prints:
            a, b, alpha, L, n, K = fr(rec["a"]), fr(rec["b"]), fr(rec["alpha"]), fr(rec["L"]), rec["n"], rec["K"]
            for z in (0, 1):
                log = []
                g = 0.37 + z
                script = {"beta": math.exp(-L), "bernoulli": z, "gamma": g}
                conc.beta, conc.bernoulli, conc.gamma = Stub("beta", log, script), Stub("bernoulli", log, script), Stub("gamma", log, script)
                sampler = conc.GammaPriorConcentrationSampler(a, b, rng=rng_token)
                try:
                    out = sampler.sample(alpha, K, n)
                except (AttributeError, TypeError) as ex:
                    # the update draws in a way the recording stubs cannot interpret (e.g. directly from the generator):
                    # not judged here - the distribution-level test below decides
                    structure_changed.append("%s: %s" % (type(ex).__name__, ex))
                    continue
                ck.evaluations += 1
                rep = {"point": rec, "bernoulli_outcome": z, "calls": [(c[0], [float(x) for x in c[1]], {k: float(v) for k, v in c[2].items()}) for c in log]}
                exp_pi = fr(rec["pi"])
                if corrupt == "pi" and K == 2 and n == 3:
                    exp_pi += 1e-6
                names = [c[0] for c in log]
                if names != ["beta", "bernoulli", "gamma"]:
                    structure_changed.append("draw sequence %s" % names)
                    continue

                def arg(call, pos, key):
                    if key in call[2]:
                        return float(call[2][key])
                    return float(call[1][pos])

                cb, cz, cg = log
                checks = [("beta first parameter", arg(cb, 0, "a"), fr(rec["beta_a"])), ("beta second parameter", arg(cb, 1, "b"), fr(rec["beta_b"])),
                          ("mixture weight pi", arg(cz, 0, "p"), exp_pi),
                          ("gamma shape", arg(cg, 0, "a"), fr(rec["shape"]) + z), ("gamma scale", float(cg[2].get("scale", float("nan"))), 1.0 / fr(rec["rate"]))]
                for nm, got, want in checks:
                    if not (abs(got - want) <= 1e-12 * (1 + abs(want))):
                        ck.violation("C13|param|%s" % nm.replace(" ", "_"), "%s = %.15g, specified %.15g (a=%s b=%s alpha=%s K=%d n=%d L=%s z=%d)" % (nm, got, want, a, b, alpha, K, n, L, z), rep)
                if any(c[3] is not rng_token for c in log):
                    ck.violation("C13|rng", "a draw did not use the sampler's own generator", rep)
                if out != max(g, 1e-10):
                    ck.violation("C13|return", "sample() returned %r, the gamma variate was %r" % (out, g), rep)
            ck.nontrivial(json.dumps(rec, sort_keys=True))
    finally:
        for nm_, val_ in zip(("beta", "bernoulli", "gamma"), saved):
            if val_ is _missing:
                if hasattr(conc, nm_):
                    delattr(conc, nm_)
            else:
                setattr(conc, nm_, val_)
    ck.sample({"grid_point": r.json_prints[len(r.json_prints) // 2]})
    if structure_changed:
        ck.note("parameter-level comparison not applicable on %d calls (different draw structure, e.g. %s); the distribution-level test decides" % (
            len(structure_changed), structure_changed[0][:120]))
    law_test(ck, conc)
    sequence_law_test(ck, conc)
    large_k_reachability(ck, conc)

    # ---- (K, n) extraction and storing of the new value
    class Rec:
        def __init__(self):
            self.calls = []

        def sample(self, old, k, n):
            self.calls.append((old, k, n))
            return 0.7531

    data_plain = absstate.make_data(n_kn, dims=1, grid=4, seed=ck.seed, kind="int", outlier_prob=0.2)
    # the same with data points as the loader builds them from a PRE-CLUSTERED input (clusters of 2, 1 and 3 mutations):
    # n is the number of data points (clusters) in clones, not the number of mutations
    import io as _io
    import contextlib as _cl
    import os as _os
    from phyclone.data.pyclone import load_data
    dl = env.scratch("c13_loader")
    rows, crow = [], []
    for c_ in range(n_kn):
        for j_ in range((2, 1, 3)[c_ % 3]):
            for s_ in ("S1", "S2"):
                rows.append("c%d_m%d\t%s\t%d\t%d\t2\t1\t2" % (c_, j_, s_, 40 + c_, 8 + j_))
            crow.append("c%d_m%d\t%d" % (c_, j_, c_))
    with open(_os.path.join(dl, "in.tsv"), "w") as fh:
        fh.write("mutation_id\tsample_id\tref_counts\talt_counts\tmajor_cn\tminor_cn\tnormal_cn\n" + "\n".join(rows) + "\n")
    with open(_os.path.join(dl, "cl.tsv"), "w") as fh:
        fh.write("mutation_id\tcluster_id\n" + "\n".join(crow) + "\n")
    with _cl.redirect_stdout(_io.StringIO()):
        data_loaded, _ = load_data(_os.path.join(dl, "in.tsv"), np.random.default_rng(3), 0.0001, 0.4, False, cluster_file=_os.path.join(dl, "cl.tsv"),
                                   density="binomial", grid_size=4, outlier_prob=0.2, precision=400)
    for rec, data in [(r_, data_plain) for r_ in rkn.json_prints] + [(r_, data_loaded) for r_ in rkn.json_prints]:
        key = absstate.canon(rec["st"])
        if not absstate.data_ids(key):
            continue
        tree = absstate.build(key, [d for d in data if d.idx in absstate.data_ids(key)])
        td = TreeJointDistribution(FSCRPDistribution(1.9))
        before = float(td.log_p_one(tree))
        s = Rec()
        prun.update_concentration_value(s, tree, td)
        ck.evaluations += 1
        ck.traces_validated += 1
        rep = {"state": absstate.to_json(key), "expected": [rec["K"], rec["n"]], "calls": s.calls}
        if len(s.calls) != 1 or s.calls[0][0] != 1.9 or (s.calls[0][1], s.calls[0][2]) != (rec["K"], rec["n"]):
            ck.violation("C13|kn", "update_concentration_value passed %s for %s, specified (alpha=1.9, K=%d, n=%d)" % (s.calls, absstate.key_str(key), rec["K"], rec["n"]), rep)
        if td.prior.alpha != 0.7531:
            ck.violation("C13|store", "the new value was not stored in the prior (alpha = %r)" % td.prior.alpha, rep)
        after = float(td.log_p_one(tree))
        want = before + rec["K"] * (math.log(0.7531) - math.log(1.9))
        if abs(after - want) > 1e-9 * (1 + abs(want)):
            ck.violation("C13|not_used", "log_p_one after the update = %.12g, with the new value it should be %.12g (%s)" % (after, want, absstate.key_str(key)), rep)
        fresh = float(TreeJointDistribution(FSCRPDistribution(0.7531)).log_p_one(tree))
        if abs(after - fresh) > 1e-9 * (1 + abs(fresh)):
            ck.violation("C13|not_used", "density after the update differs from a fresh distribution with the new value (%s)" % absstate.key_str(key), rep)
        if len(key[0]) > 1 or key[1]:
            ck.nontrivial("kn:" + absstate.key_str(key))

    # ---- recorded chains: alpha flow
    import contextlib

    @contextlib.contextmanager
    def density_watch(found):
        """Every particle of every final swarm: the fixed-root density it carries must be the density of its tree
        under the concentration value that is current at that moment."""
        from phyclone.mcmc.particle_gibbs import ParticleGibbsTreeSampler as P
        if not hasattr(P, "_sample_tree_from_swarm"):
            found["unavailable"] = True
            yield
            return
        orig = P._sample_tree_from_swarm

        import phyclone.run as prun
        from phyclone.tree import FSCRPDistribution, TreeJointDistribution
        saved_run = {n_: getattr(prun, n_) for n_ in ("update_concentration_value", "append_to_trace")}

        # the CHAIN's distribution object (the one the concentration update writes to) - a sampler working on its own
        # copy of it would never see an update
        def upd(conc_sampler, tree, tree_dist):
            saved_run["update_concentration_value"](conc_sampler, tree, tree_dist)
            found["alpha_now"] = float(tree_dist.prior.alpha)

        def app(i, timer, trace, tree, tree_dist):
            found["alpha_now"] = float(tree_dist.prior.alpha)
            return saved_run["append_to_trace"](i, timer, trace, tree, tree_dist)

        prun.update_concentration_value = upd
        prun.append_to_trace = app

        def sel(self, swarm):
            try:
                td = self.kernel.tree_dist
                if found.get("alpha_now") is not None:
                    td = TreeJointDistribution(FSCRPDistribution(found["alpha_now"]))
                items = [(float(td.log_p_one(p_.tree)), float(p_.log_p_one)) for p_ in swarm.particles]
            except AttributeError:      # the swarm / particle protocol changed: nothing to compare
                items = []
                found["unavailable"] = True
            for want, got in items:
                found["n"] += 1
                if abs(want - got) > 1e-9 * (1 + abs(want)):
                    found["bad"].append((got, want, float(td.prior.alpha)))
            return orig(self, swarm)

        P._sample_tree_from_swarm = sel
        try:
            yield
        finally:
            P._sample_tree_from_swarm = orig
            for n_, f_ in saved_run.items():
                setattr(prun, n_, f_)

    nflow = 0
    for k, o in enumerate([dict(proposal=p, outlier_prob=op, num_iters=(12 if thorough else 6), thin=2, subtree_update_prob=0.3)
                           for p in chainlib.PROPOSALS for op in (0, 0.3)]):
        found = {"n": 0, "bad": []}
        with density_watch(found):
            res = chainlib.run_one(4, 1, 50 * (1 + ck.seed) + k, dict(o, num_iters=max(o["num_iters"], 20)), grid=7)
        if res["error"]:
            ck.violation("C13|chain|exception", "chain aborted: %s" % res["error"], {"options": o})
            continue
        ck.evaluations += found["n"]
        if found.get("unavailable"):
            ck.note("particle densities could not be read from the final swarms (internal protocol changed): that part was skipped")
        if found["bad"]:
            g, w, a = found["bad"][0]
            ck.violation("C13|chain|stale_density", "%d of %d particles carry a fixed-root density that is not the density of their tree under the current concentration value (e.g. %.10g vs %.10g at alpha %.6g)" % (
                len(found["bad"]), found["n"], g, w, a), {"options": o})
        cur_alpha = 1.0
        pending = None
        for e in res["events"]:
            nflow += 1
            if e["ev"] == "conc_sample":
                pending = e
            elif e["ev"] == "conc_update":
                if pending is None or pending["old"] != e["old"] or pending["new"] != e["new"]:
                    ck.violation("C13|chain|flow", "concentration update stored %r but the sampler returned %r" % (e["new"], pending and pending["new"]), {"options": o})
                key = e["tree"]
                if key is not None and pending is not None and (pending["k"], pending["n"]) != (len(key[0]), len(set().union(*key[0])) if key[0] else 0):
                    ck.violation("C13|chain|kn", "sampler received K=%d n=%d for tree %s" % (pending["k"], pending["n"], absstate.key_str(key)), {"options": o})
                cur_alpha = e["new"]
                pending = None
            elif e["ev"] == "append" and e.get("added"):
                if e["alpha"] != cur_alpha or e["alpha_now"] != cur_alpha:
                    ck.violation("C13|chain|stale_alpha", "entry iter %s records alpha %r, current value is %r" % (e["iter"], e["alpha"], cur_alpha), {"options": o})
        for kind, msg in res["problems"]:
            if kind == "inconsistent_entry":
                ck.violation("C13|chain|inconsistent_entry", msg, {"options": o})
        ck.traces_validated += 1
    ck.evaluations += nflow
    ck.rule = ("1 701 rational grid points (a, b, alpha, L, K <= n <= 6) x both Bernoulli outcomes; every forest on <= %d points for the (K, n) "
               "extraction; 6 recorded chains for the alpha flow; non-trivial = all grid points / forests with > 1 clone or outliers" % n_kn)
    ck.exhaustive = True
    ck.assumptions = ["Escobar-West lemma: the Beta draw + two-component Gamma mixture with these parameters is a Gibbs step for p(alpha | K, n) (not evaluated by TLC)",
                      "scipy's beta/bernoulli/gamma .rvs implement the named distributions with (a, b) / p / (shape, scale) parameterisation"]
    if corrupt:
        return ck
    return ck.finish()


def selftest():
    ck = run(corrupt="pi")
    ok = any(v["signature"].startswith("C13|param|mixture_weight") for v in ck.violations)
    print("selftest:", "perturbed mixture weight detected" if ok else "FAILED")
    return 0 if ok else 1


def replay(path):
    body = json.load(open(path))
    print(json.dumps(body["replay"], indent=1)[:2000])
    return 0
