"""C04 - data-point, prune-regraft and subtree moves preserve the posterior.

M: Moves.tla - exact kernels of the data-point Gibbs move (per point), prune-regraft and the subtree move with an
   ideal inner sampler over all forests on <= 3 (quick) / 4 (thorough) points in F_p; Stationary for the rules as
   specified; deviations SkipLoneOutlier / RegraftDegreeFactor must be refuted.  For the subtree move TLC shows the
   block-selection mechanism is exact on <= 2 points and NOT invariant from 3 points even with an ideal inner
   sampler (finding F11) - the model of that open finding.
O: exact transition matrices of the real DataPointSampler, PruneRegraphSampler, ParticleGibbsSubtreeSampler (all
   RNG outcomes enumerated) from every start forest; pi from log_p_one; max|pi K - pi| <= 1e-10; any exception or
   malformed output on a reachable start state is a violation.
"""
import json

from .. import env, tlc, absstate, movetrace, recorder, gridoracle
from ..evidence import Check
from . import c01

PRIMES = [46337, 46327]


def mv_consts(n, outl, move, seed, skip=False, deg=False, whole=True, prime=46337):
    return {"N": n, "OutlierOn": tlc.tla_bool(outl), "Move": tlc.tla_str(move), "DumpRows": "FALSE", "RowsOnly": "FALSE", "SkipLoneOutlier": tlc.tla_bool(skip),
            "RegraftDegreeFactor": tlc.tla_bool(deg), "AllOutlierWhole": tlc.tla_bool(whole), "Seed": seed, "P": prime}


def model_runs(ck, thorough, seed):
    jobs, meta = [], []

    def add(label, c, expect):
        jobs.append(dict(job="c04_%d" % len(jobs), module="Moves", workers=1, timeout=3000,
                         cfg=tlc.cfg_text(constants=c, invariants=["Stationary", "ClosedInv", "SameRelationInv", "RowsSumToOne"])))
        meta.append((label, expect))

    n = 4 if thorough else 3
    for outl in (False, True):
        add("Moves dp N=%d outl=%d" % (n, outl), mv_consts(n, outl, "dp", seed), "pass")
        add("Moves prg N=%d outl=%d" % (n, outl), mv_consts(n, outl, "prg", seed), "pass")
        add("Moves sub(ideal) N=2 outl=%d" % outl, mv_consts(2, outl, "sub", seed), "pass")
    add("Moves dp N=3 outl=1 prime2", mv_consts(3, True, "dp", seed, prime=PRIMES[1]), "pass")
    add("Moves prg N=3 outl=1 prime2", mv_consts(3, True, "prg", seed, prime=PRIMES[1]), "pass")
    add("DEV dp lone outlier never moved", mv_consts(3, True, "dp", seed, skip=True), "fail")
    add("DEV prg degree factor", mv_consts(3, False, "prg", seed, deg=True), "fail")
    add("DEV sub stuck on all-outlier tree", mv_consts(2, True, "sub", seed, whole=False), "fail")
    add("FINDING-MODEL sub(ideal) N=3 outl=0 is not invariant", mv_consts(3, False, "sub", seed), "fail")
    add("FINDING-MODEL sub(ideal) N=3 outl=0 prime2", mv_consts(3, False, "sub", seed, prime=PRIMES[1]), "fail")
    res = tlc.run_many(jobs, max_parallel=env.ncpu())
    for (label, expect), r in zip(meta, res):
        ck.add_tlc(label, r, must_fail=(expect == "fail"))
        if expect == "fail":
            if "Stationary" not in r.violated:
                raise tlc.TLCError("deviation / finding model not refuted: %s %s" % (label, r.summary()))
        else:
            if r.violated:
                raise tlc.TLCError("model 'as specified' refuted by TLC: %s %s" % (label, r.summary()))
            tlc.require_ok(r, label)


def mechanism_rows(ck, seed, table):
    """Mechanism-level conformance (diagnostic): the probability vectors the real data-point and prune-regraft samplers
    hand to their multinomial draw must be the single-step rows of Moves.tla (exact rationals on TLC's tables)."""
    import itertools
    import math
    from ..enumrng import EnumRNG, enumerate_paths
    from ..tabledist import TableDist

    n = 3
    c = mv_consts(n, True, "dp", seed)
    c["DumpRows"] = "TRUE"
    r = tlc.run_tlc("c04_rows", "Moves", tlc.cfg_text(constants=c, invariants=["Stationary", "EmitRows"]), workers=1, timeout=1500)
    tlc.require_ok(r, "Moves rows dump")
    ck.add_tlc("Moves.tla single-step rows of the data-point and prune-regraft moves as exact rationals (N=3, outliers on)", r)
    cfg = dict(dist="table", alpha=1.0, np=2, thr=0.5, kernel="semi", n=n, wiring="run", outl=True)
    data = c01.make_data(cfg)
    compared = drift = 0
    for rec in r.json_prints:
        s0 = absstate.canon(rec["s"])
        dp_rows = {x["d"]: sorted(e["p"][0] / e["p"][1] for e in x["row"]) for x in rec["dp"]}
        prg_rows = {frozenset(x["v"]): sorted(e["p"][0] / e["p"][1] for e in x["row"]) for x in rec["prg"]}
        for which in ("dp", "prg"):
            td = TableDist(table)
            rng = EnumRNG()
            sampler = c01.make_sampler(cfg, td, rng, which)
            holder = {}

            def go():
                t = absstate.build(s0, data)
                holder["tree"] = t
                holder["labels"] = list(t.labels.keys())
                holder["nodes"] = list(t.nodes)
                holder["clade"] = absstate.project(t, full=False)[1]["clade"]
                holder["movable"] = {d: (lab == -1 or t.get_data_len(lab) > 1) for d, lab in t.labels.items()}
                return sampler.sample_tree(t)

            seen = set()
            for _, p, script in enumerate_paths(go, rng):
                tr = rng.trace
                if which == "dp":
                    if not tr or tr[0][0] != "shuffle":
                        continue
                    perm = list(itertools.permutations(range(len(holder["labels"]))))[tr[0][1]]
                    order = [holder["labels"][j] for j in perm]
                    first = next((d for d in order if holder["movable"][d]), None)
                    mult = next((t_ for t_ in tr[1:] if t_[0] == "mult1"), None)
                    if first is None or mult is None or (first,) in seen:
                        continue
                    seen.add((first,))
                    got, want = sorted(x for x in mult[2] if x > 0), dp_rows.get(first, [])
                else:
                    if len(tr) < 2 or tr[0][0] != "choice" or tr[1][0] != "mult1":
                        continue
                    node = holder["nodes"][tr[0][1]]
                    v = holder["clade"][node]
                    if v in seen:
                        continue
                    seen.add(v)
                    got, want = sorted(x for x in tr[1][2] if x > 0), prg_rows.get(v, [])
                compared += 1
                if len(got) != len(want) or any(abs(a - b) > 1e-12 for a, b in zip(got, want)):
                    drift += 1
                    if drift <= 3:
                        ck.model_drift("%s sampler from %s: multinomial probabilities %s differ from the row of Moves.tla %s" % (
                            which, absstate.key_str(s0), [round(x, 6) for x in got], [round(x, 6) for x in want]))
    ck.extra["mechanism_rows_compared"] = compared
    ck.extra["mechanism_rows_differing"] = drift
    ck.traces_validated += compared - drift


def sigfn_for(which):
    def f(cfg):
        if which in ("dp", "prg"):
            return "move=%s|outl=%d" % (which, cfg["outl"])
        return "move=subtree|%s" % ("n<=2" if (cfg["n"] <= 2 or cfg["np"] == 1) else "n>=3")
    return f


SINGLE_SITE_STARTS = [   # deep forests on 4-5 data points (chains of three clones, the upper clones holding several data points)
    {"f": [[0, 1, 2, 3], [2, 3], [3]], "o": []},
    {"f": [[0, 1, 2, 3], [1, 2, 3], [3]], "o": []},
    {"f": [[0, 1, 2, 3, 4], [2, 3], [3], [4]], "o": []},
    {"f": [[0, 1, 2, 3, 4], [1, 2, 3, 4], [3, 4], [4]], "o": []},
    {"f": [[0, 1, 2, 3], [2, 3], [3]], "o": [4]},
    {"f": [[0, 1, 2], [1, 2], [3, 4], [4]], "o": []},
]


def single_site_part(ck, seed):
    """One data-point reassignment beyond the sizes of the exact sweep kernels: for deep start forests on 4-5 points TLC
    (MoveRel.tla) gives the candidate set C of a reassignment of d - the same set from each of its members; the real
    DataPointSampler._sample_tree is run from EVERY member of C with all multinomial outcomes enumerated and the block
    C must be invariant: sum_c pi(c) K(c, t) = pi(t) on C, with pi the joint density of freshly built trees."""
    import math
    from ..enumrng import EnumRNG, enumerate_paths
    from phyclone.tree import FSCRPDistribution, TreeJointDistribution

    starts = [absstate.canon(x) for x in SINGLE_SITE_STARTS]
    lines = []
    for k, st in enumerate(starts):
        j = absstate.to_json(st)
        lines.append("[id |-> %d, st |-> [f |-> {%s}, o |-> {%s}]]" % (k, ", ".join("{%s}" % ", ".join(map(str, c)) for c in j["f"]), ", ".join(map(str, j["o"]))))
    mc = ("---- MODULE MC_SingleSite ----\nEXTENDS MoveRel, Json\nStarts == {%s}\n"
          "ASSUME \\A r \\in Starts : \\A d \\in DataOf(r.st) : PrintT(ToJson([id |-> r.id, d |-> d, cands |-> DPCands(r.st, d)]))\n"
          "VARIABLE x\nInit == x = 0\nNext == UNCHANGED x\n====\n") % ", ".join(lines)
    r = tlc.run_tlc("c04_single_site", "MC_SingleSite", tlc.cfg_text(constants={"OutlierOn": "TRUE", "SkipLoneOutlier": "FALSE"}), mc_text=mc, workers=1, timeout=900)
    tlc.require_ok(r, "MoveRel candidate sets")
    ck.add_tlc("MoveRel.tla candidate sets of single reassignments from %d deep forests on 4-5 points" % len(starts), r)
    n = 5
    data = absstate.make_data(n, dims=2, grid=5, seed=seed + 3, kind="int", outlier_prob=0.2, sizes=[(1, 3, 2)[i % 3] for i in range(n)])
    dist = TreeJointDistribution(FSCRPDistribution(0.8))
    blocks = 0
    for rec in r.json_prints:
        cands = [absstate.canon(c) for c in rec["cands"]]
        d = rec["d"]
        if len(cands) < 2:
            continue
        cset = set(cands)
        logpi = {}
        for c in cands:
            sub = [dp for dp in data if dp.idx in absstate.data_ids(c)]
            logpi[c] = float(dist.log_p_one(absstate.build(c, sub)))
        m = max(logpi.values())
        tot = sum(math.exp(v - m) for v in logpi.values())
        pi = {c: math.exp(v - m) / tot for c, v in logpi.items()}
        # start trees: freshly built, and after the two halves of a prune-regraft move (the largest clone below another clone
        # cut out and re-attached where it hung, without a whole-tree refresh): the same forest at other graph positions
        for history in ("fresh", "after_regraft"):
            flow = {c: 0.0 for c in cands}
            bad = None
            for c in cands:
                rng = EnumRNG()
                from phyclone.mcmc.gibbs_mh import DataPointSampler
                sampler = DataPointSampler(dist, rng, outliers=True)
                sub = [dp for dp in data if dp.idx in absstate.data_ids(c)]

                def go():
                    t = absstate.build(c, sub)
                    if history == "after_regraft":
                        _, conc = absstate.project(t, full=False)
                        for v in sorted(conc["names"], key=lambda m_: -len(conc["clade"][m_])):
                            par_v = conc["par"][v]
                            if par_v != t._ROOT_NODE_NAME:
                                piece = t.get_subtree(v)
                                t.remove_subtree(piece)
                                t.add_subtree(piece, parent=par_v)
                                break
                    return sampler._sample_tree(d, t, t.labels[d])

                for out, p, _ in enumerate_paths(go, rng):
                    try:
                        k2 = absstate.project(out, full=True)[0]
                    except absstate.Inconsistent as ex:
                        bad = "reassigning data point %d in %s returned an inconsistent tree: %s" % (d, absstate.key_str(c), ex)
                        break
                    if k2 not in cset:
                        bad = "reassigning data point %d in %s returned %s, which is not a candidate of MoveRel.tla" % (d, absstate.key_str(c), absstate.key_str(k2))
                        break
                    flow[k2] += pi[c] * p
                if bad:
                    break
            blocks += 1
            ck.evaluations += len(cands)
            ck.nontrivial("single_site|%d|%d" % (rec["id"], d))
            rep = {"start": SINGLE_SITE_STARTS[rec["id"]], "d": d, "candidates": [absstate.to_json(c) for c in cands]}
            if bad:
                ck.violation("C04|single_site|support", bad + " [start trees: %s]" % history, rep)
                continue
            res = max(abs(flow[c] - pi[c]) for c in cands)
            if res > 1e-10:
                worst = max(cands, key=lambda c: abs(flow[c] - pi[c]))
                ck.violation("C04|single_site|nonstationary", "reassigning data point %d among the %d candidate trees of %s does not preserve the posterior on that block [start trees: %s]: max |pi K - pi| = %.3g (at %s: %.6g vs %.6g)" % (
                    d, len(cands), absstate.key_str(starts[rec["id"]]), history, res, absstate.key_str(worst), flow[worst], pi[worst]), rep)
    ck.traces_validated += blocks
    ck.extra["single_site_blocks"] = blocks


PRG_BLOCK_STARTS = [   # bushy forests on 4-5 points: attachment points that already have two and more children
    ({"f": [[0, 1, 2, 3], [1], [2], [3]], "o": []}, [3]),
    ({"f": [[0, 1, 2, 3, 4], [1], [2], [3, 4], [4]], "o": []}, [3, 4]),
    ({"f": [[0], [1], [2], [3]], "o": []}, [3]),
    ({"f": [[0, 1, 2, 3, 4], [1, 2], [2], [3], [4]], "o": []}, [4]),
]


def prg_block_part(ck, seed):
    """One prune-regraft of a GIVEN clone beyond the sizes of the exact kernels: TLC (MoveRel.tla) gives the set C of trees
    obtained by regrafting clone v anywhere - the same set from each of its members; the real sampler is run from every
    member with all random outcomes enumerated, the outcomes in which it pruned v are kept, and the block must be
    invariant: sum_c pi(c) K_v(c, t) = pi(t) on C."""
    import math
    from ..enumrng import EnumRNG, enumerate_paths
    from phyclone.tree import FSCRPDistribution, TreeJointDistribution
    from phyclone.mcmc.gibbs_mh import PruneRegraphSampler

    lines = []
    for k, (st, v) in enumerate(PRG_BLOCK_STARTS):
        lines.append("[id |-> %d, st |-> [f |-> {%s}, o |-> {}], v |-> {%s}]" % (k, ", ".join("{%s}" % ", ".join(map(str, c)) for c in st["f"]), ", ".join(map(str, v))))
    mc = ("---- MODULE MC_PrgBlock ----\nEXTENDS MoveRel, Json\nStarts == {%s}\n"
          "ASSUME \\A r \\in Starts : PrintT(ToJson([id |-> r.id, cands |-> PRGResults(r.st, r.v)]))\n"
          "VARIABLE x\nInit == x = 0\nNext == UNCHANGED x\n====\n") % ", ".join(lines)
    r = tlc.run_tlc("c04_prg_block", "MC_PrgBlock", tlc.cfg_text(constants={"OutlierOn": "FALSE", "SkipLoneOutlier": "FALSE"}), mc_text=mc, workers=1, timeout=900)
    tlc.require_ok(r, "MoveRel regraft candidates")
    ck.add_tlc("MoveRel.tla regraft candidates of one clone from %d bushy forests on 4-5 points" % len(PRG_BLOCK_STARTS), r)
    n = 5
    data = absstate.make_data(n, dims=2, grid=5, seed=seed + 13, kind="int")
    dist = TreeJointDistribution(FSCRPDistribution(1.4))
    for rec in r.json_prints:
        v = frozenset(PRG_BLOCK_STARTS[rec["id"]][1])
        cands = [absstate.canon(c) for c in rec["cands"]]
        cset = set(cands)
        sub = [dp for dp in data if dp.idx in absstate.data_ids(cands[0])]
        logpi = {c: float(dist.log_p_one(absstate.build(c, sub))) for c in cands}
        m = max(logpi.values())
        tot = sum(math.exp(x - m) for x in logpi.values())
        pi = {c: math.exp(x - m) / tot for c, x in logpi.items()}
        flow = {c: 0.0 for c in cands}
        bad = None
        for c in cands:
            rng = EnumRNG()
            sampler = PruneRegraphSampler(dist, rng)
            holder = {}

            def go():
                t = absstate.build(c, sub)
                holder["nodes"] = list(t.nodes)
                holder["clade"] = absstate.project(t, full=False)[1]["clade"]
                return sampler.sample_tree(t)

            mass_v = 0.0
            for out, p, _ in enumerate_paths(go, rng):
                tr = rng.trace
                if not tr or tr[0][0] != "choice":
                    continue
                if holder["clade"][holder["nodes"][tr[0][1]]] != v:
                    continue
                k2 = absstate.quick_key(out)
                if k2 not in cset:
                    bad = "pruning clone %s of %s returned %s, not a regraft of that clone" % (sorted(v), absstate.key_str(c), absstate.key_str(k2))
                    break
                flow[k2] += pi[c] * p
                mass_v += p
            if bad:
                break
            # (flows are accumulated with the unconditional probabilities and divided by P(clone v is pruned) below)
            flow["_mass_%s" % absstate.key_str(c)] = mass_v
        ck.evaluations += len(cands)
        ck.nontrivial("prg_block|%d" % rec["id"])
        rep = {"start": PRG_BLOCK_STARTS[rec["id"]][0], "pruned": sorted(v), "candidates": [absstate.to_json(c) for c in cands]}
        if bad:
            ck.violation("C04|prg_block|support", bad, rep)
            continue
        masses = [flow.pop("_mass_%s" % absstate.key_str(c)) for c in cands]
        if max(masses) - min(masses) > 1e-12 or min(masses) <= 0:
            ck.model_drift("the probability of pruning clone %s differs between the members of its regraft class (%s)" % (sorted(v), [round(x, 6) for x in masses]))
            continue
        res = max(abs(flow[c] / masses[0] - pi[c]) for c in cands)
        if res > 1e-10:
            worst = max(cands, key=lambda c: abs(flow[c] / masses[0] - pi[c]))
            ck.violation("C04|prg_block|nonstationary", "regrafting clone %s among the %d attachment points of %s does not preserve the posterior on that block: max |pi K - pi| = %.3g (at %s: %.6g vs %.6g)" % (
                sorted(v), len(cands), absstate.key_str(absstate.canon(PRG_BLOCK_STARTS[rec["id"]][0])), res, absstate.key_str(worst), flow[worst] / masses[0], pi[worst]), rep)
    ck.traces_validated += len(r.json_prints)


def certain_attachment_part(ck, seed, thorough):
    """A tree far beyond the enumerable sizes (a chain of 40 clones, all at CCF 1) whose data make every clone's current
    attachment conditionally certain (any other attachment puts two full-size children under one clone or two
    full-size clones at top level: posterior mass < e^-100): a prune-regraft draw from the conditional posterior must
    return the start tree - every time."""
    import numpy as np
    from phyclone.data.base import DataPoint
    from phyclone.tree import FSCRPDistribution, TreeJointDistribution
    from phyclone.mcmc.gibbs_mh import PruneRegraphSampler, DataPointSampler

    K = 40
    G = 5
    data = []
    for i in range(K):
        row = np.full((2, G), -120.0)
        row[:, G - 1] = 0.0              # every clone sits at CCF 1: a clone has room for exactly one child of that size
        data.append(DataPoint(i, np.ascontiguousarray(row)))
    key = absstate.canon({"f": [list(range(i, K)) for i in range(K)], "o": []})
    td = TreeJointDistribution(FSCRPDistribution(1.0))
    rng = np.random.default_rng(1000 + seed)
    start = absstate.build(key, data)
    calls = 150 if thorough else 70
    moved = 0
    first = None
    prg = PruneRegraphSampler(td, rng)
    for c in range(calls):
        out = prg.sample_tree(start.copy())
        k2 = absstate.quick_key(out)
        if k2 != key:
            moved += 1
            first = first or absstate.key_str(k2)[:200]
    ck.evaluations += calls
    ck.nontrivial("certain_attachment:prg")
    if moved:
        ck.violation("C04|certain_attachment|prg", "on a chain of %d clones whose attachments are conditionally certain (alternatives < e^-100) the prune-regraft move left the start tree in %d of %d calls, e.g. to %s" % (
            K, moved, calls, first), {"clones": K, "calls": calls, "moved": moved})
    dps = DataPointSampler(td, rng, outliers=False)
    out = dps.sample_tree(start.copy())
    if absstate.quick_key(out) != key:
        ck.violation("C04|certain_attachment|dp", "on the same tree a data-point sweep moved a data point although every alternative has posterior mass < e^-100", {"clones": K})
    ck.extra["certain_attachment_calls"] = calls


def trace_moves_part(ck, seed, thorough):
    """The move RELATIONS of Moves.tla (MoveRel.tla) bound beyond the sizes the exact kernels reach: real chains on 6-8
    (clustered) data points with flat likelihoods and a large concentration value (many clones, trees change often);
    every recorded sampler step must be a step of MoveRel (TraceMoves.tla).  Diagnostic channel: MODEL-DRIFT."""
    recorded = []
    combos = [("semi-adapted", 0.2), ("bootstrap", 0), ("fully-adapted", 0.2), ("semi-adapted", 0), ("bootstrap", 0.3), ("fully-adapted", 0)]
    if thorough:
        combos = combos * 3
    for ci, (prop, outl) in enumerate(combos):
        n = 6 + ci % 3
        tab = gridoracle.int_tables(n, 2, 7, seed + ci, lo=4, hi=6)
        data = gridoracle.data_from_tables(tab, outlier_prob=outl, sizes=[1 + (i % 3) for i in range(n)])
        rec = recorder.ChainRecorder(inner_moves=True)
        res, err = recorder.run_chain(data, seed * 100 + ci, rec=rec, proposal=prop, outlier_prob=outl, subtree_update_prob=0.5, num_iters=(120 if thorough else 40),
                                      burnin=2, num_particles=5, concentration_value=20.0, concentration_update=(ci % 2 == 0))
        label = "%s|outl=%s|n=%d|#%d" % (prop, outl, n, ci)
        if err:
            ck.violation("C04|chain|exception:%s" % err.split(":")[0], "chain aborted: %s [%s]" % (err, label), {"config": label})
            continue
        recorded.append((label, outl > 0, rec.events))
    movetrace.check_chains(ck, "C04", "c04_moves", recorded)
    tm = ck.extra.get("trace_moves", {})
    if min(tm.get("dp_move_changed", 0), tm.get("prg_changed", 0), tm.get("subtree_changed", 0)) < 5:
        ck.note("few tree-changing moves among the recorded steps (%s): the trace validation of the move relations is thin in this run" % tm)


def run(corrupt=None):
    ck = Check("C04")
    env.use_repo()
    thorough = ck.tier == "thorough"
    seed = 1 + ck.seed
    model_runs(ck, thorough, seed)
    table, _ = c01.get_table(seed, n=(4 if thorough else 3))
    canon_table, _ = (table, None) if seed == 1 else c01.get_table(1, n=3)
    base = dict(dist="table", alpha=1.0, np=2, thr=0.5, kernel="semi")
    # data-point and prune-regraft moves
    for which in ("dp", "prg"):
        cfgs = []
        for n in ((1, 2, 3, 4) if thorough else (1, 2, 3)):
            for outl in (False, True):
                if which == "prg" and outl and n == 4 and not thorough:
                    continue
                for w in ("run", "lib"):
                    cfgs.append(dict(base, n=n, wiring=w, outl=outl))
        cfgs.append(dict(base, n=3, wiring="run", outl=True, dist="real", alpha=0.3))
        cfgs.append(dict(base, n=3, wiring="lib", outl=False, dist="real", alpha=2.5))
        if which == "dp":
            # the outlier option on while one data point carries no outlier prior (library use; its terms are then absent)
            cfgs.append(dict(base, n=3, wiring="lib", outl=True, dist="real", alpha=1.1, zero_prior=True))
        c01.run_configs(ck, cfgs, table, which=which, prop="C04", corrupt=corrupt, sigfn=sigfn_for(which))
    mechanism_rows(ck, seed, table)
    single_site_part(ck, seed)
    prg_block_part(ck, seed)
    certain_attachment_part(ck, seed, thorough)
    trace_moves_part(ck, seed, thorough)
    # sweep composition on one tree object (data-point scan, prune-regraft, relabel, prune-regraft), real density
    cfgs = [dict(base, n=3, wiring="run", outl=False, dist="real", alpha=0.6)]
    if thorough:
        cfgs += [dict(base, n=3, wiring="run", outl=True, dist="real", alpha=1.7), dict(base, n=4, wiring="run", outl=False, dist="real", alpha=0.6)]
    c01.run_configs(ck, cfgs, table, which="sweep", prop="C04", sigfn=lambda cfg: "move=sweep|outl=%d" % cfg["outl"])
    # subtree particle Gibbs
    cfgs = []
    for n in (1, 2):
        for k in ("boot", "semi", "full"):
            for outl in (False, True):
                for w in ("run", "lib"):
                    cfgs.append(dict(base, n=n, kernel=k, wiring=w, outl=outl))
    cfgs.append(dict(base, n=2, kernel="semi", wiring="run", outl=True, dist="real", alpha=0.3))
    for outl in (False, True):   # one particle: the move must return its input (all data kept) on 3 points too
        cfgs.append(dict(base, n=3, kernel="semi", wiring="run", outl=outl, np=1))
    if thorough:
        for k in ("boot", "semi", "full"):
            for outl in (False, True):
                cfgs.append(dict(base, n=3, kernel=k, wiring="lib", outl=outl))
    c01.run_configs(ck, cfgs, table, which="subtree", prop="C04", sigfn=sigfn_for("subtree"))
    # canonical instance of the open finding (seed-independent table): fingerprinted
    c01.run_configs(ck, [dict(base, n=3, kernel="full", wiring="lib", outl=False)], canon_table, which="subtree",
                    prop="C04", sigfn=sigfn_for("subtree"))
    ck.rule = ("exact kernel (all RNG outcomes) of each move from every start forest per configuration (n, move, wiring, outliers, "
               "proposal for the subtree move, table/real density); non-trivial = configurations with > 1 start state")
    ck.assumptions = ["EnumRNG mirrors numpy Generator semantics", "F_p decisions: primes 46337/46327",
                      "subtree move with n >= 3 is a listed open finding (F11): its behaviour is pinned by a fingerprint on the canonical "
                      "instance n=3/fully-adapted/library wiring/no outliers/table seed 1"]
    if corrupt:
        return ck
    return ck.finish()


def selftest():
    ck = run(corrupt="pi")
    if not any("move=dp" in v["signature"] or "move=prg" in v["signature"] for v in ck.violations):
        print("SELFTEST FAILED: perturbed target density not detected")
        return 1
    print("selftest: perturbed target detected (%d rejections)" % len(ck.violations))
    return 0


def replay(path):
    body = json.load(open(path))
    env.use_repo()
    ck = Check("C04")
    table, _ = c01.get_table(1 + body.get("seed", 0), n=max(3, body["replay"]["config"]["n"]))
    which = body["replay"].get("which", "dp")
    c01.run_configs(ck, [body["replay"]["config"]], table, which=which, prop="C04", sigfn=sigfn_for(which))
    for v in ck.violations:
        print("REPLAY:", v["signature"], v["message"])
    return 1 if ck.violations else 0
