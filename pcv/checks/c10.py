"""C10 - reported CCFs are feasible on the tree and jointly maximise the likelihood.

M: GridRec.tla max-product part / GridOracle.tla MaxProductIsOptimal - on every forest over <= N data points with
   integer log-likelihood tables (ties and plateaus included) the forward pass as implemented (max-plus convolution
   over children started from an all-zero vector, running maximum, plus own row) attains the definitional maximum
   over all feasible CCF-index assignments (clone >= sum of children, top-level sum <= G-1); TLC prints that optimum.
O: get_map_node_ccfs_and_clonal_prev_dicts on the same instances as real trees (1-3 samples): every CCF is a grid
   point, feasible per sample, the summed per-clone log-likelihood equals TLC's optimum exactly, and clonal
   prevalence = CCF - sum(children) >= -1e-12.
"""
import json
import math

import numpy as np

from .. import env, tlc, absstate, gridoracle
from ..evidence import Check


def check_tree(ck, key, tree, lltab, best, G, D, label, rep):
    from phyclone.process_trace.map import get_map_node_ccfs_and_clonal_prev_dicts

    _, conc = absstate.project(tree, full=False)
    try:
        # the function is called several times on one tree object (every summary command does) and must neither
        # change its answer nor touch the tree's cached arrays
        from .. import treeadt
        before = treeadt._snapshot(tree)[1]
        first = get_map_node_ccfs_and_clonal_prev_dicts(tree)
        get_map_node_ccfs_and_clonal_prev_dicts(tree)
        ccfs, prev = get_map_node_ccfs_and_clonal_prev_dicts(tree)
        if treeadt._snapshot(tree)[1] != before:
            ck.violation("C10|tree_modified", "computing the MAP CCFs changed the tree's cached likelihood arrays (%s)" % absstate.key_str(key), rep)
            return
        if any(not np.array_equal(first[0][k_], ccfs[k_]) for k_ in ccfs):
            ck.violation("C10|not_repeatable", "repeated MAP CCF computations on the same tree object disagree (%s)" % absstate.key_str(key), rep)
            return
    except Exception as ex:
        ck.violation("C10|exception:%s" % type(ex).__name__, "MAP CCF computation raised %s: %s on %s" % (type(ex).__name__, ex, absstate.key_str(key)), rep)
        return
    names = conc["names"]
    if set(ccfs) != set(names) or set(prev) != set(names):
        ck.violation("C10|clones", "CCF dict covers clones %s, tree has %s (%s)" % (sorted(map(str, ccfs)), names, absstate.key_str(key)), rep)
        return
    par = conc["par"]
    kids = {}
    for n_, p in par.items():
        kids.setdefault(p, []).append(n_)
    idx = {}
    for n_ in names:
        v = np.asarray(ccfs[n_], dtype=float) * (G - 1)
        r = np.rint(v)
        if v.shape != (D,) or np.max(np.abs(v - r)) > 1e-9 or np.any(r < 0) or np.any(r > G - 1):
            ck.violation("C10|not_on_grid", "CCF of clone %s = %s is not on the %d-point grid (%s)" % (n_, ccfs[n_], G, absstate.key_str(key)), rep)
            return
        idx[n_] = r.astype(int)
    for i in range(D):
        for n_ in names:
            s = sum(idx[k][i] for k in kids.get(n_, []))
            if idx[n_][i] < s:
                ck.violation("C10|infeasible", "sample %d: clone %s has CCF index %d < sum of its children %d (%s)" % (i, n_, idx[n_][i], s, absstate.key_str(key)), rep)
                return
        top = sum(idx[k][i] for k in kids.get("root", []))
        if top > G - 1:
            ck.violation("C10|infeasible", "sample %d: top-level clones sum to index %d > %d (%s)" % (i, top, G - 1, absstate.key_str(key)), rep)
            return
        score = 0
        for n_ in names:
            for d in conc["dat"][n_]:
                score += int(lltab[d][i][idx[n_][i]])
        if score != best[i]:
            ck.violation("C10|not_optimal", "sample %d: reported CCFs score %d, the maximum over feasible assignments is %d (%s)" % (i, score, best[i], absstate.key_str(key)),
                         dict(rep, reported={str(k): v.tolist() for k, v in idx.items()}))
            return
    for n_ in names:
        want = np.asarray(ccfs[n_], dtype=float) - sum(np.asarray(ccfs[k], dtype=float) for k in kids.get(n_, []))
        got = np.asarray(prev[n_], dtype=float)
        if np.max(np.abs(got - want)) > 1e-12 or np.min(got) < -1e-12:
            ck.violation("C10|clonal_prev", "clonal prevalence of %s = %s, CCF minus children = %s (%s)" % (n_, got, want, absstate.key_str(key)), rep)
            return


def part(ck, n, G, D, seed, hi, corrupt=None, offset=0, lltab=None, label=""):
    from . import c02
    rs = np.random.RandomState(31 + seed)
    # offset: log-likelihoods of large magnitude that differ by little (deep data): the optimum is the same assignment,
    # shifted by (number of data points) * offset, and stays an exact integer
    if lltab is None:
        lltab = rs.randint(0, hi + 1, size=(n, D, G)) + offset
    tab = np.ones_like(lltab)
    oracle, r = gridoracle.run_oracle("c10_%d_%d_%d%s" % (n, G, D, label), tab, lltab=lltab, outl=False, check_def=(G <= 8))
    ck.add_tlc("GridOracle max-product N=%d G=%d D=%d (LL in %d..%d): forward pass = definitional optimum" % (n, G, D, offset, offset + hi), r)
    from phyclone.data.base import DataPoint
    data = [DataPoint(d, np.ascontiguousarray(lltab[d].astype(float))) for d in range(n)]
    for key in sorted(oracle, key=absstate.key_str):
        if not key[0] or key[1]:
            continue
        best = list(oracle[key]["best"])
        if corrupt == "best" and len(key[0]) >= 2:
            best[0] += 1
        for vname, tree in c02.build_variants(key, data):
            ck.evaluations += 1
            check_tree(ck, key, tree, lltab, best, G, D, vname, {"state": absstate.to_json(key), "lltab": lltab.tolist(), "G": G, "variant": vname})
        ck.traces_validated += 1
        if len(key[0]) > 1:
            ck.nontrivial("%d:%d:%d:%s" % (n, G, D, absstate.key_str(key)))
    k = sorted(oracle, key=absstate.key_str)[-1]
    ck.sample({"state": absstate.to_json(k), "best_per_sample": oracle[k]["best"], "ll_tables": lltab.tolist()[:2]})


def written_tables(ck):
    """The values as WRITTEN to the results table (map command and topology archive) on grids whose step is not a short
    decimal (128, 64 and 150 points): on the grid, a clone's value at least the sum of its children's, top-level
    clones at most one, clonal prevalence = value - children's (1e-12, the property's tolerance)."""
    import contextlib
    import io
    import os
    import shutil
    from phyclone.process_trace import write_map_results, write_topology_report
    from phyclone.data.base import DataPoint
    from .. import outputs
    d = env.scratch("c10_written")
    key = absstate.canon({"f": [[0, 1, 2, 3], [1, 2, 3], [2], [3]], "o": []})
    for G in (128, 64, 150):
        rs = np.random.RandomState(G)
        xs = np.linspace(0, 1, G)
        data = []
        for i, centres in enumerate(((0.9, 0.8, 0.95), (0.5, 0.3, 0.6), (0.2, 0.1, 0.3), (0.25, 0.15, 0.2))):
            val = np.array([-((xs - c) ** 2) * 800.0 for c in centres])
            data.append(DataPoint(i, np.ascontiguousarray(val), name="m%d" % i))
        tp = os.path.join(d, "trace_%d.pkl.gz" % G)
        outputs.write_trace_file(tp, [(0, [(key, -3.0, 0), (key, -2.5, 1)])], data, ["S1", "S2", "S3"])
        sink = io.StringIO()
        tf, nf, ap = os.path.join(d, "map.tsv"), os.path.join(d, "map.nwk"), os.path.join(d, "arch.tar.gz")
        with contextlib.redirect_stdout(sink):
            write_map_results(tp, tf, nf)
            write_topology_report(tp, os.path.join(d, "rep.tsv"), topologies_archive=ap)
        for label, table, nw in [("map", outputs.read_table(tf), open(nf).read())] + [("archive " + k, t, w) for k, (t, w) in outputs.read_archive(ap).items()]:
            par = outputs.parse_newick(nw)
            kids = {}
            for c, p in par.items():
                kids.setdefault(p, []).append(c)
            ck.evaluations += 1
            for s_ in sorted(set(table["sample_id"])):
                rows = table[table["sample_id"] == s_]
                ccf = {str(int(r["clone_id"])): float(r["ccf"]) for _, r in rows.iterrows() if int(r["clone_id"]) != -1}
                prev = {str(int(r["clone_id"])): float(r["clonal_prev"]) for _, r in rows.iterrows() if int(r["clone_id"]) != -1}
                rep = {"grid": G, "output": label, "sample": s_, "ccf": ccf, "clonal_prev": prev}
                for c, v in ccf.items():
                    if abs(v * (G - 1) - round(v * (G - 1))) > 1e-9:
                        ck.violation("C10|written|off_grid", "%s, %d-point grid: the written CCF %r of clone %s is not a grid point" % (label, G, v, c), rep)
                        break
                    ch = sum(ccf.get(k, 0.0) for k in kids.get(c, []))
                    if v < ch - 1e-12:
                        ck.violation("C10|written|infeasible", "%s, %d-point grid: clone %s is written with CCF %r, its children sum to %r" % (label, G, c, v, ch), rep)
                        break
                    if abs(prev[c] - (v - ch)) > 1e-12:
                        ck.violation("C10|written|clonal_prev", "%s, %d-point grid: clonal prevalence %r of clone %s is not its CCF minus its children's (%r)" % (label, G, prev[c], c, v - ch), rep)
                        break
                if sum(ccf.get(k, 0.0) for k in kids.get("root", [])) > 1 + 1e-12:
                    ck.violation("C10|written|top_level_sum", "%s, %d-point grid: top-level clones sum to more than one" % (label, G), rep)
        ck.nontrivial("written:%d" % G)
    shutil.rmtree(d, ignore_errors=True)


def written_many_samples(ck):
    """Twelve samples named S1..S12, stored in the order the loader gives them (S1, S10, S11, S12, S2, ...): the CCFs the
    map command and the topology archive WRITE for a sample must attain that sample's optimum (TLC, GridOracle.tla) -
    i.e. every column of values must be written under the name of the sample it was computed for."""
    import contextlib
    import io
    import os
    import shutil
    from phyclone.process_trace import write_map_results, write_topology_report
    from phyclone.data.base import DataPoint
    from .. import outputs
    n, G, D = 2, 5, 12
    rs = np.random.RandomState(77 + ck.seed)
    lltab = rs.randint(0, 10, size=(n, D, G))
    for i in range(D):          # a distinct, sharp optimum per sample
        lltab[0, i, :] = 0
        lltab[0, i, 1 + (i % 4)] = 9 + i
        lltab[1, i, :] = 0
        lltab[1, i, (i // 4) % 2] = 5
    oracle, r = gridoracle.run_oracle("c10_many_samples", np.ones_like(lltab), lltab=lltab, outl=False, check_def=False)
    ck.add_tlc("GridOracle max-product N=%d G=%d D=%d (twelve samples, written tables)" % (n, G, D), r)
    samples = sorted("S%d" % (i + 1) for i in range(D))
    data = [DataPoint(d, np.ascontiguousarray(lltab[d].astype(float)), name="m%d" % d) for d in range(n)]
    d_ = env.scratch("c10_written12")
    for fam in ([[0, 1], [1]], [[0], [1]]):
        key = absstate.canon({"f": fam, "o": []})
        best = list(oracle[key]["best"])
        tp = os.path.join(d_, "trace.pkl.gz")
        outputs.write_trace_file(tp, [(0, [(key, -3.0, 0), (key, -2.5, 1)])], data, samples)
        tf, nf, ap = os.path.join(d_, "map.tsv"), os.path.join(d_, "map.nwk"), os.path.join(d_, "arch.tar.gz")
        with contextlib.redirect_stdout(io.StringIO()):
            write_map_results(tp, tf, nf)
            write_topology_report(tp, os.path.join(d_, "rep.tsv"), topologies_archive=ap)
        for label, table in [("map", outputs.read_table(tf))] + [("archive " + k, t) for k, (t, w) in outputs.read_archive(ap).items()]:
            ck.evaluations += 1
            for i, s_ in enumerate(samples):
                rows = table[table["sample_id"] == s_]
                rep = {"state": absstate.to_json(key), "output": label, "sample": s_, "position_in_trace": i}
                if len(rows) != n:
                    ck.violation("C10|written12|rows", "%s: sample %s has %d rows for %d mutations" % (label, s_, len(rows), n), rep)
                    break
                score = 0
                for _, row in rows.iterrows():
                    dd = int(str(row["mutation_id"])[1:])
                    v = float(row["ccf"]) * (G - 1)
                    if abs(v - round(v)) > 1e-9:
                        score = None
                        break
                    score += int(lltab[dd][i][int(round(v))])
                if score != best[i]:
                    ck.violation("C10|written12|not_optimal", "%s, forest %s: the CCFs written for sample %s score %s on that sample's likelihoods, the maximum over feasible assignments is %d" % (
                        label, absstate.key_str(key), s_, score, best[i]), rep)
                    break
        ck.nontrivial("written12:" + absstate.key_str(key))
    shutil.rmtree(d_, ignore_errors=True)


def wide_grid_part(ck):
    """A grid of 301 points with optima beyond index 255 (grid indices must survive whatever integer type stores them).
    TLC's oracle does not reach this grid size; for the two 2-clone forests the definitional optimum (proved equal to the
    recursion by GridOracle.tla on the small grids) is a plain maximum over index pairs, evaluated here directly."""
    from phyclone.data.base import DataPoint
    from . import c02
    G = 301
    ll = np.array([[[-abs(g - pk) for g in range(G)], [-2 * abs(g - pk2) for g in range(G)]] for pk, pk2 in ((290, 280), (270, 262))])   # (2 points, 2 samples, G)
    data = [DataPoint(d, np.ascontiguousarray(ll[d].astype(float))) for d in range(2)]
    idx = np.arange(G)
    for fam, feasible in (([[0, 1], [1]], lambda i, j: j <= i), ([[0], [1]], lambda i, j: i + j <= G - 1)):
        key = absstate.canon({"f": fam, "o": []})
        best = []
        for s_ in range(2):
            tot = ll[0, s_][:, None] + ll[1, s_][None, :]
            mask = feasible(idx[:, None], idx[None, :])
            best.append(int(np.max(np.where(mask, tot, -10 ** 9))))
        for vname, tree in c02.build_variants(key, data)[:2]:
            ck.evaluations += 1
            check_tree(ck, key, tree, ll, best, G, 2, vname + "_G301", {"state": absstate.to_json(key), "G": G, "variant": vname})
        ck.nontrivial("wide:%s" % absstate.key_str(key))


def run(corrupt=None):
    ck = Check("C10")
    env.use_repo()
    if ck.tier == "thorough":
        part(ck, 4, 4, 3, ck.seed, 3, corrupt)
        part(ck, 5, 3, 1, ck.seed + 1, 2)
        part(ck, 5, 4, 2, ck.seed + 4, 2)
        part(ck, 4, 6, 1, ck.seed + 2, 1)
        part(ck, 3, 5, 2, ck.seed + 3, 9)
        part(ck, 4, 4, 2, ck.seed + 5, 3, offset=400000)
    else:
        part(ck, 4, 3, 2, ck.seed, 2, corrupt)
        part(ck, 4, 4, 1, ck.seed + 1, 1)
        part(ck, 3, 4, 1, ck.seed + 2, 3, offset=400000)
    # a lineage that is absent from one sample (its clones sit at CCF 0 there) but present, with children, in the other
    def peak(k, G=4):
        return [9 - 4 * abs(j - k) for j in range(G)]
    absent = np.array([[peak(3), peak(3)], [peak(0), peak(2)], [peak(0), peak(1)], [peak(0), peak(1)]])
    part(ck, 4, 4, 2, ck.seed, 0, lltab=absent, label="_absent")
    wide_grid_part(ck)
    written_tables(ck)
    written_many_samples(ck)
    ck.rule = ("every forest (no outliers) on <= 4-5 data points with integer log-likelihood tables drawn from 0..hi (many ties), three "
               "construction histories each; non-trivial = forests with > 1 clone")
    ck.exhaustive = True
    ck.assumptions = ["integer-valued log-likelihoods make optimality an exact integer comparison", "grid sizes 3-6 (the traceback is grid-size generic)"]
    if corrupt:
        return ck
    return ck.finish()


def selftest():
    ck = run(corrupt="best")
    ok = any(v["signature"] == "C10|not_optimal" for v in ck.violations)
    print("selftest:", "corrupted optimum detected" if ok else "FAILED")
    return 0 if ok else 1


def replay(path):
    body = json.load(open(path))
    env.use_repo()
    r = body["replay"]
    from phyclone.data.base import DataPoint
    lltab = np.array(r["lltab"])
    data = [DataPoint(d, np.ascontiguousarray(lltab[d].astype(float))) for d in range(lltab.shape[0])]
    key = absstate.canon(r["state"])
    tree = absstate.build(key, data)
    from phyclone.process_trace.map import get_map_node_ccfs_and_clonal_prev_dicts
    print(get_map_node_ccfs_and_clonal_prev_dicts(tree))
    return 0
