"""C07 - every tree is a well-formed forest and no move loses or duplicates data.

M: TreeADT.tla invariants InvWF (one parent, reachable, unique names, name<->index consistency abstracted, data in
   exactly one place), InvConserved (data split between the live objects during composite moves), NamesUnique over
   the closure of the edit grammar; RelabelKeepsKeys deviation refuted.  Moves.tla ClosedInv / PGibbs row sums:
   every move maps forests over the data to forests over the same data.
O: the projection's consistency check (graph, name<->index maps, _data lists, payload sets must agree) on every
   co-explored edge and in-place walk step (shared with C06), on every output tree of every enumerated RNG path
   of the burn-in SMC, particle-Gibbs, subtree, data-point and prune-regraft samplers, and on every sampler call
   and trace entry of seeded end-to-end chains; multiset of data in = out.
"""
import json

from .. import env, tlc, absstate, treeadt, recorder, movetrace
from ..evidence import Check
from . import c01, c06


def chains(ck, seed, thorough, corrupt=None):
    import numpy as np
    from .. import gridoracle

    n_events = 0
    recorded = []
    combos = []
    for prop in ("bootstrap", "semi-adapted", "fully-adapted"):
        for outl in (0, 0.2):
            for sub in (0.0, 0.5):
                combos.append((prop, outl, sub))
    if not thorough:
        combos = combos[::2] + [("semi-adapted", 0.2, 0.5)]
    # nested clones (sharply peaked tables: two clonal points, a subclone of three, two points that contradict each other
    # between the samples and tend to become outliers) with frequent subtree updates: the subtree move then picks inner
    # blocks and hands them the outliers (it edits its input tree in place)
    combos += [("semi-adapted", 0.21, 0.6), ("bootstrap", 0.21, 0.6)]
    # a finite time limit that is used up at once / after a moment (it may expire inside the burn-in): whatever is
    # recorded must still be complete forests
    timed = {len(combos): 0.0, len(combos) + 1: 0.003, len(combos) + 2: 0.0}
    combos += [("semi-adapted", 0.2, 0.0), ("fully-adapted", 0, 0.5), ("bootstrap", 0, 0.0)]

    def peaked(peak, G=7):
        r = np.ones(G, dtype=int)
        r[peak] = 200
        for q in (peak - 1, peak + 1):
            if 0 <= q < G:
                r[q] = 20
        return r

    for ci, (prop, outl, sub) in enumerate(combos):
        nested = outl == 0.21
        if nested:
            tab = np.array([[peaked(a), peaked(b)] for a, b in ((6, 6), (6, 6), (3, 3), (3, 2), (2, 3), (6, 0), (0, 6))])
            n = tab.shape[0]
        else:
            n = 4 + (ci % 2)
            tab = gridoracle.int_tables(n, 2, 11, seed + ci, lo=1, hi=9)
        data = gridoracle.data_from_tables(tab, outlier_prob=outl)
        rec = recorder.ChainRecorder(inner_moves=True)
        res, err = recorder.run_chain(data, seed * 1000 + ci, rec=rec, proposal=prop, outlier_prob=outl, subtree_update_prob=sub,
                                      num_iters=(120 if thorough else 40), burnin=2, num_particles=(6 if nested else 4), max_time=timed.get(ci, float("inf")))
        label = "%s|outl=%s|sub=%s|n=%d" % (prop, outl, sub, n) + ("|max_time=%s" % timed[ci] if ci in timed else "")
        if err:
            ck.violation("C07|chain|exception:%s" % err.split(":")[0], "chain aborted: %s [%s]" % (err, label), {"config": label, "events": len(rec.events)})
        for ev in rec.events:
            n_events += 1
            if ev["ev"] == "sample_tree":
                if "in_error" in ev or "out_error" in ev:
                    ck.violation("C07|chain|malformed|%s" % ev["sampler"], "%s sampler %s a malformed tree: %s [%s]" % (
                        ev["sampler"], "received" if "in_error" in ev else "returned", ev.get("in_error") or ev.get("out_error"), label), {"config": label})
                elif ev.get("conserved") is False:
                    ck.violation("C07|chain|data_not_conserved|%s" % ev["sampler"], "%s sampler returned data %s for input data %s [%s]" % (
                        ev["sampler"], sorted(absstate.data_ids(ev["out"])), sorted(absstate.data_ids(ev["in"])), label), {"config": label})
            elif ev["ev"] == "append" and "tree_error" in ev:
                ck.violation("C07|chain|malformed|trace_entry", "trace entry holds a malformed tree: %s [%s]" % (ev["tree_error"], label), {"config": label})
        # the recorded entries restored at the END of the run: no later move may have damaged a tree already handed out
        if res is not None:
            from phyclone.tree import Tree
            for j, en in enumerate(res["trace"]):
                try:
                    k_end = absstate.project(Tree.from_dict(en["tree"]), full=True)[0]
                    if absstate.data_ids(k_end) != set(range(n)):
                        ck.violation("C07|chain|recorded_tree_lost_data", "trace entry %d restored after the run holds data %s of %s [%s]" % (
                            j, sorted(absstate.data_ids(k_end)), list(range(n)), label), {"config": label, "entry": j})
                        break
                except absstate.Inconsistent as ex:
                    ck.violation("C07|chain|recorded_tree_malformed", "trace entry %d restored after the run is malformed: %s [%s]" % (j, ex, label), {"config": label, "entry": j})
                    break
        recorded.append((label, outl > 0, rec.events))
        ck.nontrivial("chain:" + label)
    # every recorded step against the move relations (TraceMoves.tla): continuity, candidate sets, block structure
    rejected = movetrace.check_chains(ck, "C07", "c07_moves", recorded, corrupt=corrupt)
    ck.evaluations += n_events
    ck.traces_validated += len(combos)
    ck.extra["chain_events_checked"] = n_events
    return rejected


def graft_histories(ck, n=5):
    """Every forest on n points (enumerated by TLC, Density.tla) rebuilt the way the subtree move builds trees: a clone's
    subtree cut out of a copy (the remaining clones keep their labels, with gaps) and a freshly built subtree - of the
    same shape, or one clone holding all its data - grafted where it hung.  The result must be a well-formed forest
    with exactly the expected clades and outliers."""
    from . import c03
    from .. import gridoracle
    cfg = tlc.cfg_text(constants={"N": n, "OutliersOn": "TRUE", "Dump": "TRUE", "Starts": "{}"}, invariants=["FeatConsistent", "Emit"])
    r = tlc.run_tlc("c07_forests", "Density", cfg, timeout=3000)
    tlc.require_ok(r, "Density (forest enumeration)")
    ck.add_tlc("Density.tla N=%d: all forests (cut-and-graft histories)" % n, r)
    keys = [absstate.canon(x["st"]) for x in r.json_prints]
    keys = [k for k in keys if absstate.data_ids(k) == set(range(n)) and len(k[0]) >= 2]
    data = gridoracle.data_from_tables(gridoracle.int_tables(n, 1, 3, 11), outlier_prob=0.2)
    nvar = 0
    ncand = 0
    for key in sorted(keys, key=absstate.key_str):
        tree0 = absstate.build(key, data)
        try:
            variants = c03.cut_and_graft_variants(key, data, tree0)
        except Exception as ex:  # noqa
            import traceback
            if not any("/phyclone/" in f.filename for f in traceback.extract_tb(ex.__traceback__)):
                raise
            ck.violation("C07|graft_history|exception", "cutting and grafting a subtree of %s raised %s: %s" % (absstate.key_str(key), type(ex).__name__, ex), {"state": absstate.to_json(key)})
            continue
        for vname, t, vkey in variants:
            nvar += 1
            try:
                got = absstate.project(t, full=True)[0]
            except absstate.Inconsistent as ex:
                ck.violation("C07|graft_history|malformed", "the tree built by %s from %s is not a well-formed forest: %s" % (vname, absstate.key_str(key), ex), {"state": absstate.to_json(key), "variant": vname})
                continue
            if got != vkey:
                ck.violation("C07|graft_history|wrong_tree", "the tree built by %s from %s holds %s, expected %s" % (vname, absstate.key_str(key), absstate.key_str(got), absstate.key_str(vkey)),
                             {"state": absstate.to_json(key), "variant": vname})
            else:
                ncand += dp_candidates_on(ck, t, vname, key, n)
        ck.nontrivial("graft:" + absstate.key_str(key))
    ck.evaluations += nvar + ncand
    ck.traces_validated += len(keys)
    ck.extra["graft_histories"] = nvar
    ck.extra["dp_candidates_on_grafted_trees"] = ncand


class _PickRNG(object):
    """Stands in for the generator of DataPointSampler._sample_tree: the categorical draw returns the outcome asked for."""

    def __init__(self):
        self.pick = 0
        self.width = None

    def multinomial(self, n, q):
        import numpy as np
        self.width = len(q)
        out = np.zeros(len(q), dtype=int)
        out[self.pick % len(q)] = 1
        return out


def dp_candidates_on(ck, tree, vname, key, n):
    """EVERY outcome of the data-point move for every movable data point of a tree whose clone names have gaps (it came
    out of a subtree move): each must be a well-formed forest over the same data, and the input tree stays what it was."""
    from phyclone.mcmc.gibbs_mh import DataPointSampler
    from phyclone.tree import FSCRPDistribution, TreeJointDistribution
    rng = _PickRNG()
    sampler = DataPointSampler(TreeJointDistribution(FSCRPDistribution(1.0)), rng, outliers=True)
    before = absstate.project(tree, full=True)[0]
    labels = dict(tree.labels)
    count = 0
    for d, old in sorted(labels.items()):
        if not (old == tree.outlier_node_name or tree.get_data_len(old) > 1):
            continue
        j = 0
        while True:
            rng.pick = j
            ctx = {"state": absstate.to_json(key), "variant": vname, "data_point": d, "outcome": j}
            try:
                out = sampler._sample_tree(d, tree, old)
            except Exception as ex:  # noqa
                import traceback
                if not any("/phyclone/" in f.filename for f in traceback.extract_tb(ex.__traceback__)):
                    raise
                ck.violation("C07|dp_on_grafted|exception", "the data-point move of point %d on the tree built by %s from %s raised %s: %s" % (d, vname, absstate.key_str(key), type(ex).__name__, ex), ctx)
                break
            count += 1
            try:
                got = absstate.project(out, full=True)[0]
                if absstate.data_ids(got) != set(range(n)):
                    ck.violation("C07|dp_on_grafted|data_not_conserved", "outcome %d of the data-point move of point %d on the tree built by %s from %s holds data %s" % (
                        j, d, vname, absstate.key_str(key), absstate.key_str(got)), ctx)
            except absstate.Inconsistent as ex:
                ck.violation("C07|dp_on_grafted|malformed", "outcome %d of the data-point move of point %d on the tree built by %s from %s is not a well-formed forest: %s" % (
                    j, d, vname, absstate.key_str(key), ex), ctx)
            j += 1
            if rng.width is None or j >= rng.width:
                break
    try:
        after = absstate.project(tree, full=True)[0]
        if after != before:
            ck.violation("C07|dp_on_grafted|input_changed", "the data-point move changed its input tree (built by %s from %s) to %s" % (vname, absstate.key_str(key), absstate.key_str(after)), {"state": absstate.to_json(key), "variant": vname})
    except absstate.Inconsistent as ex:
        ck.violation("C07|dp_on_grafted|input_damaged", "the data-point move left its input tree (built by %s from %s) malformed: %s" % (vname, absstate.key_str(key), ex), {"state": absstate.to_json(key), "variant": vname})
    return count


def library_driving(ck, thorough):
    """The samplers driven as a library (as the repository's tests do): ONE kernel shared by the whole-tree and the subtree
    particle-Gibbs samplers, data-point and prune-regraft moves in between, outlier modelling on, and no clearing of the
    proposal memo tables between sweeps.  Every tree a sampler returns must be a well-formed forest over all data points
    (and stay one while the next moves run)."""
    import numpy as np
    from .. import chainlib
    from phyclone.tree import FSCRPDistribution, TreeJointDistribution, Tree
    from phyclone.smc.kernels import SemiAdaptedKernel, FullyAdaptedKernel, BootstrapKernel
    from phyclone.smc.utils import RootPermutationDistribution
    from phyclone.mcmc.particle_gibbs import ParticleGibbsTreeSampler, ParticleGibbsSubtreeSampler
    from phyclone.mcmc.gibbs_mh import DataPointSampler, PruneRegraphSampler
    from phyclone.utils.dev import clear_proposal_dist_caches
    n = 5
    nret = 0
    for ki, Kcls in enumerate((SemiAdaptedKernel, FullyAdaptedKernel, BootstrapKernel)):
        for sd in range(6 if thorough else 3):
            clear_proposal_dist_caches()
            data = chainlib.make_data(n, 1, 9, 11 + sd + 3 * ki, 0.2)
            rng = np.random.default_rng(100 * ki + sd)
            td = TreeJointDistribution(FSCRPDistribution(1.0))
            kern = Kcls(td, rng, outlier_proposal_prob=0.1, perm_dist=RootPermutationDistribution())
            movers = [("particle Gibbs", ParticleGibbsTreeSampler(kern, rng, num_particles=8, resample_threshold=0.5)),
                      ("subtree particle Gibbs", ParticleGibbsSubtreeSampler(kern, rng, num_particles=8, resample_threshold=0.5)),
                      ("data-point move", DataPointSampler(td, rng, outliers=True)),
                      ("prune-regraft", PruneRegraphSampler(td, rng))]
            tree = Tree.get_single_node_tree(data)
            label = "%s, seed %d" % (Kcls.__name__, sd)
            stop = False
            for it in range(40 if thorough else 25):
                for mname, mv in (movers if it % 2 else movers[:2]):
                    try:
                        tree = mv.sample_tree(tree)
                        nret += 1
                        k_ = absstate.project(tree, full=True)[0]
                        if absstate.data_ids(k_) != set(range(n)):
                            ck.violation("C07|library|data_not_conserved|%s" % mname.replace(" ", "_"), "sweep %d: the %s returned a tree holding data %s of %s [%s, no cache clears]" % (
                                it, mname, sorted(absstate.data_ids(k_)), list(range(n)), label), {"kernel": Kcls.__name__, "seed": sd, "sweep": it})
                            stop = True
                    except absstate.Inconsistent as ex:
                        ck.violation("C07|library|malformed|%s" % mname.replace(" ", "_"), "sweep %d: the %s returned a malformed tree: %s [%s, no cache clears]" % (it, mname, ex, label),
                                     {"kernel": Kcls.__name__, "seed": sd, "sweep": it})
                        stop = True
                    except Exception as ex:  # noqa
                        import traceback
                        if not any("/phyclone/" in f.filename for f in traceback.extract_tb(ex.__traceback__)):
                            raise
                        ck.violation("C07|library|exception|%s" % mname.replace(" ", "_"), "sweep %d: the %s raised %s: %s [%s, no cache clears]" % (it, mname, type(ex).__name__, ex, label),
                                     {"kernel": Kcls.__name__, "seed": sd, "sweep": it})
                        stop = True
                    if stop:
                        break
                if stop:
                    break
            ck.nontrivial("library:" + label)
    clear_proposal_dist_caches()
    ck.evaluations += nret
    ck.extra["library_driving_returned_trees"] = nret


def run(corrupt=None):
    ck = Check("C07")
    env.use_repo()
    thorough = ck.tier == "thorough"
    seed = 1 + ck.seed
    # --- model
    c06.neg_runs(ck)
    res = c06.explore(ck, 3, "int", ck.seed, job="c07_graph")
    ck.traces_validated += res["edges"]
    ck.evaluations += res["edges"]
    if corrupt == "inconsistent":
        res["inconsistent"].append({"act": {"name": "selftest"}, "error": "injected"})
    for kind in ("inconsistent", "exception"):
        for it in res[kind][:100]:
            ck.violation("C07|%s|%s" % (kind, it["act"]["name"]), "%s after %s (%s): %s" % (kind, json.dumps(it["act"]), it.get("restore"), it["error"]), it)
    for it in res["mismatch"][:8]:
        # a projected target that is not a spec successor.  If only clone names / bookkeeping differ (same clades and
        # outliers as a specified result) the spec's naming discipline has drifted - not a violation of this property;
        # a different forest (a clone under the wrong parent, data in another clone) is.
        if it.get("names_only"):
            ck.model_drift("result of %s equals a specified result up to clone names" % json.dumps(it["act"]))
        else:
            ck.violation("C07|edge_not_in_spec|%s" % it["act"]["name"], "result of %s is not one of the specified results" % json.dumps(it["act"]), it)
    ck.extra["coexploration"] = {k: res[k] for k in ("edges", "states", "spec_states", "spec_edges", "max_depth")}
    for i in range(res["states"]):
        ck.nontrivial("adt:%d" % i)
    edges, issues, unmatched = c06.walks(ck, 4, (300 if thorough else 60), 60, ck.seed, kind="int", job="c07_walk")
    for kind_, it in issues[:100]:
        if kind_ in ("inconsistent", "exception"):
            ck.violation("C07|%s|%s" % (kind_, it["act"]["name"]), "%s in an in-place walk after %s: %s" % (kind_, json.dumps(it["act"]), it["error"]), it)
    if unmatched:
        # re-validate the rejected steps comparing targets as abstract forests only: name-only differences are drift
        rej = [edges[k - 1] for k in unmatched]
        r2, un2 = treeadt.validate_edges("c07_walk_abs", rej, [0, 1, 2, 3], abstract_only=True)
        hard = {id(rej[k - 1]) for k in un2}
        for e in rej[:8]:
            if id(e) in hard:
                ck.violation("C07|edge_not_in_spec|%s" % e["act"]["name"], "recorded step is not a TreeADT step: %s" % json.dumps(e["act"]), {"edge": e})
            else:
                ck.model_drift("recorded step %s matches the specification up to clone names" % json.dumps(e["act"]))
    # --- every output of every sampler on every RNG path
    table, _ = c01.get_table(seed, n=3)
    base = dict(dist="table", alpha=1.0, np=2, thr=0.5)
    for which in ("burnin", "tree", "subtree", "dp", "prg"):
        cfgs = []
        for n in ((1, 2, 3) if (thorough or which in ("dp", "prg")) else (1, 2)):
            for k in (("boot", "semi", "full") if which in ("burnin", "tree", "subtree") else ("semi",)):
                for outl in (False, True):
                    if n == 3 and which in ("burnin", "tree", "subtree") and (k != "semi" or not thorough):
                        continue
                    cfgs.append(dict(base, n=n, kernel=k, wiring="run", outl=outl))
        if which in ("tree", "subtree", "burnin"):
            # one particle (the retained path only): cheap, and exercises extract / outlier hand-over / re-attach on 3 points
            for outl in (False, True):
                cfgs.append(dict(base, n=3, kernel="semi", wiring="run", outl=outl, np=1))
                cfgs.append(dict(base, n=3, kernel="full", wiring="lib", outl=outl, np=1, thr=1.0))
        c01.run_configs(ck, cfgs, table, which=which, prop="C07", structural_only=True,
                        sigfn=lambda cfg, which=which: "sampler=%s|outl=%d" % (which, cfg["outl"]))
    # --- swarms of real conditional-SMC passes: lineage / retained-path / data-conservation invariants of PGibbsSM
    from .. import pgtrace
    total, unmatched, violated = pgtrace.mechanism_check(ck, "C07", thorough, seed)
    for v in violated:
        ck.violation("C07|smc_invariant|%s" % v, "a recorded conditional-SMC swarm violates %s (retained path / lineages / data conservation)" % v, {"invariant": v})
    for tr in unmatched[:3]:
        ck.model_drift("recorded conditional-SMC swarms are not a behaviour of PGibbsSM (start %s)" % json.dumps(tr["s0"]))
    ck.extra["swarm_traces_recorded"] = total
    graft_histories(ck)
    # the run loop: every recorded entry is a tree over all data points (Chain.tla EntriesWhole); an SMC pass of the burn-in
    # that may stop when the time limit is used up (deviation InterruptibleSMC) is refuted
    from .. import chainlib
    rc_ = chainlib.model_check_chain("c07_chain")
    tlc.require_ok(rc_, "Chain model (EntriesWhole)")
    ck.add_tlc("Chain.tla over 2592 option records: every recorded entry holds all data points", rc_)
    rn_ = chainlib.model_check_chain("c07_chain_int", interruptible=True)
    ck.add_tlc("DEV a burn-in SMC pass may stop when the time limit is used up (must violate EntriesWhole)", rn_, must_fail=True)
    if "EntriesWhole" not in rn_.violated:
        raise tlc.TLCError("deviation not refuted: %s" % rn_.summary())
    library_driving(ck, thorough)
    c06.extract_then_edit(ck, "C07", 4)
    # --- seeded end-to-end chains
    rejected = chains(ck, seed, thorough, corrupt=corrupt)
    ck.extra["trace_moves_rejections"] = [list(x) for x in (rejected or [])][:10]
    ck.rule = ("(a) all realised edges of the TreeADT closure on 3 points + in-place walks on 4 points, (b) every output tree of every "
               "RNG path of the five samplers on <= 2-3 points, (c) every sampler call / trace entry of seeded chains; "
               "distinct_nontrivial = distinct ADT states + sampler configurations with > 1 start state + chain configurations")
    ck.assumptions = ["the projection reads Tree internals (_graph, _node_indices, _node_indices_rev, _data, payloads) without calling mutating accessors"]
    if corrupt:
        return ck
    return ck.finish()


def selftest():
    ck = run(corrupt="inconsistent")
    ok = any(v["signature"].startswith("C07|inconsistent") for v in ck.violations)
    print("selftest:", "injected inconsistency reported" if ok else "FAILED")
    ck2 = run(corrupt="moves")
    ok2 = any("dp_move:result_is_not_a_candidate" in x[2] for x in ck2.extra.get("trace_moves_rejections", []))
    print("selftest:", "altered recorded reassignment rejected by TraceMoves.tla" if ok2 else "FAILED (TraceMoves)")
    ok = ok and ok2
    return 0 if ok else 1


def replay(path):
    body = json.load(open(path))
    print(json.dumps(body["replay"], indent=1)[:3000])
    return 0
