"""C07 - every tree is a well-formed forest and no move loses or duplicates data.

M: TreeADT.tla invariants InvWF (one parent, reachable, unique names, name<->index consistency abstracted, data in
   exactly one place), InvConserved (data split between the live objects during composite moves), NamesUnique over
   the closure of the edit grammar; RelabelKeepsKeys deviation refuted.  Moves.tla ClosedInv / PGibbs row sums:
   every move maps forests over the data to forests over the same data.
O: the projection's consistency check (graph, name<->index maps, _data lists, payload sets must agree) on every
   co-explored edge and in-place walk step (shared with C06), on every output tree of every enumerated RNG path
   of the burn-in SMC, particle-Gibbs, subtree, data-point and prune-regraft samplers, and on every sampler call
   and trace entry of seeded end-to-end chains; multiset of data in = out.
"""
import json

from .. import env, tlc, absstate, treeadt, recorder, movetrace
from ..evidence import Check
from . import c01, c06


def chains(ck, seed, thorough, corrupt=None):
    import numpy as np
    from .. import gridoracle

    n_events = 0
    recorded = []
    combos = []
    for prop in ("bootstrap", "semi-adapted", "fully-adapted"):
        for outl in (0, 0.2):
            for sub in (0.0, 0.5):
                combos.append((prop, outl, sub))
    if not thorough:
        combos = combos[::2] + [("semi-adapted", 0.2, 0.5)]
    for ci, (prop, outl, sub) in enumerate(combos):
        n = 4 + (ci % 2)
        tab = gridoracle.int_tables(n, 2, 11, seed + ci, lo=1, hi=9)
        data = gridoracle.data_from_tables(tab, outlier_prob=outl)
        rec = recorder.ChainRecorder(inner_moves=True)
        res, err = recorder.run_chain(data, seed * 1000 + ci, rec=rec, proposal=prop, outlier_prob=outl, subtree_update_prob=sub,
                                      num_iters=(120 if thorough else 40), burnin=2, num_particles=4)
        label = "%s|outl=%s|sub=%s|n=%d" % (prop, outl, sub, n)
        if err:
            ck.violation("C07|chain|exception:%s" % err.split(":")[0], "chain aborted: %s [%s]" % (err, label), {"config": label, "events": len(rec.events)})
        for ev in rec.events:
            n_events += 1
            if ev["ev"] == "sample_tree":
                if "in_error" in ev or "out_error" in ev:
                    ck.violation("C07|chain|malformed|%s" % ev["sampler"], "%s sampler %s a malformed tree: %s [%s]" % (
                        ev["sampler"], "received" if "in_error" in ev else "returned", ev.get("in_error") or ev.get("out_error"), label), {"config": label})
                elif ev.get("conserved") is False:
                    ck.violation("C07|chain|data_not_conserved|%s" % ev["sampler"], "%s sampler returned data %s for input data %s [%s]" % (
                        ev["sampler"], sorted(absstate.data_ids(ev["out"])), sorted(absstate.data_ids(ev["in"])), label), {"config": label})
            elif ev["ev"] == "append" and "tree_error" in ev:
                ck.violation("C07|chain|malformed|trace_entry", "trace entry holds a malformed tree: %s [%s]" % (ev["tree_error"], label), {"config": label})
        recorded.append((label, outl > 0, rec.events))
        ck.nontrivial("chain:" + label)
    # every recorded step against the move relations (TraceMoves.tla): continuity, candidate sets, block structure
    rejected = movetrace.check_chains(ck, "C07", "c07_moves", recorded, corrupt=corrupt)
    ck.evaluations += n_events
    ck.traces_validated += len(combos)
    ck.extra["chain_events_checked"] = n_events
    return rejected


def run(corrupt=None):
    ck = Check("C07")
    env.use_repo()
    thorough = ck.tier == "thorough"
    seed = 1 + ck.seed
    # --- model
    c06.neg_runs(ck)
    res = c06.explore(ck, 3, "int", ck.seed, job="c07_graph")
    ck.traces_validated += res["edges"]
    ck.evaluations += res["edges"]
    if corrupt == "inconsistent":
        res["inconsistent"].append({"act": {"name": "selftest"}, "error": "injected"})
    for kind in ("inconsistent", "exception"):
        for it in res[kind][:100]:
            ck.violation("C07|%s|%s" % (kind, it["act"]["name"]), "%s after %s (%s): %s" % (kind, json.dumps(it["act"]), it.get("restore"), it["error"]), it)
    for it in res["mismatch"][:8]:
        # a projected target that is not a spec successor.  If only clone names / bookkeeping differ (same clades and
        # outliers as a specified result) the spec's naming discipline has drifted - not a violation of this property;
        # a different forest (a clone under the wrong parent, data in another clone) is.
        if it.get("names_only"):
            ck.model_drift("result of %s equals a specified result up to clone names" % json.dumps(it["act"]))
        else:
            ck.violation("C07|edge_not_in_spec|%s" % it["act"]["name"], "result of %s is not one of the specified results" % json.dumps(it["act"]), it)
    ck.extra["coexploration"] = {k: res[k] for k in ("edges", "states", "spec_states", "spec_edges", "max_depth")}
    for i in range(res["states"]):
        ck.nontrivial("adt:%d" % i)
    edges, issues, unmatched = c06.walks(ck, 4, (300 if thorough else 60), 60, ck.seed, kind="int", job="c07_walk")
    for kind_, it in issues[:100]:
        if kind_ in ("inconsistent", "exception"):
            ck.violation("C07|%s|%s" % (kind_, it["act"]["name"]), "%s in an in-place walk after %s: %s" % (kind_, json.dumps(it["act"]), it["error"]), it)
    if unmatched:
        # re-validate the rejected steps comparing targets as abstract forests only: name-only differences are drift
        rej = [edges[k - 1] for k in unmatched]
        r2, un2 = treeadt.validate_edges("c07_walk_abs", rej, [0, 1, 2, 3], abstract_only=True)
        hard = {id(rej[k - 1]) for k in un2}
        for e in rej[:8]:
            if id(e) in hard:
                ck.violation("C07|edge_not_in_spec|%s" % e["act"]["name"], "recorded step is not a TreeADT step: %s" % json.dumps(e["act"]), {"edge": e})
            else:
                ck.model_drift("recorded step %s matches the specification up to clone names" % json.dumps(e["act"]))
    # --- every output of every sampler on every RNG path
    table, _ = c01.get_table(seed, n=3)
    base = dict(dist="table", alpha=1.0, np=2, thr=0.5)
    for which in ("burnin", "tree", "subtree", "dp", "prg"):
        cfgs = []
        for n in ((1, 2, 3) if (thorough or which in ("dp", "prg")) else (1, 2)):
            for k in (("boot", "semi", "full") if which in ("burnin", "tree", "subtree") else ("semi",)):
                for outl in (False, True):
                    if n == 3 and which in ("burnin", "tree", "subtree") and (k != "semi" or not thorough):
                        continue
                    cfgs.append(dict(base, n=n, kernel=k, wiring="run", outl=outl))
        if which in ("tree", "subtree", "burnin"):
            # one particle (the retained path only): cheap, and exercises extract / outlier hand-over / re-attach on 3 points
            for outl in (False, True):
                cfgs.append(dict(base, n=3, kernel="semi", wiring="run", outl=outl, np=1))
                cfgs.append(dict(base, n=3, kernel="full", wiring="lib", outl=outl, np=1, thr=1.0))
        c01.run_configs(ck, cfgs, table, which=which, prop="C07", structural_only=True,
                        sigfn=lambda cfg, which=which: "sampler=%s|outl=%d" % (which, cfg["outl"]))
    # --- swarms of real conditional-SMC passes: lineage / retained-path / data-conservation invariants of PGibbsSM
    from .. import pgtrace
    total, unmatched, violated = pgtrace.mechanism_check(ck, "C07", thorough, seed)
    for v in violated:
        ck.violation("C07|smc_invariant|%s" % v, "a recorded conditional-SMC swarm violates %s (retained path / lineages / data conservation)" % v, {"invariant": v})
    for tr in unmatched[:3]:
        ck.model_drift("recorded conditional-SMC swarms are not a behaviour of PGibbsSM (start %s)" % json.dumps(tr["s0"]))
    ck.extra["swarm_traces_recorded"] = total
    # --- seeded end-to-end chains
    rejected = chains(ck, seed, thorough, corrupt=corrupt)
    ck.extra["trace_moves_rejections"] = [list(x) for x in (rejected or [])][:10]
    ck.rule = ("(a) all realised edges of the TreeADT closure on 3 points + in-place walks on 4 points, (b) every output tree of every "
               "RNG path of the five samplers on <= 2-3 points, (c) every sampler call / trace entry of seeded chains; "
               "distinct_nontrivial = distinct ADT states + sampler configurations with > 1 start state + chain configurations")
    ck.assumptions = ["the projection reads Tree internals (_graph, _node_indices, _node_indices_rev, _data, payloads) without calling mutating accessors"]
    if corrupt:
        return ck
    return ck.finish()


def selftest():
    ck = run(corrupt="inconsistent")
    ok = any(v["signature"].startswith("C07|inconsistent") for v in ck.violations)
    print("selftest:", "injected inconsistency reported" if ok else "FAILED")
    ck2 = run(corrupt="moves")
    ok2 = any("dp_move:result_is_not_a_candidate" in x[2] for x in ck2.extra.get("trace_moves_rejections", []))
    print("selftest:", "altered recorded reassignment rejected by TraceMoves.tla" if ok2 else "FAILED (TraceMoves)")
    ok = ok and ok2
    return 0 if ok else 1


def replay(path):
    body = json.load(open(path))
    print(json.dumps(body["replay"], indent=1)[:3000])
    return 0
