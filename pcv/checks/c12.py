"""C12 - result tables list every mutation once per sample, consistent with the tree.

M: SummariesTable.tla - for every forest on <= N points (any outlier subset, incl. all-outlier), cluster sizes 1-3 and
   1-2 samples the admissible table: one row per (mutation, sample); all mutations of a cluster carry the clone owning
   the cluster (or -1); clone ids are the nodes of the accompanying tree (parent relation printed).
O: get_clone_table, write_map_results, write_consensus_results and write_topology_report (with archive) on every such
   forest as a real tree / single-entry trace, unclustered and clustered (integer cluster ids): the commands must
   complete; parsed outputs must have exactly TLC's rows; the Newick tree over the clone ids must have TLC's parent
   relation; CCF / clonal-prevalence columns must be those of the clone (C10's function) and lie in [0,1]; -1 for
   outliers.  Also trees with clones that own nothing (as the consensus builds them).
"""
import io
import json
import math
import os
import shutil
import contextlib

import numpy as np

from .. import env, tlc, absstate, kernels, outputs, gridoracle
from ..evidence import Check


def tla_seq(xs):
    return "<<" + ", ".join(str(x) for x in xs) + ">>"


def tlc_tables(ck, job, n, sizes, S):
    mc = "---- MODULE MC_Table ----\nEXTENDS SummariesTable\nSizesDef == %s\n====\n" % tla_seq(sizes)
    cfg = tlc.cfg_text(constants={"N": n, "OutliersOn": "TRUE", "Sizes": "<- SizesDef", "S": S, "Dump": "TRUE"}, invariants=["OncePerSample", "ClusterTogether", "Emit"])
    r = tlc.run_tlc(job, "MC_Table", cfg, mc_text=mc, timeout=1500)
    tlc.require_ok(r, "SummariesTable")
    ck.add_tlc("SummariesTable N=%d sizes=%s samples=%d" % (n, sizes, S), r)
    return r.json_prints


def make_inputs(n, sizes, S, clustered):
    """data points, samples, clusters DataFrame (or None), mutation-name -> (d, j)."""
    import pandas as pd
    tab = gridoracle.int_tables(n, S, 7, 11)      # 7 grid points: CCFs are multiples of 1/6 (not representable with two decimals)
    if clustered:
        names = [str(100 + d) for d in range(n)]          # integer cluster ids, as PyClone-VI emits
        rows = []
        mutname = {}
        for d in range(n):
            for j in range(1, sizes[d] + 1):
                nm = "mut_%d_%d" % (d, j)
                rows.append({"mutation_id": nm, "cluster_id": 100 + d})
                mutname[nm] = (d, j)
        # a cluster whose only mutation was dropped by the loader (so it has no data point); its id is not the largest
        rows.append({"mutation_id": "ghost_1", "cluster_id": 50})
        mutname["ghost_1"] = ("ghost", 1)
        clusters = pd.DataFrame(rows)
    else:
        names = ["mut_%d_1" % d for d in range(n)]
        clusters = None
        mutname = {names[d]: (d, 1) for d in range(n)}
    data = gridoracle.data_from_tables(tab, outlier_prob=0.2, names=names)
    samples = ["S%d" % (i + 1) for i in range(S)]
    return data, samples, clusters, mutname


def judge_table(table, newick, rec, mutname, samples, tree, label, clustered):
    """Compare a results table (+ optional Newick) with TLC's admissible rows."""
    from phyclone.process_trace.map import get_map_node_ccfs_and_clonal_prev_dicts
    probs = []
    want = {}
    for r in rec["rows"]:
        d, j = r["mut"]
        if not clustered and j != 1:
            continue
        want[((d, j), r["sample"])] = frozenset(r["clone"])
    if clustered:
        for si in range(1, len(samples) + 1):
            want[(("ghost", 1), si)] = frozenset()      # an input mutation without a data point is reported with clone id -1
    got = {}
    clone_id_of_row = {}
    for _, row in table.iterrows():
        mn = str(row["mutation_id"])
        if mn not in mutname:
            probs.append(("unknown_mutation", "table lists unknown mutation %s" % mn))
            continue
        si = samples.index(str(row["sample_id"])) + 1 if str(row["sample_id"]) in samples else None
        if si is None:
            probs.append(("unknown_sample", "table lists unknown sample %s" % row["sample_id"]))
            continue
        k = (mutname[mn], si)
        if k in got:
            probs.append(("duplicate_row", "mutation %s appears more than once for sample %s" % (mn, row["sample_id"])))
        got[k] = int(row["clone_id"])
        clone_id_of_row[k] = row
    missing = set(want) - set(got)
    extra = set(got) - set(want)
    if missing:
        probs.append(("missing_rows", "%d (mutation, sample) rows are missing, e.g. %s" % (len(missing), sorted(missing)[:3])))
    if extra:
        probs.append(("extra_rows", "%d unexpected rows, e.g. %s" % (len(extra), sorted(extra)[:3])))
    # clone ids: same clone <=> same own set; -1 <=> outlier
    by_id = {}
    for k, cid in got.items():
        if k in want:
            by_id.setdefault(cid, set()).add(want[k])
    for cid, owns in by_id.items():
        if len(owns) > 1:
            probs.append(("clone_partition", "clone id %s is used for mutations of different clones %s" % (cid, [sorted(o) for o in owns])))
        if (cid == -1) != (frozenset() in owns):
            probs.append(("outlier_marking", "clone id %s used for %s" % (cid, [sorted(o) for o in owns])))
    own_to_id = {}
    for cid, owns in by_id.items():
        for o in owns:
            own_to_id.setdefault(o, set()).add(cid)
    for o, ids in own_to_id.items():
        if len(ids) > 1:
            probs.append(("clone_partition", "mutations of one clone %s carry different clone ids %s" % (sorted(o), sorted(ids))))
    # tree structure over clone ids
    if newick is not None:
        try:
            par = outputs.parse_newick(newick)
            id_of_own = {o: str(sorted(ids)[0]) for o, ids in own_to_id.items() if o}
            for own, pown in rec["parents"]:
                own, pown = frozenset(own), frozenset(pown)
                if own in id_of_own:
                    node = id_of_own[own]
                    if node not in par:
                        probs.append(("newick", "clone id %s is not a node of the Newick tree %s" % (node, newick)))
                        continue
                    # walk up over clones that own nothing (they have no rows)
                    p = par[node]
                    exp_p = id_of_own.get(pown, None) if pown else "root"
                    if exp_p is not None and p != exp_p:
                        probs.append(("newick", "clone %s has parent %s in the Newick tree, expected %s" % (node, p, exp_p)))
        except outputs.OutputError as ex:
            probs.append(("newick", str(ex)))
    # self-consistency of the CCF columns with the accompanying tree: clone >= sum of children, top level <= 1,
    # clonal prevalence = CCF - children (judged on the table alone, independent of the MAP code path)
    if newick is not None:
        try:
            par2 = outputs.parse_newick(newick)
            kids2 = {}
            for k_, p_ in par2.items():
                kids2.setdefault(p_, []).append(k_)
            vals = {}
            for k, row in clone_id_of_row.items():
                if int(row["clone_id"]) != -1:
                    vals[(str(int(row["clone_id"])), k[1])] = (float(row["ccf"]), float(row["clonal_prev"]))
            for (cid, si), (ccf, cp) in vals.items():
                ch = [vals[(c_, si)][0] for c_ in kids2.get(cid, []) if (c_, si) in vals]
                if len(ch) == len(kids2.get(cid, [])):
                    if ccf < sum(ch) - 1e-9:
                        probs.append(("ccf_infeasible", "clone %s sample %d: ccf %s is below the sum of its children's %s" % (cid, si, ccf, sum(ch))))
                    if abs(cp - (ccf - sum(ch))) > 1e-9 or cp < -1e-9:
                        probs.append(("clonal_prev", "clone %s sample %d: clonal_prev %s, ccf minus children = %s" % (cid, si, cp, ccf - sum(ch))))
            for si in {k[1] for k in vals}:
                top = [vals[(c_, si)][0] for c_ in kids2.get("root", []) if (c_, si) in vals]
                if sum(top) > 1 + 1e-9:
                    probs.append(("ccf_infeasible", "sample %d: top-level clones' ccf sum to %s" % (si, sum(top))))
        except outputs.OutputError:
            pass
    # CCF / clonal prevalence columns.  Several assignments can be jointly optimal (ties), and a command may have rebuilt
    # the tree with another child order, so values are not compared one by one: the table's assignment must be on the
    # grid, -1 for outliers, identical for all mutations of a clone, and score exactly what the MAP function scores on
    # this tree (clones matched by the data they own).
    if tree is not None:
        ccfs, prev = get_map_node_ccfs_and_clonal_prev_dicts(tree)
        _, conc = absstate.project(tree, full=False)
        node_of_own = {frozenset(v): n_ for n_, v in conc["dat"].items()}
        G = tree.grid_size[1]
        by_data = {dp.idx: dp for dp in tree.data}
        per_clone = {}
        for k, row in clone_id_of_row.items():
            cid = int(row["clone_id"])
            si = k[1] - 1
            ccf, cp = float(row["ccf"]), float(row["clonal_prev"])
            if cid == -1:
                if ccf != -1 or cp != -1:
                    probs.append(("outlier_ccf", "outlier row has ccf %s / clonal_prev %s, expected -1" % (ccf, cp)))
                continue
            if not (-1e-12 <= ccf <= 1 + 1e-12) or not (-1e-12 <= cp <= 1 + 1e-12):
                probs.append(("ccf_range", "ccf %s / clonal_prev %s outside [0, 1]" % (ccf, cp)))
            if abs(ccf * (G - 1) - round(ccf * (G - 1))) > 1e-9:
                probs.append(("ccf_grid", "ccf %s is not a grid point" % ccf))
            own = want.get(k)
            if own is None or own not in node_of_own:
                continue
            prevv = per_clone.setdefault((own, si), (ccf, cp))
            if prevv != (ccf, cp):
                probs.append(("ccf", "mutations of one clone carry different ccf / clonal_prev in sample %d: %s vs %s" % (si + 1, prevv, (ccf, cp))))
        samples_n = len(samples)
        for si in range(samples_n):
            tab_score = ref_score = 0.0
            complete = True
            for own, nd in node_of_own.items():
                if not own:
                    continue
                if (own, si) not in per_clone:
                    complete = False
                    break
                ti = int(round(per_clone[(own, si)][0] * (G - 1)))
                ri = int(round(float(ccfs[nd][si]) * (G - 1)))
                for d_ in own:
                    tab_score += float(by_data[d_].value[si, ti])
                    ref_score += float(by_data[d_].value[si, ri])
            if complete and abs(tab_score - ref_score) > 1e-9 * (1 + abs(ref_score)):
                probs.append(("ccf", "sample %d: the table's CCFs score %.12g, the MAP CCFs of this tree score %.12g" % (si + 1, tab_score, ref_score)))
    return [("C12|%s|%s" % (label, k), m) for k, m in probs]


def check_state(rec, n, sizes, S, clustered, workdir, idx, files):
    from phyclone.process_trace import write_map_results, write_consensus_results, write_topology_report
    from phyclone.process_trace.process_trace import get_clone_table
    key = absstate.canon(rec["st"])
    if absstate.data_ids(key) != set(range(n)):
        return []
    data, samples, clusters, mutname = make_inputs(n, sizes, S, clustered)
    out = []
    rep = {"state": absstate.to_json(key), "sizes": sizes, "samples": S, "clustered": clustered}
    tree = absstate.build(key, data)
    try:
        table = get_clone_table(data, samples, tree, clusters=clusters)
        out += [(s, m, rep) for s, m in judge_table(table, tree.to_newick_string(), rec, mutname, samples, tree, "get_clone_table", clustered)]
    except Exception as ex:
        out.append(("C12|get_clone_table|exception:%s" % type(ex).__name__, "get_clone_table raised %s: %s on %s" % (type(ex).__name__, ex, absstate.key_str(key)), rep))
    if files:
        d = os.path.join(workdir, "s%d_%d" % (os.getpid(), idx))
        os.makedirs(d, exist_ok=True)
        try:
            tp = os.path.join(d, "trace.pkl.gz")
            # two chains, chain 1 finished first (dictionary insertion order as run() produces it)
            outputs.write_trace_file(tp, [(1, [(key, -1.5, idx)]), (0, [(key, -1.0, idx + 1)])], data, samples, clusters=clusters)
            sink = io.StringIO()
            for cmd in ("map", "consensus", "topology"):
                try:
                    tf, nf = os.path.join(d, cmd + ".tsv"), os.path.join(d, cmd + ".nwk")
                    with contextlib.redirect_stdout(sink):
                        if cmd == "map":
                            write_map_results(tp, tf, nf)
                        elif cmd == "consensus":
                            write_consensus_results(tp, tf, nf, consensus_threshold=0.5, weight_type="counts")
                        else:
                            write_topology_report(tp, os.path.join(d, "rep.tsv"), topologies_archive=os.path.join(d, "a.tar.gz"))
                    if cmd == "topology":
                        arch = outputs.read_archive(os.path.join(d, "a.tar.gz"))
                        if sorted(arch) != ["t_0"]:
                            out.append(("C12|topology|archive", "archive holds %s for a single-topology trace" % sorted(arch), rep))
                            continue
                        table, nw = arch["t_0"]
                    else:
                        table, nw = outputs.read_table(tf), open(nf).read()
                    # the consensus of identical trees is that tree, but built with clone ids of its own: structure judged via rows + Newick only
                    out += [(s, m, rep) for s, m in judge_table(table, nw, rec, mutname, samples, tree, cmd, clustered)]
                except Exception as ex:
                    out.append(("C12|%s|exception:%s" % (cmd, type(ex).__name__), "%s command raised %s: %s on %s" % (cmd, type(ex).__name__, ex, absstate.key_str(key)), rep))
        finally:
            shutil.rmtree(d, ignore_errors=True)
    return out


def empty_clone_trees(ck):
    """Trees with clones that own nothing (built by the consensus code): table must still be complete."""
    from phyclone.process_trace.consensus import get_consensus_tree
    from phyclone.process_trace.process_trace import get_tree_from_consensus_graph, get_clone_table
    n = 4
    data, samples, clusters, mutname = make_inputs(n, [1] * n, 2, False)
    for trees in ([[[0, 1, 2, 3], [0, 1], [2, 3], [0], [1], [2], [3]]] * 2, [[[0, 1], [0], [1], [2, 3]]] * 3):
        keys = [absstate.canon({"f": t, "o": []}) for t in trees]
        rep = {"trees": [absstate.to_json(k) for k in keys]}
        ck.evaluations += 1
        try:
            tr = get_tree_from_consensus_graph(data, get_consensus_tree([absstate.build(k, data) for k in keys], data=data, threshold=0.5))
            table = get_clone_table(data, samples, tr)
            seen = {}
            for _, row in table.iterrows():
                k = (row["mutation_id"], row["sample_id"])
                seen[k] = seen.get(k, 0) + 1
            if sorted(seen) != sorted((m, s) for m in mutname for s in samples) or set(seen.values()) != {1}:
                ck.violation("C12|empty_clones|rows", "table for a consensus tree with empty clones does not list every mutation once per sample", rep)
            if ((table["ccf"] < -1e-12) & (table["clone_id"] != -1)).any() or (table["ccf"] > 1 + 1e-12).any():
                ck.violation("C12|empty_clones|ccf_range", "ccf outside [0,1] for a consensus tree with empty clones", rep)
        except Exception as ex:
            ck.violation("C12|empty_clones|exception:%s" % type(ex).__name__, "results table for a consensus tree with empty clones raised %s: %s" % (type(ex).__name__, ex), rep)
        ck.nontrivial("empty:" + json.dumps(rep["trees"]))


def mixed_traces(ck, workdir):
    """Traces that hold SEVERAL different trees (incl. exact 50/50 splits between incompatible clades, as two equally long
    chains sitting in two modes give): every command must complete and its table must list every mutation once per
    sample with a clone id that is a node of the Newick tree or -1."""
    from phyclone.process_trace import write_map_results, write_consensus_results, write_topology_report
    n = 4
    data, samples, clusters, mutname = make_inputs(n, [1] * n, 2, False)
    T = lambda f, o=(): absstate.canon({"f": f, "o": list(o)})
    cases = [
        ("two incompatible trees, one entry each", [(0, [T([[0, 1, 2, 3], [1], [2, 3]])]), (1, [T([[0, 1, 2, 3], [2], [1, 3]])])]),
        ("two chains in two modes, two entries each", [(0, [T([[0, 1, 2], [1, 2], [3]])] * 2), (1, [T([[0, 1, 2], [0, 1], [3]])] * 2)]),
        ("nested vs flat, with an outlier", [(0, [T([[0, 1, 2], [1, 2], [2]], [3]), T([[0], [1], [2]], [3])])]),
        ("four different trees", [(0, [T([[0, 1, 2, 3]]), T([[0, 1], [2, 3]]), T([[0, 2], [1, 3]]), T([[0, 3], [1, 2]])])]),
        ("the most frequent tree scores best at its last visit (ascending scores)", [(0, [T([[0, 1, 2, 3]])] + [T([[0, 1], [2, 3]])] * 4)]),
    ]
    d = os.path.join(workdir, "mixed")
    os.makedirs(d, exist_ok=True)
    sink = io.StringIO()
    for ci, (label, chains) in enumerate(cases):
        tp = os.path.join(d, "trace%d.pkl.gz" % ci)
        # thinned runs: recorded iteration numbers run ahead of the positions in the trace
        outputs.write_trace_file(tp, [(num, [(k, (-2.0 - 0.25 * j) if "ascending" not in label else (-4.0 + 0.25 * j), j) for j, k in enumerate(ents)]) for num, ents in chains],
                                 data, samples, thin=(1, 5, 3, 7, 4)[ci % 5])
        rep = {"case": label, "chains": [[absstate.to_json(k) for k in ents] for _, ents in chains]}
        for cmd, kw in (("map", {}), ("map", dict(map_type="frequency")), ("consensus", dict(consensus_threshold=0.5, weight_type="counts")), ("consensus", dict(consensus_threshold=0.5)),
                        ("consensus", dict(consensus_threshold=0.75, weight_type="counts")), ("topology", {})):
            ck.evaluations += 1
            tf, nf = os.path.join(d, "o.tsv"), os.path.join(d, "o.nwk")
            try:
                with contextlib.redirect_stdout(sink):
                    if cmd == "map":
                        write_map_results(tp, tf, nf, **kw)
                    elif cmd == "consensus":
                        write_consensus_results(tp, tf, nf, **kw)
                    else:
                        write_topology_report(tp, os.path.join(d, "rep.tsv"), topologies_archive=os.path.join(d, "a.tar.gz"))
                pairs = [(outputs.read_table(tf), open(nf).read())] if cmd != "topology" else list(outputs.read_archive(os.path.join(d, "a.tar.gz")).values())
                for table, nw in pairs:
                    nodes = set(outputs.parse_newick(nw)) | {"root"}
                    seen = {}
                    for _, row in table.iterrows():
                        k = (str(row["mutation_id"]), str(row["sample_id"]))
                        seen[k] = seen.get(k, 0) + 1
                        if int(row["clone_id"]) != -1 and str(int(row["clone_id"])) not in nodes:
                            ck.violation("C12|mixed|%s|clone_not_in_tree" % cmd, "%s %s: clone id %s of %s is not a node of the Newick tree (%s)" % (cmd, kw, row["clone_id"], k[0], label), rep)
                            break
                    if sorted(seen) != sorted((m, s_) for m in mutname for s_ in samples) or set(seen.values()) != {1}:
                        ck.violation("C12|mixed|%s|rows" % cmd, "%s %s: the table does not list every mutation exactly once per sample (%s)" % (cmd, kw, label), rep)
            except Exception as ex:  # noqa
                ck.violation("C12|mixed|%s|exception:%s" % (cmd, type(ex).__name__), "%s %s raised %s: %s on a trace with %s" % (cmd, kw, type(ex).__name__, ex, label), rep)
        ck.nontrivial("mixed:" + label)
        ck.traces_validated += 1


def run(corrupt=None):
    ck = Check("C12")
    env.use_repo()
    thorough = ck.tier == "thorough"
    n = 4 if thorough else 3
    workdir = env.scratch("c12_files")
    settings = [(n, [1] * n, 1, False), (n, [1] * n, 2, False), (n, [2, 1, 3, 1][:n], 2, True), (n, [3, 3, 1, 2][:n], 1, True)]
    if not thorough:
        settings.append((4, [1, 1, 1, 1], 2, False))     # clones with three children need four data points
    for si, (n, sizes, S, clustered) in enumerate(settings):
        recs = tlc_tables(ck, "c12_%d" % si, n, sizes, S)
        tasks = list(enumerate(recs))

        def task(arg):
            i, rec = arg
            if corrupt == "rows" and i == len(recs) - 1 and rec["rows"]:
                rec = dict(rec, rows=rec["rows"][1:])
            return check_state(rec, n, sizes, S, clustered, workdir, i, files=(thorough or i % (3 if n <= 3 else 7) == 0 or not absstate.canon(rec["st"])[0]))

        task(tasks[-1])
        for (i, rec), probs in zip(tasks, kernels.parallel_map(task, tasks, chunksize=4)):
            key = absstate.canon(rec["st"])
            if absstate.data_ids(key) != set(range(n)):
                continue
            ck.evaluations += 1
            ck.traces_validated += 1
            for sig, msg, rep in probs:
                ck.violation(sig, msg + " [%s]" % absstate.key_str(key), rep)
            if len(key[0]) > 1 or key[1]:
                ck.nontrivial("%d:%s" % (si, absstate.key_str(key)))
        ck.sample({"setting": {"sizes": sizes, "samples": S, "clustered": clustered}, "state": recs[-1]["st"], "rows": recs[-1]["rows"][:4]})
    empty_clone_trees(ck)
    mixed_traces(ck, workdir)
    shutil.rmtree(workdir, ignore_errors=True)
    ck.rule = ("every forest on %d data points (quick tier: plus all forests on 4 points, unclustered; any outlier subset incl. all outliers) x 4 settings (unclustered 1-2 samples; clustered sizes 1-3, integer ids) "
               "through get_clone_table, and through the map / consensus / topology-report commands on real trace files for a third of them "
               "(all in the thorough tier); non-trivial = forests with > 1 clone or with outliers" % n)
    ck.exhaustive = True
    ck.assumptions = ["CCF columns are compared with get_map_node_ccfs_and_clonal_prev_dicts of the same tree (optimality is C10's business)"]
    if corrupt:
        return ck
    return ck.finish()


def selftest():
    ck = run(corrupt="rows")
    ok = any("extra_rows" in v["signature"] for v in ck.violations)
    print("selftest:", "row missing from the oracle detected" if ok else "FAILED")
    return 0 if ok else 1


def replay(path):
    body = json.load(open(path))
    print(json.dumps(body["replay"], indent=1)[:2000])
    return 0
