"""C03 - joint log-density implements the FS-CRP model and depends only on the tree.

M: Density.tla - the FS-CRP joint as an exact symbolic record of the abstract state (K, clone sizes, top-level
   subtree sizes, child counts incl. the virtual root, outliers), derived from the clade family alone; TLC walks
   every forest over <= N points (any outlier subset), checks the record's internal consistency and prints it.
   GridOracle.tla supplies the exact data term (root CCF fixed to one: Z[G-1]; marginalised: sum_k Z[k]) and the
   single-clone marginals of outliers on integer likelihood tables.
O: for each abstract state x several concrete constructions (bottom-up, empty-nodes-then-data, dict round trip,
   relabelled, copied, reached through data-point moves), alpha in {0.01,0.3,1,2.5,40} - set through a fresh object
   and through the alpha setter of a reused object - outlier prior in {0,1e-4,0.2,0.9}, cluster sizes {1,3}:
   log_p, log_p_one and the fused computation must equal the record evaluated with lgamma/log + TLC's data terms
   (1e-9); == / hash of all constructions agree with equality of abstractions.
"""
import itertools
import json
import math

import numpy as np

from .. import env, tlc, absstate, gridoracle
from ..evidence import Check
from . import c02

C_CONST = 1000.0


def expected(feat, alpha, p_out, sizes_of, zrow, outl_marg, G, D, form):
    """Evaluate the symbolic record. zrow: exact integer root vectors per sample (or None if no clones)."""
    K = feat["K"]
    v = K * math.log(alpha)
    for _, s in feat["sizes"]:
        v += math.lgamma(s)  # log (s-1)!
    for _, c in feat["kidcounts"]:
        v -= math.lgamma(c + 1)
    r = feat["roots"]
    if form == "one":
        for _, m in feat["topsub"]:
            v -= (m - 1) * math.log(m)
        if r >= 1:
            v -= (r - 1) * math.log(C_CONST) + math.log(sum(C_CONST ** (-j) for j in range(r)))
    else:
        v -= (K - 1) * math.log(K + 1)
    if p_out > 0:
        for d in feat["outliers"]:
            v += math.log(p_out) * sizes_of[d]
        for d in feat["placed"]:
            v += math.log1p(-p_out) * sizes_of[d]
    if K > 0:
        for i in range(D):
            z = zrow[i]
            if form == "one":
                v += math.log(z[G - 1]) - (K + 1) * math.log(G)
            else:
                v += math.log(sum(z)) - (K + 1) * math.log(G)
    for d in feat["outliers"]:
        v += outl_marg[d]
    return v


def constructions(key, data, rs):
    from phyclone.tree import Tree
    out = c02.build_variants(key, data)
    t = out[0][1].copy()
    t.relabel_nodes()
    out.append(("relabelled_copy", t))
    if len(key[1]) > 1:
        t3 = out[0][1].copy()
        outl = list(t3.outliers)
        for dp in outl:
            t3.remove_data_point_from_outliers(dp)
        for dp in reversed(outl):
            t3.add_data_point_to_outliers(dp)
        out.append(("outliers_stored_in_reverse_order", t3))
    # reach the same state through a data-point move and back
    t2 = out[1][1].copy()
    _, conc = absstate.project(t2, full=False)
    moved = False
    for n_, ds in conc["dat"].items():
        if len(ds) > 1 and len(conc["names"]) > 1:
            d = ds[0]
            other = [m for m in conc["names"] if m != n_][0]
            dp = [x for x in data if x.idx == d][0]
            t2.remove_data_point_from_node(dp, n_)
            t2.add_data_point_to_node(dp, other)
            t2.remove_data_point_from_node(dp, other)
            t2.add_data_point_to_node(dp, n_)
            moved = True
            break
    if moved:
        out.append(("moved_and_back", t2))
    return out


def cut_and_graft_variants(key, data, tree0):
    """The same tree the way the subtree particle-Gibbs move builds it: cut a clone's subtree out of a copy (the
    remaining clones keep their labels, with gaps) and graft a freshly built subtree of the same shape, whose clones are
    numbered from 0 again, where the old one hung."""
    out = []
    f, o = key
    if len(f) < 2:
        return out
    _, conc = absstate.project(tree0, full=False)
    name_of = {conc["clade"][m]: m for m in conc["names"]}
    for v in sorted(f, key=sorted):
        inside = frozenset(c for c in f if c <= v)
        if len(inside) == len(f):
            continue
        host = tree0.copy()
        sub = host.get_subtree(name_of[v])
        parent = host.get_parent(name_of[v])
        host.remove_subtree(sub)
        fresh = absstate.build((inside, frozenset()), data)
        host.add_subtree(fresh, parent=parent)
        host.update()
        out.append(("cut_and_graft_%s" % "".join(map(str, sorted(v))), host, key))
        if len(inside) >= 3:
            # the resampled block comes back smaller: one clone holding all the data of the cut subtree
            host2 = tree0.copy()
            sub2 = host2.get_subtree(name_of[v])
            host2.remove_subtree(sub2)
            small = absstate.build((frozenset([v]), frozenset()), data)
            host2.add_subtree(small, parent=parent)
            host2.update()
            key2 = (frozenset(c for c in f if not c < v), o)
            out.append(("cut_%s_graft_one_clone" % "".join(map(str, sorted(v))), host2, key2))
    return out


def evaluate_then_prune_variants(key, data, tree0, dist):
    """Both densities are evaluated on a tree, THEN a clone's subtree is removed from the same object (the pruning half of
    a prune-regraft / subtree move) and the object - and a copy of it - are judged as the smaller forest they now are."""
    out = []
    f, o = key
    if len(f) < 2:
        return out
    _, conc = absstate.project(tree0, full=False)
    name_of = {conc["clade"][m]: m for m in conc["names"]}
    for v in sorted(f, key=sorted):
        inside = frozenset(c for c in f if c <= v)
        if len(inside) == len(f):
            continue
        host = tree0.copy()
        dist.log_p(host)
        dist.log_p_one(host)
        host.remove_subtree(host.get_subtree(name_of[v]))
        rest = frozenset(c - v if v < c else c for c in f if not c <= v)
        key2 = (rest, o)
        tag = "".join(map(str, sorted(v)))
        out.append(("evaluated_then_pruned_%s" % tag, host, key2))
        out.append(("evaluated_then_pruned_%s_copy" % tag, host.copy(), key2))
    return out


def relabel_then_edit_variants(key, data, tree0):
    """A copy of the tree is relabelled (pre-order numbering, as the run loop does after every iteration) and THEN edited:
    a data point is moved from a clone that holds several to another clone.  The result is another forest; its
    densities must be that forest's."""
    out = []
    t0 = tree0.copy()
    t0.relabel_nodes()
    _, conc = absstate.project(t0, full=False)
    by = {dp.idx: dp for dp in data}
    donors = [(n_, ds) for n_, ds in conc["dat"].items() if len(ds) > 1]
    if not donors or len(conc["names"]) < 2:
        return out
    for n_, ds in donors[:2]:
        for target in [m for m in conc["names"] if m != n_][:3]:
            t = t0.copy()
            t.remove_data_point_from_node(by[ds[0]], n_)
            t.add_data_point_to_node(by[ds[0]], target)
            try:
                vkey = absstate.project(t, full=True)[0]
            except absstate.Inconsistent:
                continue
            out.append(("relabelled_then_moved_%d_from_%s_to_%s" % (ds[0], n_, target), t, vkey))
    return out


def many_children_part(ck):
    """Clones and the virtual root with 6-9 children (more than any forest on 5 points has): Density.tla gives the
    feature records of exactly these forests (Starts), GridRec.tla their exact root vectors."""
    from phyclone.tree import FSCRPDistribution, TreeJointDistribution
    G, n = 4, 10
    rs = np.random.RandomState(41 + ck.seed)
    tab = rs.randint(1, 6, size=(n, 1, G))
    shapes = [[[i] for i in range(k)] for k in (6, 7, 9)] + [[list(range(k + 1))] + [[i] for i in range(1, k + 1)] for k in (6, 7)]
    tla_shapes = ", ".join("{%s}" % ", ".join("{%s}" % ", ".join(map(str, c)) for c in f) for f in shapes)
    mcd = "---- MODULE MC_DensityMany ----\nEXTENDS Density\nStartsDef == {[f |-> F, o |-> {}] : F \\in {%s}}\n====\n" % tla_shapes
    r = tlc.run_tlc("c03_density_many", "MC_DensityMany", tlc.cfg_text(constants={"N": n, "OutliersOn": "TRUE", "Dump": "TRUE", "Starts": "<- StartsDef"}, invariants=["FeatConsistent", "Emit"]),
                    mc_text=mcd, timeout=900)
    tlc.require_ok(r, "Density (many children)")
    ck.add_tlc("Density.tla feature records of %d forests with 6-9 children per node" % len(shapes), r)
    feats = {absstate.canon(x["st"]): x["feat"] for x in r.json_prints}
    mcz = ("---- MODULE MC_ManyZ ----\nEXTENDS GridRec, Json\nLDef == %s\nShapes == {%s}\n"
           "ASSUME \\A F \\in Shapes : PrintT(ToJson([f |-> F, Z |-> ZRecT(F, LDef, 1, %d)]))\n"
           "VARIABLE x\nInit == x = 0\nNext == UNCHANGED x\n====\n") % (gridoracle.tla_tab(tab), tla_shapes, G)
    rz = tlc.run_tlc("c03_many_z", "MC_ManyZ", tlc.cfg_text(), mc_text=mcz, workers=1, timeout=900)
    tlc.require_ok(rz, "GridRec (many children)")
    ck.add_tlc("GridRec.tla exact root vectors of the same forests", rz)
    zs = {absstate.canon({"f": x["f"], "o": []}): x["Z"] for x in rz.json_prints}
    data = gridoracle.data_from_tables(tab)
    for key, feat in feats.items():
        sub = [dp for dp in data if dp.idx in absstate.data_ids(key)]
        tree = absstate.build(key, sub)
        for alpha in (0.3, 2.5):
            dist = TreeJointDistribution(FSCRPDistribution(alpha))
            for form, got in (("marg", float(dist.log_p(tree))), ("one", float(dist.log_p_one(tree)))):
                want = expected(feat, alpha, 0.0, {d: 1 for d in range(n)}, [zs[key]], {}, G, 1, form)
                ck.evaluations += 1
                if not math.isfinite(got) or abs(got - want) > 1e-9 * (1 + abs(want)):
                    ck.violation("C03|many_children|%s" % ("log_p" if form == "marg" else "log_p_one"), "%s = %.12g, FS-CRP model value %.12g for %s (alpha %s)" % (
                        "log_p" if form == "marg" else "log_p_one", got, want, absstate.key_str(key), alpha), {"state": absstate.to_json(key), "alpha": alpha})
        ck.nontrivial("many_children:" + absstate.key_str(key))
        ck.traces_validated += 1


def big_clone_part(ck):
    """Clones holding 130-260 data points (more than a forest the enumerations reach), evaluated one after the other in ONE
    process with a clone of 151 points before one of 201: Density.tla gives the feature records of exactly these forests
    (Starts); the data are flat (every likelihood 1), so the exact root vectors are small integers from GridRec.tla."""
    from phyclone.tree import FSCRPDistribution, TreeJointDistribution
    from phyclone.data.base import DataPoint
    G, n = 3, 400
    shapes = [[(0, 151)], [(0, 201)], [(0, 140), (140, 400)], [(0, 130), (130, 260), (0, 391)]]
    def rng_set(a, b):
        return "(%d..%d)" % (a, b - 1)
    tla_shapes = ", ".join("{%s}" % ", ".join(rng_set(a, b) for a, b in f) for f in shapes)
    mcd = "---- MODULE MC_DensityBig ----\nEXTENDS Density\nStartsDef == {[f |-> F, o |-> {}] : F \\in {%s}}\n====\n" % tla_shapes
    r = tlc.run_tlc("c03_density_big", "MC_DensityBig", tlc.cfg_text(constants={"N": n, "OutliersOn": "TRUE", "Dump": "TRUE", "Starts": "<- StartsDef"}, invariants=["FeatConsistent", "Emit"]),
                    mc_text=mcd, timeout=900)
    tlc.require_ok(r, "Density (big clones)")
    ck.add_tlc("Density.tla feature records of %d forests with clones of 130-260 data points" % len(shapes), r)
    feats = {absstate.canon(x["st"]): x["feat"] for x in r.json_prints}
    # the data term of flat data depends on the shape only: one representative data point per clone
    small = {0: [[0]], 1: [[0]], 2: [[0], [1]], 3: [[0], [1], [0, 1, 2]]}
    tla_small = ", ".join("{%s}" % ", ".join("{%s}" % ", ".join(map(str, c)) for c in f) for f in small.values())
    tab = np.ones((3, 1, G), dtype=int)
    mcz = ("---- MODULE MC_BigZ ----\nEXTENDS GridRec, Json\nLDef == %s\nShapes == {%s}\n"
           "ASSUME \\A F \\in Shapes : PrintT(ToJson([f |-> F, Z |-> ZRecT(F, LDef, 1, %d)]))\n"
           "VARIABLE x\nInit == x = 0\nNext == UNCHANGED x\n====\n") % (gridoracle.tla_tab(tab), tla_small, G)
    rz = tlc.run_tlc("c03_big_z", "MC_BigZ", tlc.cfg_text(), mc_text=mcz, workers=1, timeout=900)
    tlc.require_ok(rz, "GridRec (big clones, flat data)")
    ck.add_tlc("GridRec.tla exact root vectors of the same shapes on flat data", rz)
    zs = {absstate.canon({"f": x["f"], "o": []}): x["Z"] for x in rz.json_prints}
    data = [DataPoint(i, np.zeros((1, G))) for i in range(n)]
    for si, f in enumerate(shapes):
        key = absstate.canon({"f": [list(range(a, b)) for a, b in f], "o": []})
        feat = feats[key]
        z = zs[absstate.canon({"f": small[si], "o": []})]
        tree = absstate.build(key, data)
        for alpha in (0.3, 2.5):
            dist = TreeJointDistribution(FSCRPDistribution(alpha))
            both = dist.compute_both_log_p_and_log_p_one(tree)
            for nm, form, got in (("log_p", "marg", float(dist.log_p(tree))), ("log_p_one", "one", float(dist.log_p_one(tree))),
                                  ("fused log_p", "marg", float(both[0])), ("fused log_p_one", "one", float(both[1]))):
                want = expected(feat, alpha, 0.0, {}, [z], {}, G, 1, form)
                ck.evaluations += 1
                if not math.isfinite(got) or abs(got - want) > 1e-9 * (1 + abs(want)):
                    ck.violation("C03|big_clones|%s" % nm.replace(" ", "_"), "%s = %.12g, FS-CRP model value %.12g for the forest with clones of sizes %s (alpha %s), evaluated after the forests %s" % (
                        nm, got, want, sorted(s_ for _, s_ in feat["sizes"]), alpha, [[b - a for a, b in g] for g in shapes[:si]]), {"shape": f, "alpha": alpha})
        ck.nontrivial("big_clones:%d" % si)
        ck.traces_validated += 1


def light_pass(ck, n):
    """One more data point with a single setting (alpha 2.5, outlier prior 0.2, unit cluster sizes), two constructions per forest:
    covers shapes the full pass does not reach (e.g. two top-level clones beside a clone with two children)."""
    from phyclone.tree import FSCRPDistribution, TreeJointDistribution
    from phyclone.smc.swarm import TreeHolder
    G, D = 3, 1
    cfg = tlc.cfg_text(constants={"N": n, "OutliersOn": "TRUE", "Dump": "TRUE", "Starts": "{}"}, invariants=["FeatConsistent", "Emit"])
    r = tlc.run_tlc("c03_density_light", "Density", cfg, timeout=3000)
    tlc.require_ok(r, "Density light")
    ck.add_tlc("Density N=%d (light pass)" % n, r)
    feats = {absstate.canon(x["st"]): x["feat"] for x in r.json_prints}
    tab = gridoracle.int_tables(n, D, G, ck.seed + 50, lo=1, hi=6)
    oracle, ro = gridoracle.run_oracle("c03_oracle_light", tab, check_def=False)
    ck.add_tlc("GridOracle N=%d G=%d D=%d (light pass data terms)" % (n, G, D), ro)
    single = {d: oracle[absstate.canon({"f": [[d]], "o": []})]["Z"] for d in range(n)}
    outl_marg = {d: sum(math.log(sum(single[d][i])) - 2 * math.log(G) for i in range(D)) for d in range(n)}
    data = gridoracle.data_from_tables(tab, outlier_prob=0.2)
    dist = TreeJointDistribution(FSCRPDistribution(2.5))
    sizes_of = {d: 1 for d in range(n)}
    for key in sorted(feats, key=absstate.key_str):
        if absstate.data_ids(key) != set(range(n)):
            continue
        exp_p = expected(feats[key], 2.5, 0.2, sizes_of, oracle[key]["Z"] if key[0] else None, outl_marg, G, D, "marg")
        exp_1 = expected(feats[key], 2.5, 0.2, sizes_of, oracle[key]["Z"] if key[0] else None, outl_marg, G, D, "one")
        variants = [(a, b, key) for a, b in c02.build_variants(key, data)[:2]]
        variants += cut_and_graft_variants(key, data, variants[0][1])
        variants += [v for v in relabel_then_edit_variants(key, data, variants[0][1]) if v[2] in feats]
        variants += [v for v in evaluate_then_prune_variants(key, data, variants[0][1], dist) if v[2] in feats and (not v[2][0] or v[2] in oracle)]
        for vname, tree, vkey in variants:
            exp_p = expected(feats[vkey], 2.5, 0.2, sizes_of, oracle[vkey]["Z"] if vkey[0] else None, outl_marg, G, D, "marg")
            exp_1 = expected(feats[vkey], 2.5, 0.2, sizes_of, oracle[vkey]["Z"] if vkey[0] else None, outl_marg, G, D, "one")
            try:
                if absstate.project(tree, full=True)[0] != vkey:
                    ck.violation("C03|light_pass|construction", "the tree built %s does not hold the clades and outliers of %s" % (vname, absstate.key_str(vkey)), {"state": absstate.to_json(key), "variant": vname})
                    continue
            except absstate.Inconsistent as ex:
                ck.violation("C03|light_pass|construction", "the tree built %s for %s is inconsistent: %s" % (vname, absstate.key_str(key), ex), {"state": absstate.to_json(key), "variant": vname})
                continue
            both = dist.compute_both_log_p_and_log_p_one(tree)
            # (a particle holder is never built from a tree a subtree was just cut out of: its "last node added to" may be gone)
            th = TreeHolder(tree, dist, None) if not vname.startswith("evaluated_then_pruned") else None
            ck.evaluations += 3
            for nm, g, e in (("log_p", float(dist.log_p(tree)), exp_p), ("log_p_one", float(dist.log_p_one(tree)), exp_1), ("fused log_p", float(both[0]), exp_p),
                             ("fused log_p_one", float(both[1]), exp_1)) + ((("particle log_p_one", float(th.log_p_one), exp_1),) if th is not None else ()):
                if not math.isfinite(g) or abs(g - e) > 1e-9 * (1 + abs(e)):
                    ck.violation("C03|%s|light_pass" % nm.replace(" ", "_"), "%s = %.12g, FS-CRP model value %.12g for %s built %s (alpha 2.5, p_out 0.2)" % (
                        nm, g, e, absstate.key_str(key), vname), {"state": absstate.to_json(key), "alpha": 2.5, "p_out": 0.2, "variant": vname, "tables": tab.tolist()})
        ck.traces_validated += 1
        ck.nontrivial("light|" + absstate.key_str(key))


def run(corrupt=None):
    ck = Check("C03")
    env.use_repo()
    from phyclone.tree import FSCRPDistribution, TreeJointDistribution
    from phyclone.smc.swarm import TreeHolder

    thorough = ck.tier == "thorough"
    n = 4 if thorough else 3
    G, D = 4, 2
    light_pass(ck, 5)
    many_children_part(ck)
    big_clone_part(ck)
    cfg = tlc.cfg_text(constants={"N": n, "OutliersOn": "TRUE", "Dump": "TRUE", "Starts": "{}"}, invariants=["FeatConsistent", "Emit"])
    r = tlc.run_tlc("c03_density", "Density", cfg, timeout=1500)
    tlc.require_ok(r, "Density")
    ck.add_tlc("Density N=%d feature records of every forest (outliers any subset)" % n, r)
    feats = {absstate.canon(x["st"]): x["feat"] for x in r.json_prints}
    tab = gridoracle.int_tables(n, D, G, ck.seed, lo=1, hi=6, dup=[(0, 1)])
    oracle, ro = gridoracle.run_oracle("c03_oracle", tab, check_def=(n <= 3))
    ck.add_tlc("GridOracle N=%d G=%d D=%d data terms" % (n, G, D), ro)
    single = {d: oracle[absstate.canon({"f": [[d]], "o": []})]["Z"] for d in range(n)}
    outl_marg = {d: sum(math.log(sum(single[d][i])) - 2 * math.log(G) for i in range(D)) for d in range(n)}
    rs = np.random.RandomState(ck.seed)
    alphas = [0.01, 0.3, 1.0, 2.5, 40.0]
    reused = TreeJointDistribution(FSCRPDistribution(1.0))
    complete = [k for k in sorted(feats, key=absstate.key_str) if absstate.data_ids(k) == set(range(n))]
    partial = [k for k in sorted(feats, key=absstate.key_str) if absstate.data_ids(k) and k not in complete]
    worst = 0.0
    for p_out, size_mode, offs in ((0.0, 1, None), (0.2, 1, None), (1e-4, 3, None), (0.9, 1, None), (0.2, 1, [0.0, -900.0])):
        sizes_of = {d: (1 if size_mode == 1 else (3 if d % 2 == 0 else 1)) for d in range(n)}
        data = gridoracle.data_from_tables(tab, outlier_prob=p_out, sizes=[sizes_of[d] for d in range(n)])
        if offs is not None:
            # samples on very different scales (the second sample's likelihoods are 900 nats lower): every data point
            # in the tree - placed or outlier - shifts both densities by the sum of the offsets
            from phyclone.data.base import DataPoint
            data = [DataPoint(dp.idx, np.ascontiguousarray(dp.value + np.array(offs)[:, None]), name=dp.name, outlier_prob=dp.outlier_prob, outlier_prob_not=dp.outlier_prob_not)
                    for dp in data]
        for key in complete + (partial if (thorough or (p_out == 0.2 and offs is None)) else []):
            # (trees holding outliers although the data points carry no outlier prior - the prior terms are then absent,
            # the outliers' stand-alone marginals are not - are reachable through the library and judged as well)
            feat = feats[key]
            cons = constructions(key, data, rs)
            zrow = oracle[key]["Z"] if key[0] else None
            c02.clear_caches()
            shift = 0.0 if offs is None else sum(offs) * len(absstate.data_ids(key))
            for ai, alpha in enumerate(alphas if offs is None else alphas[2:4]):
                exp_p = expected(feat, alpha, p_out, sizes_of, zrow, outl_marg, G, D, "marg") + shift
                exp_1 = expected(feat, alpha, p_out, sizes_of, zrow, outl_marg, G, D, "one") + shift
                if corrupt == "formula" and feat["K"] >= 2:
                    exp_1 += 1e-6
                fresh = TreeJointDistribution(FSCRPDistribution(alpha))
                reused.prior.alpha = alpha   # the run loop updates alpha through this setter
                for dist, dname in ((fresh, "fresh"), (reused, "alpha_setter")):
                    for vname, tree in cons:
                        got_p = float(dist.log_p(tree))
                        got_1 = float(dist.log_p_one(tree))
                        both = dist.compute_both_log_p_and_log_p_one(tree)
                        # a particle holder is only ever built from trees the samplers produce themselves - never from a
                        # tree after relabel_nodes (whose "last node added to" bookkeeping still names an old label)
                        th = TreeHolder(tree, dist, None) if vname != "relabelled_copy" else None
                        ck.evaluations += 4
                        rep = {"state": absstate.to_json(key), "alpha": alpha, "p_out": p_out, "sizes": sizes_of, "variant": vname, "dist": dname, "tables": tab.tolist()}
                        for nm, g, e in (("log_p", got_p, exp_p), ("log_p_one", got_1, exp_1), ("fused log_p", float(both[0]), exp_p),
                                         ("fused log_p_one", float(both[1]), exp_1)) + ((("particle log_p_one", float(th.log_p_one), exp_1),
                                         ("particle log_p", float(th.log_p), exp_p)) if th is not None else ()):
                            dev = abs(g - e)
                            worst = max(worst, dev if math.isfinite(dev) else 1e9)
                            if not math.isfinite(g) or dev > 1e-9 * (1 + abs(e)):
                                ck.violation("C03|%s|%s" % (nm.replace(" ", "_"), dname), "%s = %.12g, FS-CRP model value %.12g (dev %.3g) for %s built %s, alpha=%s, p_out=%s [%s]" % (
                                    nm, g, e, dev, absstate.key_str(key), vname, alpha, p_out, dname), rep)
            # two trees restored from ONE dictionary snapshot (as particles hand them out); editing one must leave the
            # other's densities equal to the model value of its own (unchanged) state
            if p_out == 0.2 and offs is None and len(cons) > 0 and absstate.data_ids(key) == set(range(n)):
                from phyclone.tree import Tree
                snap = cons[0][1].to_dict()
                ta, tb = Tree.from_dict(snap), Tree.from_dict(snap)
                _, conc_a = absstate.project(ta, full=False)
                moved = False
                for n_, ds in conc_a["dat"].items():
                    if len(ds) > 1:
                        dpx = [x for x in data if x.idx == ds[0]][0]
                        ta.remove_data_point_from_node(dpx, n_)
                        ta.add_data_point_to_outliers(dpx)
                        moved = True
                        break
                if not moved and conc_a["outl"] and conc_a["names"]:
                    dpx = [x for x in data if x.idx == conc_a["outl"][0]][0]
                    ta.remove_data_point_from_outliers(dpx)
                    ta.add_data_point_to_node(dpx, conc_a["names"][0])
                    moved = True
                if moved:
                    fresh = TreeJointDistribution(FSCRPDistribution(1.0))
                    e1 = expected(feat, 1.0, p_out, sizes_of, zrow, outl_marg, G, D, "one")
                    ep = expected(feat, 1.0, p_out, sizes_of, zrow, outl_marg, G, D, "marg")
                    ck.evaluations += 2
                    try:
                        kb = absstate.project(tb, full=True)[0]
                        g1, gp = float(fresh.log_p_one(tb)), float(fresh.log_p(tb))
                        if kb != key or abs(g1 - e1) > 1e-9 * (1 + abs(e1)) or abs(gp - ep) > 1e-9 * (1 + abs(ep)):
                            ck.violation("C03|shared_snapshot", "after a tree restored from the same dictionary was edited, the untouched tree %s reports log_p_one %.12g / log_p %.12g, model %.12g / %.12g" % (
                                absstate.key_str(kb), g1, gp, e1, ep), {"state": absstate.to_json(key)})
                    except absstate.Inconsistent as ex:
                        ck.violation("C03|shared_snapshot", "after a tree restored from the same dictionary was edited, the untouched tree is inconsistent: %s" % ex, {"state": absstate.to_json(key)})
            # identity: all constructions equal & same hash
            for (na, ta), (nb, tb) in itertools.combinations(cons, 2):
                if not (ta == tb) or hash(ta) != hash(tb):
                    ck.violation("C03|identity|same_tree_unequal", "two constructions (%s, %s) of %s compare unequal / hash differently" % (na, nb, absstate.key_str(key)),
                                 {"state": absstate.to_json(key)})
            ck.traces_validated += 1
            if len(key[0]) > 1 or key[1]:
                ck.nontrivial("%s|%s|%s|%s" % (absstate.key_str(key), p_out, size_mode, offs is not None))
    # identity across different abstract states (sampled pairs)
    data = gridoracle.data_from_tables(tab, outlier_prob=0.2)
    reps = [(k, absstate.build(k, data)) for k in complete]
    for (ka, ta), (kb, tb) in itertools.combinations(reps, 2):
        ck.evaluations += 1
        if ta == tb:
            ck.violation("C03|identity|different_trees_equal", "%s and %s compare equal" % (absstate.key_str(ka), absstate.key_str(kb)), {"a": absstate.to_json(ka), "b": absstate.to_json(kb)})
    k = complete[-1]
    ck.sample({"state": absstate.to_json(k), "feature_record": feats[k], "alpha": 2.5,
               "log_p_one_expected": expected(feats[k], 2.5, 0.2, {d: 1 for d in range(n)}, oracle[k]["Z"] if k[0] else None, outl_marg, G, D, "one")})
    ck.extra["worst_abs_deviation"] = worst
    ck.rule = ("every forest on %d data points (all for the outlier-prior-0.2 setting also every partial forest) x 4-5 construction histories x 5 alpha values "
               "(fresh and via the setter) x 4 outlier-prior / cluster-size settings; non-trivial = states with > 1 clone or with outliers" % n)
    ck.exhaustive = True
    ck.assumptions = ["p = 1 excluded (log(1-p) undefined)", "lgamma/log evaluated by the harness on TLC's integer features", "integer likelihood tables (exact data term from GridOracle.tla)"]
    if corrupt:
        return ck
    return ck.finish()


def selftest():
    ck = run(corrupt="formula")
    ok = any("log_p_one" in v["signature"] for v in ck.violations)
    print("selftest:", "perturbed model value detected" if ok else "FAILED")
    return 0 if ok else 1


def replay(path):
    body = json.load(open(path))
    print(json.dumps(body["replay"], indent=1)[:2000])
    return 0
