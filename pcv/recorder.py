"""Recorder for chain runs: wraps module globals of phyclone.run (no source hooks in /repo).

Events (one per Chain.tla action), each a dict with "ev":
  burnin_iter_begin / main_iter_begin are inferred from clear_caches events
  clear_caches
  sample_tree   sampler=<burnin|tree|subtree|dp|prg>, in/out abstract keys, data conserved?, well-formed?
  relabel       (tree.relabel_nodes called from the run loop)
  conc_update   old, new, k, n (arguments the concentration sampler received), tree key
  append        iter, alpha, log_p_one, tree (abstract key), dict (the stored tree dict)
  dp_move       (inner_moves=True) one single-point reassignment inside a data-point sweep: d, in/out abstract keys
Wrappers log after the call returns (also on the error path).
"""
import contextlib

from . import absstate


class SamplerProxy:
    def __init__(self, inner, name, rec):
        self._inner = inner
        self._name = name
        self._rec = rec

    def __getattr__(self, item):
        return getattr(self._inner, item)

    def __setattr__(self, item, value):
        # the proxy must be transparent: attributes the run loop sets on a sampler reach the sampler itself
        if item in ("_inner", "_name", "_rec"):
            object.__setattr__(self, item, value)
        else:
            setattr(self._inner, item, value)

    def sample_tree(self, tree):
        ev = {"ev": "sample_tree", "sampler": self._name}
        try:
            k_in, _ = absstate.project(tree, full=True)
            ev["in"] = k_in
        except absstate.Inconsistent as ex:
            ev["in_error"] = str(ex)
            k_in = None
        try:
            out = self._inner.sample_tree(tree)
        except Exception as ex:
            ev["exception"] = "%s: %s" % (type(ex).__name__, ex)
            self._rec.events.append(ev)
            raise
        try:
            k_out, _ = absstate.project(out, full=True)
            ev["out"] = k_out
            if k_in is not None:
                ev["conserved"] = absstate.data_ids(k_in) == absstate.data_ids(k_out)
        except absstate.Inconsistent as ex:
            ev["out_error"] = str(ex)
        self._rec.events.append(ev)
        if self._rec.on_tree is not None:
            self._rec.on_tree(self._name, out)
        return out


class ConcProxy:
    def __init__(self, inner, rec):
        object.__setattr__(self, "_inner", inner)
        object.__setattr__(self, "_rec", rec)

    def __getattr__(self, item):
        return getattr(self._inner, item)

    def __setattr__(self, item, value):
        setattr(self._inner, item, value)

    def sample(self, old_value, num_clusters, num_data_points):
        new = self._inner.sample(old_value, num_clusters, num_data_points)
        self._rec.events.append({"ev": "conc_sample", "old": float(old_value), "k": int(num_clusters), "n": int(num_data_points), "new": float(new)})
        return new


class ChainRecorder:
    def __init__(self, on_tree=None, inner_moves=False):
        self.events = []
        self.inner_moves = inner_moves
        self.on_tree = on_tree
        self._saved = {}

    @contextlib.contextmanager
    def installed(self):
        import phyclone.run as prun

        rec = self
        saved = {n: getattr(prun, n) for n in ("setup_samplers", "append_to_trace", "update_concentration_value", "clear_proposal_dist_caches")}

        def setup_samplers(*a, **k):
            h = saved["setup_samplers"](*a, **k)
            h.burnin_sampler = SamplerProxy(h.burnin_sampler, "burnin", rec)
            h.tree_sampler = SamplerProxy(h.tree_sampler, "tree", rec)
            h.subtree_sampler = SamplerProxy(h.subtree_sampler, "subtree", rec)
            h.dp_sampler = SamplerProxy(h.dp_sampler, "dp", rec)
            h.prg_sampler = SamplerProxy(h.prg_sampler, "prg", rec)
            h.conc_sampler = ConcProxy(h.conc_sampler, rec)
            return h

        def append_to_trace(i, timer, trace, tree, tree_dist):
            n0 = len(trace)
            saved["append_to_trace"](i, timer, trace, tree, tree_dist)
            ev = {"ev": "append", "iter": i, "added": len(trace) - n0}
            if len(trace) > n0:
                e = trace[-1]
                ev.update(alpha=float(e["alpha"]), log_p_one=float(e["log_p_one"]), entry_iter=e["iter"])
                try:
                    ev["tree"] = absstate.project(tree, full=True)[0]
                except absstate.Inconsistent as ex:
                    ev["tree_error"] = str(ex)
                ev["alpha_now"] = float(tree_dist.prior.alpha)
            rec.events.append(ev)

        def update_concentration_value(conc_sampler, tree, tree_dist):
            old = float(tree_dist.prior.alpha)
            try:
                key = absstate.project(tree, full=True)[0]
            except absstate.Inconsistent:
                key = None
            saved["update_concentration_value"](conc_sampler, tree, tree_dist)
            rec.events.append({"ev": "conc_update", "old": old, "new": float(tree_dist.prior.alpha), "tree": key})

        def clear_proposal_dist_caches():
            saved["clear_proposal_dist_caches"]()
            rec.events.append({"ev": "clear_caches"})

        from phyclone.tree import Tree
        saved_relabel = Tree.relabel_nodes

        def relabel_nodes(self_tree):
            saved_relabel(self_tree)
            rec.events.append({"ev": "relabel"})

        from phyclone.mcmc.gibbs_mh import DataPointSampler
        saved_inner = DataPointSampler._sample_tree

        def _sample_tree(self_s, data_idx, tree, old_node):
            ev = {"ev": "dp_move", "d": int(data_idx)}
            try:
                ev["in"] = absstate.project(tree, full=True)[0]
            except absstate.Inconsistent as ex:
                ev["in_error"] = str(ex)
            out = saved_inner(self_s, data_idx, tree, old_node)
            try:
                ev["out"] = absstate.project(out, full=True)[0]
            except absstate.Inconsistent as ex:
                ev["out_error"] = str(ex)
            rec.events.append(ev)
            return out

        if rec.inner_moves:
            DataPointSampler._sample_tree = _sample_tree
        Tree.relabel_nodes = relabel_nodes
        prun.setup_samplers = setup_samplers
        prun.append_to_trace = append_to_trace
        prun.update_concentration_value = update_concentration_value
        prun.clear_proposal_dist_caches = clear_proposal_dist_caches
        try:
            yield self
        finally:
            DataPointSampler._sample_tree = saved_inner
            Tree.relabel_nodes = saved_relabel
            for n, f in saved.items():
                setattr(prun, n, f)


def run_chain(data, seed, rec=None, **opts):
    """run_phyclone_chain with defaults; returns (results or None, exception or None)."""
    import io
    import contextlib as cl
    import numpy as np
    import phyclone.run as prun

    o = dict(burnin=1, concentration_update=True, concentration_value=1.0, max_time=float("inf"), num_iters=3, num_particles=3,
             num_samples_data_point=1, num_samples_prune_regraph=1, outlier_prob=0, print_freq=1000000, proposal="semi-adapted",
             resample_threshold=0.5, thin=1, subtree_update_prob=0.0)
    o.update(opts)
    rng = np.random.default_rng(seed)
    args = (o["burnin"], o["concentration_update"], o["concentration_value"], data, o["max_time"], o["num_iters"], o["num_particles"],
            o["num_samples_data_point"], o["num_samples_prune_regraph"], o["outlier_prob"], o["print_freq"], o["proposal"],
            o["resample_threshold"], rng, ["s%d" % i for i in range(data[0].value.shape[0])], o["thin"], 0, o["subtree_update_prob"])
    buf = io.StringIO()
    try:
        with cl.redirect_stdout(buf):
            if rec is not None:
                with rec.installed():
                    res = prun.run_phyclone_chain(*args)
            else:
                res = prun.run_phyclone_chain(*args)
        return res, None
    except Exception as ex:  # reported by the caller
        import traceback
        tb = traceback.extract_tb(ex.__traceback__)
        inpkg = [f for f in tb if "/phyclone/" in f.filename] or list(tb)
        where = "%s:%s" % (inpkg[-1].filename.split("/")[-1], inpkg[-1].name)
        return None, "%s@%s: %s" % (type(ex).__name__, where, ex)
