"""./check <ID> [--tier quick|thorough] [--replay PATH] [--selftest]"""
import argparse
import importlib
import os
import sys
import traceback


def main(argv=None):
    ap = argparse.ArgumentParser()
    ap.add_argument("pid")
    ap.add_argument("--tier", default=None)
    ap.add_argument("--replay", default=None)
    ap.add_argument("--selftest", action="store_true")
    a = ap.parse_args(argv)
    if a.tier:
        os.environ["VERIF_TIER"] = a.tier
    os.environ.setdefault("VERIF_TIER", "quick")
    pid = a.pid.upper()
    try:
        mod = importlib.import_module("pcv.checks.%s" % pid.lower())
    except ModuleNotFoundError:
        print("no check for %s" % pid)
        return 2
    try:
        if a.replay:
            return int(mod.replay(a.replay) or 0)
        if a.selftest:
            return int(mod.selftest() or 0)
        return int(mod.run() or 0)
    except SystemExit:
        raise
    except Exception:
        traceback.print_exc()
        print("MACHINERY-FAILURE property=%s" % pid)
        return 2


if __name__ == "__main__":
    sys.exit(main())
