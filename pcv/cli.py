"""./check <ID> [--tier quick|thorough] [--replay PATH] [--selftest]"""
import argparse
import importlib
import os
import sys
import traceback


def main(argv=None):
    ap = argparse.ArgumentParser()
    ap.add_argument("pid")
    ap.add_argument("--tier", default=None)
    ap.add_argument("--replay", default=None)
    ap.add_argument("--selftest", action="store_true")
    a = ap.parse_args(argv)
    if a.tier:
        os.environ["VERIF_TIER"] = a.tier
    os.environ.setdefault("VERIF_TIER", "quick")
    pid = a.pid.upper()
    try:
        mod = importlib.import_module("pcv.checks.%s" % pid.lower())
    except ModuleNotFoundError:
        print("no check for %s" % pid)
        return 2
    try:
        if a.replay:
            return int(mod.replay(a.replay) or 0)
        if a.selftest:
            return int(mod.selftest() or 0)
        return int(mod.run() or 0)
    except SystemExit:
        raise
    except Exception as ex:
        traceback.print_exc()
        # An exception raised INSIDE the package under test on an input the check built from valid states is a verdict
        # (the operation is not defined where the property needs it); anything else is a failure of the machinery.
        from . import env
        from .evidence import Check
        tb = traceback.extract_tb(ex.__traceback__)
        pkg = os.path.join(os.path.realpath(env.REPO), "phyclone") + os.sep
        inner = tb[-1] if tb else None
        from .tlc import TLCError
        if inner is not None and os.path.realpath(inner.filename).startswith(pkg) and not isinstance(ex, TLCError):
            ck = Check(pid)
            where = "%s:%s" % (os.path.basename(inner.filename), inner.name)
            ck.rule = "aborted by an exception of the implementation"
            ck.violation("%s|uncaught_exception:%s@%s" % (pid, type(ex).__name__, where),
                         "the implementation raised %s: %s (in %s) while the check was exercising it" % (type(ex).__name__, ex, where),
                         {"traceback": traceback.format_exc()[-3000:]})
            ck.samples = [{"exception": "%s: %s" % (type(ex).__name__, ex)}]
            ck.states = ck.transitions = 1
            return ck.finish()
        print("MACHINERY-FAILURE property=%s" % pid)
        return 2


if __name__ == "__main__":
    sys.exit(main())
