"""TLC driver: generate MC module + cfg, run TLC, parse counts / printed JSON / errors."""
import json
import os
import re
import shutil
import subprocess
import time

from . import env

TLC_JAR_CP = "/opt/veriftools/tla/tla2tools.jar:/opt/veriftools/tla/CommunityModules-deps.jar"


class TLCError(RuntimeError):
    """Machinery failure (TLC crashed / parse error / timeout)."""


class TLCResult:
    def __init__(self):
        self.rc = None
        self.out = ""
        self.generated = 0
        self.distinct = 0
        self.depth = 0
        self.wall = 0.0
        self.violated = []  # names of violated invariants / properties
        self.errors = []  # other "Error:" lines
        self.json_prints = []  # parsed values of PrintT(ToJson(..)) lines
        self.tuple_prints = []  # raw lines of PrintT(<<...>>)
        self.coverage = {}  # action -> (distinct, taken)
        self.timed_out = False

    @property
    def ok(self):
        return self.rc == 0 and not self.violated and not self.errors and not self.timed_out

    def summary(self):
        return {
            "rc": self.rc,
            "generated": self.generated,
            "distinct": self.distinct,
            "depth": self.depth,
            "wall_s": round(self.wall, 2),
            "violated": self.violated,
            "errors": self.errors[:5],
        }


_RE_STATES = re.compile(r"(\d+) states generated, (\d+) distinct states found")
_RE_DEPTH = re.compile(r"The depth of the complete state graph search is (\d+)")
_RE_INV = re.compile(r"Invariant (\S+) is violated")
_RE_PROP = re.compile(r"(?:Action property|Temporal properties|property) (\S+)? ?(?:is|were) violated")
_RE_COV = re.compile(r"^<(\w+) line .* of module (\w+)(?: \(.*\))?>: (\d+):(\d+)")


def _link_specs(dst):
    for fn in os.listdir(env.SPEC_DIR):
        if fn.endswith(".tla"):
            p = os.path.join(dst, fn)
            if os.path.islink(p) or os.path.exists(p):
                os.remove(p)
            os.symlink(os.path.join(env.SPEC_DIR, fn), p)


def run_tlc(
    job,
    module,
    cfg,
    mc_text=None,
    workers=None,
    timeout=600,
    environ=None,
    extra_args=(),
    deadlock=False,
    coverage=False,
    simulate=None,
    java_opts=None,
    keep=True,
):
    """Run TLC on `module` (a module of /verif/spec, or a generated one given as mc_text).

    job      scratch sub-directory name under /verif/build
    cfg      text of the .cfg file
    mc_text  optional text of a generated module named `module` (written to scratch)
    """
    d = env.scratch(os.path.join("tlc", job))
    _link_specs(d)
    if mc_text is not None:
        p = os.path.join(d, module + ".tla")
        if os.path.islink(p):
            os.remove(p)
        with open(p, "w") as fh:
            fh.write(mc_text)
    with open(os.path.join(d, module + ".cfg"), "w") as fh:
        fh.write(cfg)
    meta = os.path.join(d, "states")
    shutil.rmtree(meta, ignore_errors=True)
    if workers is None:
        workers = env.ncpu()
    cmd = ["java", "-XX:+UseParallelGC", "-Xss16m"]
    if java_opts:
        cmd += list(java_opts)
    cmd += ["-cp", TLC_JAR_CP, "tlc2.TLC", "-workers", str(workers), "-metadir", meta, "-noGenerateSpecTE"]
    if not deadlock:
        cmd += ["-deadlock"]
    if coverage:
        cmd += ["-coverage", "1"]
    if simulate:
        cmd += ["-simulate", simulate]
    cmd += list(extra_args)
    cmd += ["-config", module + ".cfg", module]
    e = dict(os.environ)
    e.pop("JAVA_TOOL_OPTIONS", None)
    if environ:
        e.update({k: str(v) for k, v in environ.items()})
    res = TLCResult()
    t0 = time.time()
    try:
        p = subprocess.run(cmd, cwd=d, env=e, stdout=subprocess.PIPE, stderr=subprocess.STDOUT, timeout=timeout)
        res.rc = p.returncode
        res.out = p.stdout.decode("utf-8", "replace")
    except subprocess.TimeoutExpired as ex:
        res.timed_out = True
        res.rc = -1
        res.out = (ex.stdout or b"").decode("utf-8", "replace")
    res.wall = time.time() - t0
    _parse(res)
    with open(os.path.join(d, module + ".out"), "w") as fh:
        fh.write(res.out)
    shutil.rmtree(meta, ignore_errors=True)
    return res


def _parse(res):
    lines = res.out.splitlines()
    i = 0
    while i < len(lines):
        ln = lines[i]
        m = _RE_STATES.search(ln)
        if m:
            res.generated = int(m.group(1))
            res.distinct = int(m.group(2))
        m = _RE_DEPTH.search(ln)
        if m:
            res.depth = int(m.group(1))
        m = _RE_INV.search(ln)
        if m:
            res.violated.append(m.group(1))
        elif "is violated" in ln or "was violated" in ln or "were violated" in ln:
            res.violated.append(ln.strip())
        elif ln.startswith("Error:"):
            # multi-line error message: keep this line and the next few
            res.errors.append(" ".join(x.strip() for x in lines[i : i + 4]))
        if ln.startswith('"{') or ln.startswith('"['):
            try:
                res.json_prints.append(json.loads(json.loads(ln)))
            except Exception:
                # TLC may wrap very long strings? treat as machinery failure later
                res.errors.append("unparsable JSON print: " + ln[:200])
        elif ln.startswith("<<"):
            res.tuple_prints.append(ln)
        m = _RE_COV.match(ln)
        if m:
            res.coverage[m.group(1)] = (int(m.group(3)), int(m.group(4)))
        i += 1
    # an "Error:" that merely announces an invariant violation is not a machinery error
    res.errors = [e for e in res.errors if "is violated" not in e and "Invariant" not in e or "Evaluating" in e]
    if res.violated:
        res.errors = [e for e in res.errors if "behavior up to this point" not in e]


def require_ok(res, what):
    """Raise TLCError unless the run completed without violation or error."""
    if res.timed_out:
        raise TLCError("%s: TLC timed out after %.0fs" % (what, res.wall))
    if not res.ok:
        raise TLCError("%s: TLC failed: %s\n%s" % (what, res.summary(), res.out[-3000:]))
    return res


def tla_set(xs):
    return "{" + ", ".join(str(x) for x in xs) + "}"


def tla_bool(b):
    return "TRUE" if b else "FALSE"


def tla_str(s):
    return '"' + s + '"'


def cfg_text(constants=None, init="Init", next_="Next", spec=None, invariants=(), properties=(),
             constraint=None, action_constraint=None, view=None, postcondition=None, symmetry=None,
             check_deadlock=None):
    lines = []
    if spec:
        lines.append("SPECIFICATION %s" % spec)
    else:
        lines.append("INIT %s" % init)
        lines.append("NEXT %s" % next_)
    if constants:
        lines.append("CONSTANTS")
        for k, v in constants.items():
            if isinstance(v, str) and v.startswith("<-"):
                lines.append("  %s %s" % (k, v))
            else:
                lines.append("  %s = %s" % (k, v))
    for inv in invariants:
        lines.append("INVARIANT %s" % inv)
    for pr in properties:
        lines.append("PROPERTY %s" % pr)
    if constraint:
        lines.append("CONSTRAINT %s" % constraint)
    if action_constraint:
        lines.append("ACTION_CONSTRAINT %s" % action_constraint)
    if view:
        lines.append("VIEW %s" % view)
    if symmetry:
        lines.append("SYMMETRY %s" % symmetry)
    if postcondition:
        lines.append("POSTCONDITION %s" % postcondition)
    if check_deadlock is not None:
        lines.append("CHECK_DEADLOCK %s" % ("TRUE" if check_deadlock else "FALSE"))
    return "\n".join(lines) + "\n"


def read_json(path):
    with open(path) as fh:
        return json.load(fh)


def run_many(jobs, max_parallel=None):
    """jobs: list of dicts of run_tlc kwargs (each should set workers small). Returns results in order."""
    from concurrent.futures import ThreadPoolExecutor

    if max_parallel is None:
        max_parallel = max(1, env.ncpu() // 2)
    with ThreadPoolExecutor(max_workers=max_parallel) as ex:
        futs = [ex.submit(run_tlc, **j) for j in jobs]
        return [f.result() for f in futs]
