"""Binding of spec/TreeADT.tla to phyclone.tree.Tree: projection, action interpreter, co-exploration."""
import json
import pickle

import numpy as np

from . import absstate, tlc

ROOT, OUT, NONE = 99, 98, 97


def consts(data, outl=True, d1=False, d2=False, d3=False, maxname=7, dump=False, host_edits=False, shared=False):
    return {"Data": tlc.tla_set(data), "OutliersOn": tlc.tla_bool(outl), "DropUpdateOnRemoveDP": tlc.tla_bool(d1),
            "HostEdits": tlc.tla_bool(host_edits), "SharedPayloads": tlc.tla_bool(shared),
            "DropUpdateOnGraft": tlc.tla_bool(d2), "RelabelKeepsKeys": tlc.tla_bool(d3), "MaxName": maxname,
            "DumpEdges": tlc.tla_bool(dump)}


INVS = ["InvWF", "InvFresh", "InvConserved", "NamesUnique"]


# ------------------------------------------------------------------------------------------------ projection
def _nm(x):
    if x == "root":
        return ROOT
    if x == -1:
        return OUT
    if x is None:
        return NONE
    return int(x)


def proj_tree(tree):
    """ProjTree of the spec for a real Tree (raises absstate.Inconsistent if the views disagree)."""
    _, conc = absstate.project(tree, full=True)
    dk = sorted(int(k) for k in tree._data.keys() if k not in ("root", -1))
    return {
        "nodes": sorted(int(n) for n in conc["names"]),
        "par": sorted([int(n), _nm(p)] for n, p in conc["par"].items()),
        "dat": sorted([int(n), sorted(v)] for n, v in conc["dat"].items()),
        "outl": sorted(conc["outl"]),
        "last": _nm(conc["last"]),
        "dkeys": dk,
    }


def canon_tree(j):
    return {
        "nodes": sorted(j["nodes"]),
        "par": sorted([int(p[0]), int(p[1])] for p in j["par"]),
        "dat": sorted([int(p[0]), sorted(p[1])] for p in j["dat"]),
        "outl": sorted(j["outl"]),
        "last": j["last"],
        "dkeys": sorted(j["dkeys"]),
    }


def canon_state(j):
    return {"cur": canon_tree(j["cur"]), "sub": canon_tree(j["sub"]), "mode": j["mode"],
            "pend": {"p": j["pend"]["p"], "D": sorted(j["pend"]["D"])}}


def abs_of_proj(tp):
    """(clades, outliers) of a ProjTree record."""
    par = {n: p for n, p in tp["par"]}
    dat = {n: set(ds) for n, ds in tp["dat"]}
    kids = {}
    for n, p in par.items():
        kids.setdefault(p, []).append(n)
    clades = set()

    def rec(n):
        s_ = set(dat.get(n, ()))
        for k in kids.get(n, []):
            s_ |= rec(k)
        clades.add(frozenset(s_))
        return s_

    for r in kids.get(ROOT, []):
        rec(r)
    return (frozenset(clades), frozenset(tp["outl"]))


def skey(st):
    return json.dumps(st, sort_keys=True, separators=(",", ":"))


def tkey(tj):
    return json.dumps(tj, sort_keys=True, separators=(",", ":"))


def canon_act(a):
    out = {}
    for k, v in a.items():
        out[k] = sorted(v) if isinstance(v, list) else v
    return out


def load_graph(json_prints):
    """edges: src_key -> {act_key: [dst_state, ...]}; also the set of all state keys."""
    g = {}
    states = {}
    n = 0
    for e in json_prints:
        s = canon_state(e["src"])
        d = canon_state(e["dst"])
        a = canon_act(e["act"])
        sk, dk = skey(s), skey(d)
        states[sk] = s
        states[dk] = d
        g.setdefault(sk, {}).setdefault(skey(a), (a, []))[1].append(d)
        n += 1
    return g, states, n


# ------------------------------------------------------------------------------------------------ real objects
class Real:
    """A real (cur, sub) pair of Tree objects plus helpers to restore them in different ways."""

    def __init__(self, cur, sub):
        self.cur = cur
        self.sub = sub


def restore(tree, how):
    from phyclone.tree import Tree

    if how == -1:
        return tree
    if how == 0:
        return tree.copy()
    if how == 1:
        return Tree.from_dict(tree.to_dict())
    return Tree.from_dict(pickle.loads(pickle.dumps(tree.to_dict())))


def apply_action(real, act, data, how=0):
    """Apply one spec action to restored copies of the real objects; returns a new Real."""
    from phyclone.tree import Tree

    cur = restore(real.cur, how)
    sub = restore(real.sub, how)
    name = act["name"]
    grid = data[0].grid_size

    def node(x):
        return "root" if x == ROOT else (-1 if x == OUT else x)

    tgt = None
    if name.startswith("build_") or name.startswith("subbuild_"):
        t = cur if name.startswith("build_") else sub
        op = name.split("_", 1)[1]
        if op == "add_dp":
            t.add_data_point_to_node(data[act["d"]], act["node"])
        elif op == "create_root":
            t.create_root_node(children=list(act["kids"]), data=[data[act["d"]]])
        elif op == "add_out":
            t.add_data_point_to_outliers(data[act["d"]])
        else:
            raise ValueError(name)
    elif name == "dp_remove":
        cur.remove_data_point_from_node(data[act["d"]], act["node"])
    elif name == "dp_remove_out":
        cur.remove_data_point_from_node(data[act["d"]], -1)
    elif name == "dp_add":
        cur.add_data_point_to_node(data[act["d"]], act["node"])
    elif name == "dp_add_out":
        cur.add_data_point_to_outliers(data[act["d"]])
    elif name in ("get_subtree", "sub_get"):
        sub = cur.get_subtree(node(act["node"]))
    elif name == "remove_subtree":
        cur.remove_subtree(sub)
    elif name == "add_subtree_update":
        p = node(act["parent"])
        cur.add_subtree(sub, parent=None if p == "root" else p)
        cur.update()
        sub = Tree(grid)
    elif name == "sub_outliers":
        # TreeADT.tla's action hands ALL outliers over; iterate over a snapshot so that the harness does not depend on
        # whether Tree.outliers returns a copy (benign change B9)
        for dp in list(cur.outliers):
            cur.remove_data_point_from_outliers(dp)
            sub.add_data_point_to_outliers(dp)
    elif name == "sub_rebuild_start":
        sub = Tree(grid)
    elif name == "sub_attach":
        p = node(act["parent"])
        new = cur.copy()
        new.add_subtree(sub, parent=None if p == "root" else p)
        for dp in list(sub.outliers):
            new.add_data_point_to_outliers(dp)
        new.update()
        cur = new
        sub = Tree(grid)
    elif name == "relabel_nodes":
        cur.relabel_nodes()
    elif name == "dict_round_trip":
        cur = Tree.from_dict(cur.to_dict())
    else:
        raise ValueError("unknown action %r" % name)
    return Real(cur, sub)


# ------------------------------------------------------------------------------------------------ numeric oracle (C06)
def node_arrays(tree):
    """clade -> (log_p, log_r) of the clone, plus the virtual root's log_r."""
    _, conc = absstate.project(tree, full=False)
    out = {}
    for n in conc["names"]:
        idx = tree._node_indices[n]
        nd = tree._graph[idx]
        out[conc["clade"][n]] = (nd.log_p, nd.log_r)
    root = tree._graph[tree._node_indices["root"]]
    return out, root.log_r, root.log_p


def compare_with_fresh(tree, data, dist, tol):
    """Compare every cached array and both joint densities with a freshly built tree of the same shape.

    Returns None or a message."""
    key, conc = absstate.project(tree, full=False)
    clades = list(conc["clade"].values())
    if len(set(clades)) != len(clades):
        return None  # clones owning nothing (not in the sampler grammar): rebuild by clade is ambiguous
    if not conc["names"] and not conc["outl"]:
        return None
    fresh = absstate.build(key, data)
    a, rr, rp = node_arrays(tree)
    b, frr, frp = node_arrays(fresh)
    for c in a:
        for i, nm in ((0, "log_p"), (1, "log_r")):
            x, y = a[c][i], b[c][i]
            if x.shape != y.shape or not np.all(np.isfinite(x)):
                return "clone %s: %s not finite / wrong shape" % (sorted(c), nm)
            dev = float(np.max(np.abs(x - y)))
            if dev > tol * (1 + float(np.max(np.abs(y)))):
                return "clone %s: cached %s differs from a fresh rebuild by %.3g" % (sorted(c), nm, dev)
    dev = float(np.max(np.abs(rr - frr)))
    if conc["names"] and dev > tol * (1 + float(np.max(np.abs(frr)))):
        return "virtual root log_r (data_log_likelihood) differs from a fresh rebuild by %.3g" % dev
    if dist is not None and (conc["names"] or conc["outl"]):
        for nm in ("log_p", "log_p_one"):
            x = float(getattr(dist, nm)(tree))
            y = float(getattr(dist, nm)(fresh))
            if not np.isfinite(x) or abs(x - y) > tol * (1 + abs(y)):
                return "%s = %r but a fresh rebuild gives %r" % (nm, x, y)
        bp, bp1 = dist.compute_both_log_p_and_log_p_one(tree)
        if abs(bp - dist.log_p(fresh)) > tol * (1 + abs(bp)) or abs(bp1 - dist.log_p_one(fresh)) > tol * (1 + abs(bp1)):
            return "fused log_p/log_p_one differ from a fresh rebuild"
    return None


# ------------------------------------------------------------------------------------------------ co-exploration
def initial_state():
    et = {"nodes": [], "par": [], "dat": [], "outl": [], "last": NONE, "dkeys": []}
    return {"cur": et, "sub": dict(et), "mode": "build", "pend": {"p": NONE, "D": []}}


def coexplore(graph, data, dist, tol=1e-8, max_edges=None, hows=(0, 1, 2), rng=None, oracle=None):
    """Co-explore real Tree objects against the TLC state graph.

    For every real state reached, every action the spec enables there is applied to restored copies of the real
    objects; the projected result must be one of the spec's successors for that action.  Returns a dict of issue
    lists: 'inconsistent' (C07), 'stale' (C06), 'exception', 'mismatch' (edge not in the spec graph), plus counters.
    """
    from phyclone.tree import Tree

    grid = data[0].grid_size
    st0 = initial_state()
    k0 = skey(st0)
    reps = {k0: Real(Tree(grid), Tree(grid))}
    depth = {k0: 0}
    queue = [k0]
    out = {"inconsistent": [], "stale": [], "exception": [], "mismatch": [], "edges": 0, "states": 1,
           "spec_edges_unrealised": 0, "max_depth": 0, "samples": []}
    n_act = 0
    qi = 0
    while qi < len(queue):
        key = queue[qi]
        qi += 1
        real = reps[key]
        if key not in graph:
            continue
        for akey, (act, dsts) in graph[key].items():
            if max_edges is not None and out["edges"] >= max_edges:
                return out
            how = hows[n_act % len(hows)]
            n_act += 1
            ctx = {"src": json.loads(key), "act": act, "restore": ["copy", "from_dict(to_dict)", "pickle of dict"][how]}
            try:
                new = apply_action(real, act, data, how)
            except Exception as ex:
                out["exception"].append(dict(ctx, error="%s: %s" % (type(ex).__name__, ex)))
                continue
            out["edges"] += 1
            try:
                pc, ps = proj_tree(new.cur), proj_tree(new.sub)
            except absstate.Inconsistent as ex:
                out["inconsistent"].append(dict(ctx, error=str(ex)))
                continue
            match = [d for d in dsts if tkey(d["cur"]) == tkey(pc) and tkey(d["sub"]) == tkey(ps)]
            out["spec_edges_unrealised"] += max(0, len(dsts) - 1)
            for t, nm in ((new.cur, "cur"), (new.sub, "sub")):
                msg = compare_with_fresh(t, data, dist, tol)
                if msg is None and oracle is not None:
                    from . import gridoracle
                    msg = gridoracle.compare_tree(t, oracle, data[0].grid_size[1])
                if msg:
                    out["stale"].append(dict(ctx, obj=nm, error=msg))
            # value semantics: acting on restored copies must leave the stored originals untouched
            try:
                if tkey(proj_tree(real.cur)) != tkey(json.loads(key)["cur"]) or tkey(proj_tree(real.sub)) != tkey(json.loads(key)["sub"]):
                    out["stale"].append(dict(ctx, obj="original", error="the original objects changed when an edit was applied to their restored copies (aliasing)"))
            except absstate.Inconsistent as ex:
                out["inconsistent"].append(dict(ctx, error="original object corrupted by an edit on its restored copy: %s" % ex))
            if not match:
                same_abstract = any(abs_of_proj(d["cur"]) == abs_of_proj(pc) and abs_of_proj(d["sub"]) == abs_of_proj(ps) for d in dsts)
                out["mismatch"].append(dict(ctx, observed={"cur": pc, "sub": ps}, allowed=dsts[:3], names_only=same_abstract))
                continue
            dk = skey(match[0])
            if dk not in reps:
                reps[dk] = new
                depth[dk] = depth[key] + 1
                out["max_depth"] = max(out["max_depth"], depth[dk])
                queue.append(dk)
                out["states"] += 1
                if len(out["samples"]) < 3 and depth[dk] >= 6 and act["name"] in ("sub_attach", "add_subtree_update", "relabel_nodes"):
                    out["samples"].append({"depth": depth[dk], "last_action": act, "state": match[0]})
    return out


# ------------------------------------------------------------------------------------------------ grammar mirror + in-place walks
def placed(tp):
    s = set(tp["outl"])
    for _, ds in tp["dat"]:
        s |= set(ds)
    return s


def enabled_actions(state, data_ids, outliers_on=True):
    """Python mirror of TreeADT!Next: list of (act, next_mode_fn) enabled in a projected state."""
    import itertools

    mode, pend, cur, sub = state["mode"], state["pend"], state["cur"], state["sub"]
    par = {n: p for n, p in cur["par"]}
    acts = []

    def build_acts(tp, D, prefix):
        tpar = {n: p for n, p in tp["par"]}
        top = sorted(n for n, p in tpar.items() if p == ROOT)
        out = []
        for d in sorted(set(D) - placed(tp)):
            for r in top:
                out.append({"name": prefix + "add_dp", "d": d, "node": r})
            for k in range(len(top) + 1):
                for S in itertools.combinations(top, k):
                    out.append({"name": prefix + "create_root", "d": d, "kids": sorted(S)})
            if outliers_on:
                out.append({"name": prefix + "add_out", "d": d})
        return out

    if mode == "build":
        if placed(cur) != set(data_ids):
            acts += build_acts(cur, data_ids, "build_")
    elif mode == "idle":
        for n, ds in cur["dat"]:
            if len(ds) > 1:
                for d in ds:
                    acts.append({"name": "dp_remove", "d": d, "node": n})
        for d in cur["outl"]:
            acts.append({"name": "dp_remove_out", "d": d})
        for n in cur["nodes"]:
            acts.append({"name": "get_subtree", "node": n})
        for sr in sorted({par[c] for c in cur["nodes"]}):
            acts.append({"name": "sub_get", "node": sr})
        acts.append({"name": "relabel_nodes"})
        acts.append({"name": "dict_round_trip"})
    elif mode == "dp":
        for n in cur["nodes"]:
            acts.append({"name": "dp_add", "d": pend["p"], "node": n})
        if outliers_on:
            acts.append({"name": "dp_add_out", "d": pend["p"]})
    elif mode in ("prg1", "sub1"):
        acts.append({"name": "remove_subtree"})
    elif mode == "prg2":
        for p in list(cur["nodes"]) + [ROOT]:
            acts.append({"name": "add_subtree_update", "parent": p})
    elif mode == "sub2":
        acts.append({"name": "sub_outliers"})
    elif mode == "sub3":
        acts.append({"name": "sub_rebuild_start"})
    elif mode == "subbuild":
        if placed(sub) != set(pend["D"]):
            acts += build_acts(sub, pend["D"], "subbuild_")
        else:
            acts.append({"name": "sub_attach", "parent": pend["p"]})
    return acts


def next_mode_pend(state, act, new_cur, new_sub, data_ids):
    """mode'/pend' of the spec for an action (mirror of the TreeADT actions)."""
    mode, pend, cur = state["mode"], state["pend"], state["cur"]
    par = {n: p for n, p in cur["par"]}
    nm = act["name"]
    if nm.startswith("build_"):
        return ("idle" if placed(new_cur) == set(data_ids) else "build"), pend
    if nm in ("dp_remove", "dp_remove_out"):
        return "dp", {"p": act["d"], "D": []}
    if nm in ("dp_add", "dp_add_out"):
        return "idle", {"p": NONE, "D": []}
    if nm == "get_subtree":
        return "prg1", {"p": par[act["node"]], "D": []}
    if nm == "sub_get":
        sr = act["node"]
        return "sub1", {"p": ROOT if sr == ROOT else par[sr], "D": []}
    if nm == "remove_subtree":
        return ("prg2" if mode == "prg1" else "sub2"), pend
    if nm == "add_subtree_update":
        return "idle", {"p": NONE, "D": []}
    if nm == "sub_outliers":
        return "sub3", pend
    if nm == "sub_rebuild_start":
        return "subbuild", {"p": pend["p"], "D": sorted(placed(state["sub"]))}
    if nm.startswith("subbuild_"):
        return "subbuild", pend
    if nm == "sub_attach":
        return "idle", {"p": NONE, "D": []}
    if nm in ("relabel_nodes", "dict_round_trip"):
        return "idle", pend
    raise ValueError(nm)


def _snapshot(tree):
    key, _ = absstate.project(tree, full=False)
    arrs, rr, _ = node_arrays(tree)
    h = tuple(sorted((tuple(sorted(c)), a[0].tobytes(), a[1].tobytes()) for c, a in arrs.items())) + (rr.tobytes(),)
    return tkey(proj_tree(tree)), h


def walk(data, data_ids, steps, rs, dist, oracle=None, tol=1e-8, outliers_on=True, pool_max=6, on_state=None):
    """One in-place random walk through the grammar on real objects (no restoring copies between steps), with
    a pool of sibling trees that received the same grafted subtree (as the prune-regraft sampler builds them).

    Returns (edges, issues) where edges are {src, act, dst} records for TraceTreeADT."""
    from phyclone.tree import Tree

    grid = data[0].grid_size
    cur, sub = Tree(grid), Tree(grid)
    state = initial_state()
    edges, issues = [], []
    pool = []  # (tree, snapshot)
    for step in range(steps):
        acts = enabled_actions(state, data_ids, outliers_on)
        if not acts:
            break
        # bias towards finishing builds quickly and towards composite moves
        act = acts[rs.randint(len(acts))]
        ctx = {"step": step, "src": state, "act": act}
        try:
            nm = act["name"]
            if nm == "add_subtree_update":
                # mimic PruneRegraphSampler._create_sampled_trees_array: graft the same subtree into several copies
                cands = {}
                for a2 in acts:
                    p = a2["parent"]
                    t = cur.copy()
                    t.add_subtree(sub, parent=None if p == ROOT else p)
                    t.update()
                    cands[p] = t
                cur = cands.pop(act["parent"])
                for t in cands.values():
                    pool.append((t, _snapshot(t)))
                pool = pool[-pool_max:]
                sub = Tree(grid)
            else:
                r = apply_action_inplace(cur, sub, act, data)
                cur, sub = r.cur, r.sub
        except absstate.Inconsistent as ex:
            issues.append(("inconsistent", dict(ctx, error=str(ex))))
            break
        except Exception as ex:
            issues.append(("exception", dict(ctx, error="%s: %s" % (type(ex).__name__, ex))))
            break
        try:
            pc, ps = proj_tree(cur), proj_tree(sub)
        except absstate.Inconsistent as ex:
            issues.append(("inconsistent", dict(ctx, error=str(ex))))
            break
        mode2, pend2 = next_mode_pend(state, act, pc, ps, data_ids)
        dst = {"cur": pc, "sub": ps, "mode": mode2, "pend": pend2}
        edges.append({"src": state, "act": act, "dst": dst})
        for t, nm2 in ((cur, "cur"), (sub, "sub")):
            msg = compare_with_fresh(t, data, dist, tol)
            if msg is None and oracle is not None:
                from . import gridoracle
                msg = gridoracle.compare_tree(t, oracle, grid[1])
            if msg:
                issues.append(("stale", dict(ctx, obj=nm2, error=msg)))
        if on_state is not None:
            for msg in on_state(cur, sub, dst, act) or ():
                issues.append(("callback", dict(ctx, error=msg)))
        for t, snap in pool:
            try:
                now = _snapshot(t)
            except absstate.Inconsistent as ex:
                issues.append(("inconsistent", dict(ctx, error="a sibling tree sharing a grafted subtree was corrupted: %s" % ex)))
                pool = []
                break
            if now != snap:
                issues.append(("stale", dict(ctx, obj="pool", error="a tree that received the same grafted subtree changed when another tree was edited (shared node payloads)")))
                pool = []
                break
        state = dst
    return edges, issues


def apply_action_inplace(cur, sub, act, data):
    """Like apply_action but on the given objects themselves (as the samplers do)."""

    class _NoRestore(Real):
        pass

    real = _NoRestore(cur, sub)
    return apply_action(real, act, data, how=-1)


def validate_edges(job, edges, data_ids, maxname=99, workers=None, timeout=3000, abstract_only=False):
    """Batch trace validation of recorded edges against TreeADT (TraceTreeADT.tla). Returns (result, unmatched idx)."""
    import os
    from . import env

    d = env.scratch(os.path.join("tlc", job))
    path = os.path.join(d, "edges.json")
    with open(path, "w") as fh:
        json.dump(edges, fh)
    c = consts(data_ids, maxname=maxname)
    c["AbstractOnly"] = tlc.tla_bool(abstract_only)
    cfg = tlc.cfg_text(constants=c, init="TraceInit", next_="TraceNext",
                       invariants=["InvWF", "InvFresh", "InvConserved", "Matched"], view="tview")
    r = tlc.run_tlc(job, "TraceTreeADT", cfg, workers=workers, timeout=timeout, environ={"TRACE_FILE": path})
    matched = set()
    for ln in r.tuple_prints:
        if ln.startswith('<<"MATCHED"'):
            matched.add(int(ln.split(",")[1].strip(" >")))
    unmatched = [k for k in range(1, len(edges) + 1) if k not in matched]
    return r, unmatched
