"""Exact Markov kernels of real sampler calls by exhaustive RNG enumeration, in parallel (fork)."""
import math
import multiprocessing as mp
import traceback

from . import absstate, env
from .enumrng import EnumRNG, RNGMachineryError, enumerate_paths

_TASK = None  # set in the parent before the pool forks


def _worker(arg):
    try:
        return _TASK(arg)
    except RNGMachineryError:
        return {"machinery": traceback.format_exc()}
    except Exception:
        return {"machinery": traceback.format_exc()}


def parallel_map(task, args, nproc=None, chunksize=1):
    """Run task(arg) for each arg in forked workers (task may be a closure; results must be picklable)."""
    global _TASK
    args = list(args)
    if nproc is None:
        nproc = min(env.ncpu(), max(1, len(args)))
    if nproc <= 1 or len(args) <= 1:
        return [task(a) for a in args]
    _TASK = task
    ctx = mp.get_context("fork")
    with ctx.Pool(nproc) as pool:
        out = pool.map(_worker, args, chunksize=chunksize)
    _TASK = None
    for o in out:
        if isinstance(o, dict) and "machinery" in o:
            raise RuntimeError("worker machinery failure:\n" + o["machinery"])
    return out


def exact_row(fn, rng, full_projection=True, max_paths=20_000_000):
    """Exact output law of fn() (returns a Tree) over all RNG outcomes.

    Returns dict(row={key: prob}, paths=n, bad=[(kind, message, script)]).
    """
    row = {}
    bad = []
    n = 0

    def run():
        try:
            t = fn()
        except RNGMachineryError:
            raise
        except Exception as ex:  # a crash of the move on a reachable state
            tb = traceback.extract_tb(ex.__traceback__)
            inpkg = [f for f in tb if "/phyclone/" in f.filename] or list(tb)
            where = "%s:%s" % (inpkg[-1].filename.split("/")[-1], inpkg[-1].name) if inpkg else "?"
            return ("exception", "%s@%s: %s" % (type(ex).__name__, where, ex))
        try:
            k, _ = absstate.project(t, full=full_projection)
        except absstate.Inconsistent as ex:
            return ("malformed", str(ex))
        return ("ok", k)

    for res, p, script in enumerate_paths(run, rng, max_paths=max_paths):
        n += 1
        if res[0] == "ok":
            row[res[1]] = row.get(res[1], 0.0) + p
        else:
            if len(bad) < 5:
                bad.append((res[0], res[1], script, p))
            row[res] = row.get(res, 0.0) + p
    return {"row": row, "paths": n, "bad": bad}


def stationarity(states, logpi, K):
    """max_s' |(pi K)(s') - pi(s')| with pi normalised over `states`; also row-sum and closure diagnostics."""
    m = max(logpi[s] for s in states)
    w = {s: math.exp(logpi[s] - m) for s in states}
    Z = sum(w.values())
    pi = {s: w[s] / Z for s in states}
    flow = {s: 0.0 for s in states}
    escaped = 0.0
    worst_row = 0.0
    for s in states:
        row = K[s]
        tot = 0.0
        for t, p in row.items():
            tot += p
            if t in flow:
                flow[t] += pi[s] * p
            else:
                escaped += pi[s] * p
        worst_row = max(worst_row, abs(tot - 1.0))
    resid = {s: flow[s] - pi[s] for s in states}
    worst = max(states, key=lambda s: abs(resid[s]))
    rel = max(abs(resid[s]) / pi[s] for s in states)
    return {"max_abs": abs(resid[worst]), "max_rel": rel, "worst_state": worst, "pi": pi, "resid": resid,
            "escaped": escaped, "worst_row_sum_err": worst_row}
