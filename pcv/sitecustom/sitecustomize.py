"""Injected into `phyclone run` subprocesses by the C18 check (PYTHONPATH) when PHYCLONE_VERIF=1:
delays the start of selected chains (PCV_CHAIN_DELAYS="0:3.5,1:0") so that worker completion order changes.
Add-only: nothing under /repo is modified; without the guard variable this file does nothing."""
import os

if os.environ.get("PHYCLONE_VERIF") == "1" and os.environ.get("PCV_CHAIN_DELAYS"):
    try:
        import functools
        import time

        import phyclone.run as _prun

        _delays = {}
        for _part in os.environ["PCV_CHAIN_DELAYS"].split(","):
            _k, _v = _part.split(":")
            _delays[int(_k)] = float(_v)
        _orig = _prun.run_phyclone_chain

        @functools.wraps(_orig)
        def run_phyclone_chain(*args, **kwargs):
            chain_num = args[16] if len(args) > 16 else kwargs.get("chain_num", 0)
            d = _delays.get(int(chain_num), 0.0)
            if d > 0:
                time.sleep(d)
            return _orig(*args, **kwargs)

        _prun.run_phyclone_chain = run_phyclone_chain
    except Exception as _ex:  # never break the run
        import sys
        print("pcv sitecustomize: could not install chain delays: %r" % (_ex,), file=sys.stderr)
