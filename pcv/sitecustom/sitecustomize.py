"""Injected into `phyclone run` subprocesses by the C18 check (PYTHONPATH) when PHYCLONE_VERIF=1:
delays the start of selected chains (PCV_CHAIN_DELAYS="0:3.5,1:0") so that worker completion order changes, records
which process executes which chain (PCV_CHAIN_PIDS=<dir>), and delays the start-up of all pool workers but the first
(PCV_WORKER_START_DELAY=<dir>:<seconds>) so that one worker process executes several chains.
Add-only: nothing under /repo is modified; without the guard variable this file does nothing."""
import os

if os.environ.get("PHYCLONE_VERIF") == "1" and (os.environ.get("PCV_CHAIN_DELAYS") or os.environ.get("PCV_CHAIN_PIDS")):
    try:
        import functools
        import time

        import phyclone.run as _prun

        _delays = {}
        for _part in (os.environ.get("PCV_CHAIN_DELAYS") or "").split(","):
            if _part:
                _k, _v = _part.split(":")
                _delays[int(_k)] = float(_v)
        _orig = _prun.run_phyclone_chain

        @functools.wraps(_orig)
        def run_phyclone_chain(*args, **kwargs):
            chain_num = args[16] if len(args) > 16 else kwargs.get("chain_num", 0)
            if os.environ.get("PCV_CHAIN_PIDS"):
                # which process executes which chain (PCV_CHAIN_PIDS=<dir>): one marker file per chain
                try:
                    open(os.path.join(os.environ["PCV_CHAIN_PIDS"], "chain_%d_pid_%d" % (int(chain_num), os.getpid())), "w").close()
                except OSError:
                    pass
            d = _delays.get(int(chain_num), 0.0)
            if d > 0:
                time.sleep(d)
            return _orig(*args, **kwargs)

        _prun.run_phyclone_chain = run_phyclone_chain
    except Exception as _ex:  # never break the run
        import sys
        print("pcv sitecustomize: could not install chain delays: %r" % (_ex,), file=sys.stderr)

# Worker start delays (PCV_WORKER_START_DELAY="<ticket dir>:<seconds>"): every spawned pool worker takes a ticket at
# interpreter start; all but the first sleep before they begin to serve tasks, so that the first worker process executes
# several chains one after the other - a schedule the pool permits whenever a worker is slow to come up.
if os.environ.get("PHYCLONE_VERIF") == "1" and os.environ.get("PCV_WORKER_START_DELAY"):
    try:
        import sys as _sys
        if "--multiprocessing-fork" in _sys.argv:
            import time as _time
            _dir, _secs = os.environ["PCV_WORKER_START_DELAY"].rsplit(":", 1)
            _k = 0
            while True:
                try:
                    os.close(os.open(os.path.join(_dir, "worker_%d" % _k), os.O_CREAT | os.O_EXCL | os.O_WRONLY))
                    break
                except FileExistsError:
                    _k += 1
            if _k > 0:
                _time.sleep(float(_secs))
    except Exception as _ex:  # never break the run
        import sys
        print("pcv sitecustomize: could not install worker start delays: %r" % (_ex,), file=sys.stderr)

# Timing perturbation (PCV_SLOW_CALLS="<module>:<function>:<seconds>:<calls>"): the first <calls> calls of a module-level
# function sleep before running; arguments and results are untouched (what a loaded machine does to a routine).
if os.environ.get("PHYCLONE_VERIF") == "1" and os.environ.get("PCV_SLOW_CALLS"):
    try:
        import functools as _ft
        import importlib as _il
        import time as _t2

        _mod, _fn, _secs2, _calls = os.environ["PCV_SLOW_CALLS"].split(":")
        _m = _il.import_module(_mod)
        if hasattr(_m, _fn):
            _orig_fn = getattr(_m, _fn)
            _left = [int(_calls)]

            @_ft.wraps(_orig_fn)
            def _slow(*a, **k):
                if _left[0] > 0:
                    _left[0] -= 1
                    _t2.sleep(float(_secs2))
                return _orig_fn(*a, **k)

            setattr(_m, _fn, _slow)
    except Exception as _ex:  # never break the run
        import sys
        print("pcv sitecustomize: could not install the timing perturbation: %r" % (_ex,), file=sys.stderr)
