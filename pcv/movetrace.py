"""Validation of recorded sampler steps of real chains against MoveRel.tla (TraceMoves.tla), batches of chains per TLC run."""
import json
import os

from . import absstate, env, tlc


def spec_trace(events):
    """Recorder events -> TraceMoves event list (None if the stream holds a malformed tree: reported elsewhere)."""
    out = []
    start = None
    for e in events:
        if e["ev"] == "sample_tree":
            if "in" not in e or "out" not in e:
                return None
            if start is None:
                start = absstate.to_json(e["in"])
            out.append({"name": "sample_tree", "sampler": e["sampler"], "in": absstate.to_json(e["in"]), "out": absstate.to_json(e["out"])})
        elif e["ev"] == "dp_move":
            if "in" not in e or "out" not in e:
                return None
            if start is None:
                start = absstate.to_json(e["in"])
            out.append({"name": "dp_move", "d": e["d"], "in": absstate.to_json(e["in"]), "out": absstate.to_json(e["out"])})
        elif e["ev"] == "conc_update" and e.get("tree") is not None and start is not None:
            out.append({"name": "conc_update", "tree": absstate.to_json(e["tree"])})
        elif e["ev"] == "append" and "tree" in e and start is not None:
            out.append({"name": "append", "tree": absstate.to_json(e["tree"])})
    if start is None:
        return None
    return {"start": start, "events": out}


def validate(job, traces, outlier_on, workers=None, timeout=3000):
    """Returns (TLCResult, {tid (1-based): (event index, clause)} for rejected traces, [tids neither matched nor rejected])."""
    d = env.scratch(os.path.join("tlc", job))
    path = os.path.join(d, "traces.json")
    with open(path, "w") as fh:
        json.dump(traces, fh)
    cfg = tlc.cfg_text(constants={"OutlierOn": tlc.tla_bool(outlier_on), "SkipLoneOutlier": "FALSE"}, init="TraceInit", next_="TraceNext",
                       invariants=["Accepted", "CurIsForest"], check_deadlock=False)
    r = tlc.run_tlc(job, "TraceMoves", cfg, workers=workers, timeout=timeout, environ={"TRACE_FILE": path})
    matched, rejected = set(), {}
    for ln in r.tuple_prints:
        if ln.startswith('<<"MATCHED"'):
            matched.add(int(ln.split(",")[1].strip(" >")))
        elif ln.startswith('<<"REJECT"'):
            parts = [x.strip(' <>"') for x in ln.split(",")]
            rejected[int(parts[1])] = (int(parts[2]), parts[3])
    lost = [k for k in range(1, len(traces) + 1) if k not in matched and k not in rejected]
    return r, rejected, lost


VIOLATION_CLAUSES = {"sampler:output_not_a_forest_over_the_same_data"}


def stats(traces):
    st = {"events": 0, "dp_move": 0, "dp_move_changed": 0, "prg": 0, "prg_changed": 0, "subtree": 0, "subtree_changed": 0, "tree": 0, "max_points": 0}
    for t in traces:
        st["max_points"] = max(st["max_points"], sum(len(c) for c in [t["start"]["o"]]) + len({d for c in t["start"]["f"] for d in c}))
        for e in t["events"]:
            st["events"] += 1
            if e["name"] == "dp_move":
                st["dp_move"] += 1
                st["dp_move_changed"] += e["in"] != e["out"]
            elif e["name"] == "sample_tree" and e["sampler"] in ("prg", "subtree", "tree"):
                st[e["sampler"]] += 1
                if e["sampler"] != "tree":
                    st[e["sampler"] + "_changed"] += e["in"] != e["out"]
    return st


def check_chains(ck, prop_id, job, recorded, corrupt=None):
    """recorded: list of (label, outlier_on, recorder events).  Rejections of the structural clauses are MODEL-DRIFT
    (the listed properties do not fix which trees a move may return); a sampler output that is not a forest over the
    same data is a violation of C07's letter and reported as such by the caller's property id."""
    groups = {True: [], False: []}
    for label, on, events in recorded:
        tr = spec_trace(events)
        if tr is not None:
            groups[bool(on)].append((label, tr))
    if corrupt == "moves" and groups[False]:
        # self-test: one recorded reassignment returns a tree with all clones merged
        label, tr = groups[False][0]
        for e in tr["events"]:
            if e["name"] == "dp_move" and len(e["out"]["f"]) >= 2:
                e["out"] = {"f": [sorted({d for c in e["out"]["f"] for d in c})], "o": e["out"]["o"]}      # all clones merged into one
                break
    total = {"events": 0}
    rejected_all = []
    for on, items in groups.items():
        if not items:
            continue
        trs = [t for _, t in items]
        r, rej, lost = validate("%s_%s" % (job, "on" if on else "off"), trs, on)
        ck.add_tlc("TraceMoves.tla: %d recorded chains (outlier modelling %s) against MoveRel" % (len(trs), "on" if on else "off"), r)
        if lost:
            raise tlc.TLCError("TraceMoves: traces neither matched nor rejected: %s (%s)" % (lost, r.summary()))
        for k, v in stats(trs).items():
            total[k] = max(total.get(k, 0), v) if k == "max_points" else total.get(k, 0) + v
        for tid, (l, clause) in sorted(rej.items()):
            label = items[tid - 1][0]
            ev = trs[tid - 1]["events"][l - 1]
            rejected_all.append((label, l, clause))
            if clause in VIOLATION_CLAUSES:
                ck.violation("%s|chain|%s" % (prop_id, clause.replace(":", "|")), "event %d of chain %s: %s (%s)" % (l, label, clause, json.dumps(ev)[:300]), {"chain": label, "event": ev})
            else:
                ck.model_drift("recorded step %d of chain %s is not a step of MoveRel.tla: %s (%s)" % (l, label, clause, json.dumps(ev)[:240]))
        ck.traces_validated += len(trs)
        ck.evaluations += sum(len(t["events"]) for t in trs)
    ck.extra["trace_moves"] = dict(total, rejected=len(rejected_all))
    return rejected_all
