"""Evidence files, replay files, known-findings matching, verdict printing."""
import hashlib
import json
import os
import sys
import time

from . import env

KNOWN_FINDINGS = os.path.join(env.VERIF, "known_findings.json")


def _jsonable(x):
    try:
        import numpy as np
    except Exception:  # pragma: no cover
        np = None
    if isinstance(x, dict):
        return {str(k): _jsonable(v) for k, v in x.items()}
    if isinstance(x, (list, tuple)):
        return [_jsonable(v) for v in x]
    if isinstance(x, (set, frozenset)):
        return sorted((_jsonable(v) for v in x), key=lambda v: json.dumps(v, sort_keys=True))
    if np is not None:
        if isinstance(x, np.generic):
            return x.item()
        if isinstance(x, np.ndarray):
            return x.tolist()
    if isinstance(x, float):
        if x != x:
            return "nan"
        if x in (float("inf"), float("-inf")):
            return "inf" if x > 0 else "-inf"
    if isinstance(x, (str, int, float, bool)) or x is None:
        return x
    return repr(x)


def load_known():
    if not os.path.exists(KNOWN_FINDINGS):
        return []
    with open(KNOWN_FINDINGS) as fh:
        return json.load(fh).get("findings", [])


class MachineryError(RuntimeError):
    pass


class Check:
    """Accumulates coverage and violations of one run of one property's check."""

    def __init__(self, pid, level="model_checking", tier=None):
        self.pid = pid
        self.level = level
        self.tier = tier or env.tier()
        self.seed = env.seed()
        self.t0 = time.time()
        self.states = 0
        self.transitions = 0
        self.traces_validated = 0
        self.evaluations = 0
        self._nontrivial = set()
        self.rule = ""
        self.samples = []
        self.assumptions = []
        self.notes = []
        self.extra = {}
        self.violations = []  # dicts: signature, message, replay
        self.drift = []
        self.tlc_runs = []
        self.exhaustive = None

    # ---- coverage
    def add_tlc(self, name, res, must_fail=False):
        """Record a TLC run. Must-pass runs add to states/transitions."""
        rec = {"name": name, "must_fail": must_fail}
        rec.update(res.summary())
        if res.coverage:
            rec["coverage"] = {k: list(v) for k, v in res.coverage.items()}
        self.tlc_runs.append(rec)
        if not must_fail:
            self.states += res.distinct
            self.transitions += res.generated

    def nontrivial(self, key):
        self._nontrivial.add(key if isinstance(key, (str, int, tuple)) else json.dumps(_jsonable(key), sort_keys=True))

    def sample(self, s, cap=6):
        if len(self.samples) < cap:
            self.samples.append(_jsonable(s))

    def note(self, s):
        self.notes.append(s)
        print("NOTE:", s)
        sys.stdout.flush()

    # ---- verdicts
    def violation(self, signature, message, replay=None):
        self.violations.append({"signature": signature, "message": message, "replay": replay})

    def model_drift(self, message):
        self.drift.append(message)
        print("MODEL-DRIFT property=%s %s" % (self.pid, message))

    def write_replay(self, v):
        d = os.path.join(env.REPLAY_DIR, self.pid)
        os.makedirs(d, exist_ok=True)
        body = {
            "property": self.pid,
            "tier": self.tier,
            "seed": self.seed,
            "signature": v["signature"],
            "message": v["message"],
            "replay": _jsonable(v["replay"]),
        }
        h = hashlib.sha1(json.dumps(body, sort_keys=True).encode()).hexdigest()[:12]
        p = os.path.join(d, h + ".json")
        with open(p, "w") as fh:
            json.dump(body, fh, indent=1, sort_keys=True)
        return p

    def finish(self):
        known = [k for k in load_known() if k.get("property") == self.pid and k.get("status") == "open"]
        by_sig = {}
        for v in self.violations:
            by_sig.setdefault(v["signature"], []).append(v)
        new = []
        known_hit = []
        for sig, vs in by_sig.items():
            k = next((k for k in known if k["signature"] == sig), None)
            if k is not None and k.get("fingerprints"):
                # the finding is "the same" only while the failing behaviour on the canonical instances is unchanged
                fps = k["fingerprints"]
                changed = [v for v in vs if (v["replay"] or {}).get("fingerprint_label") in fps
                           and fps[(v["replay"] or {}).get("fingerprint_label")] != (v["replay"] or {}).get("fingerprint")]
                seen_labels = {(v["replay"] or {}).get("fingerprint_label") for v in vs}
                if changed:
                    new.append((sig + "|behaviour-changed", changed))
                    vs = [v for v in vs if v not in changed]
                    if not vs:
                        continue
            if k is not None:
                known_hit.append((k, vs))
            else:
                new.append((sig, vs))
        for k, vs in known_hit:
            print("KNOWN-FINDING: property=%s %s [%s; %d occurrence(s) this run]" % (self.pid, k["what"], k["signature"], len(vs)))
        for k in known:
            if not any(k is kk for kk, _ in known_hit):
                self.notes.append("listed open finding not observed in this run/tier: " + k["signature"])
        nviol = 0
        for sig, vs in new[:25]:
            p = self.write_replay(vs[0])
            print("VIOLATION property=%s replay=%s  (%s; %d occurrence(s)) %s" % (self.pid, p, sig, len(vs), vs[0]["message"]))
            nviol += 1
        self.write_evidence(nviol, [k["signature"] for k, _ in known_hit])
        sys.stdout.flush()
        if nviol:
            return 1
        print("OK property=%s tier=%s states=%d transitions=%d traces_validated=%d evaluations=%d nontrivial=%d wall=%.1fs" % (
            self.pid, self.tier, self.states, self.transitions, self.traces_validated, self.evaluations,
            len(self._nontrivial), time.time() - self.t0))
        return 0

    def write_evidence(self, nviol, known_sigs):
        os.makedirs(env.EVIDENCE_DIR, exist_ok=True)
        cov = {
            "evaluations": int(self.evaluations),
            "distinct_nontrivial": len(self._nontrivial),
            "rule": self.rule,
            "samples": self.samples or ["(no sample recorded)"],
            "states": int(self.states),
            "transitions": int(self.transitions),
            "traces_validated_against_impl": int(self.traces_validated),
            "tlc_runs": self.tlc_runs,
            "notes": self.notes,
            "model_drift": self.drift,
            "known_findings_observed": known_sigs,
        }
        if self.exhaustive is not None:
            cov["exhaustive"] = bool(self.exhaustive)
        cov.update(_jsonable(self.extra))
        ev = {
            "property_id": self.pid,
            "tier": self.tier,
            "seed": int(self.seed),
            "level": self.level,
            "coverage": cov,
            "assumptions": self.assumptions,
            "wall_s": round(time.time() - self.t0, 2),
            "violations": int(nviol),
        }
        p = os.path.join(env.EVIDENCE_DIR, self.pid + ".json")
        with open(p, "w") as fh:
            json.dump(ev, fh, indent=1, sort_keys=True)
        return p
