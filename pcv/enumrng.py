"""Enumerating / scripted stand-in for numpy.random.Generator.

Covers exactly the RNG surface phyclone uses: random() (only through `u < x` comparisons),
multinomial, choice, integers, shuffle.  Every call is a decision point with a finite outcome
list; `enumerate_paths` explores all outcome scripts depth-first by re-execution and yields
(result, probability, script).  No assumption is made on the order or number of draws.

Fidelity rules: numpy's argument validation is mirrored (so the stand-in can neither hide nor
invent a crash), zero-probability outcomes are never enumerated, numpy scalar/array types are
returned where numpy returns them, and any use of the lazy uniform other than an order
comparison raises MachineryError.
"""
import itertools
import math

import numpy as np


class RNGMachineryError(RuntimeError):
    pass


class PrefixReached(Exception):
    def __init__(self, prefix):
        self.prefix = prefix


class _UBase:
    """One Uniform(0,1) variate, known only to lie in (lo, hi); narrowed by the comparisons made on it."""

    __slots__ = ("rng", "lo", "hi")

    def __init__(self, rng):
        self.rng = rng
        self.lo = 0.0
        self.hi = 1.0

    def below(self, thr):
        """Decide the event U < thr (consistently with earlier decisions)."""
        if thr <= self.lo:
            return False
        if thr >= self.hi:
            return True
        p = (thr - self.lo) / (self.hi - self.lo)
        b = self.rng._decide("u<", [p, 1.0 - p])
        if b == 0:
            self.hi = thr
            return True
        self.lo = thr
        return False


class LazyU:
    """a*U + b for a lazily resolved Uniform(0,1) variate U: supports order comparisons with numbers and affine
    arithmetic with numbers (so `(i + rng.random()) / n` works); anything else raises RNGMachineryError."""

    __slots__ = ("base", "a", "b")

    def __init__(self, rng, base=None, a=1.0, b=0.0):
        self.base = base if base is not None else _UBase(rng)
        self.a = float(a)
        self.b = float(b)

    def _num(self, x):
        if isinstance(x, LazyU):
            raise RNGMachineryError("arithmetic / comparison between two lazy uniforms is not supported")
        return float(x)

    def _lt(self, x):
        x = self._num(x)
        if self.a == 0.0:
            return self.b < x
        thr = (x - self.b) / self.a
        if self.a > 0:
            return self.base.below(thr)          # a U + b < x  <=>  U < thr
        return not self.base.below(thr)          # a U + b < x  <=>  U > thr   (ties have probability zero)

    def __lt__(self, x):
        return self._lt(x)

    def __le__(self, x):
        return self._lt(x)

    def __gt__(self, x):
        return not self._lt(x)

    def __ge__(self, x):
        return not self._lt(x)

    def __add__(self, c):
        return LazyU(None, self.base, self.a, self.b + self._num(c))

    __radd__ = __add__

    def __sub__(self, c):
        return LazyU(None, self.base, self.a, self.b - self._num(c))

    def __rsub__(self, c):
        return LazyU(None, self.base, -self.a, self._num(c) - self.b)

    def __mul__(self, c):
        c = self._num(c)
        return LazyU(None, self.base, self.a * c, self.b * c)

    __rmul__ = __mul__

    def __truediv__(self, c):
        c = self._num(c)
        return LazyU(None, self.base, self.a / c, self.b / c)

    def __neg__(self):
        return LazyU(None, self.base, -self.a, -self.b)

    def _bad(self, *a, **k):
        raise RNGMachineryError("lazy uniform used outside order comparisons / affine arithmetic")

    __float__ = __rtruediv__ = __bool__ = __int__ = __index__ = __pow__ = __rpow__ = _bad
    __array__ = _bad

    def __eq__(self, other):
        self._bad()

    def __hash__(self):
        return id(self)


class EnumRNG:
    """Duck-typed numpy Generator whose outcomes come from a script (list of outcome indices)."""

    def __init__(self):
        self.script = []
        self.pos = 0
        self.trace = []  # (kind, chosen index, probs)
        self.logp = 0.0
        self.stop_at = None

    def reset(self, script, stop_at=None):
        self.script = list(script)
        self.pos = 0
        self.trace = []
        self.logp = 0.0
        self.stop_at = stop_at

    # ------------------------------------------------------------------ core
    def _decide(self, kind, probs):
        probs = [float(p) for p in probs]
        if self.stop_at is not None and self.pos >= self.stop_at:
            raise PrefixReached([t[1] for t in self.trace])
        if self.pos < len(self.script):
            c = self.script[self.pos]
            if not (0 <= c < len(probs)) or probs[c] <= 0.0:
                raise RNGMachineryError("script outcome %r impossible at decision %d (%s, %r)" % (c, self.pos, kind, probs))
        else:
            c = 0
            while c < len(probs) and probs[c] <= 0.0:
                c += 1
            if c >= len(probs):
                raise RNGMachineryError("no possible outcome: %s %r" % (kind, probs))
        self.trace.append((kind, c, probs))
        self.pos += 1
        self.logp += math.log(probs[c])
        return c

    # ------------------------------------------------------------------ numpy Generator subset
    def random(self, size=None):
        if size is not None:
            raise RNGMachineryError("random(size) not supported")
        return LazyU(self)

    def multinomial(self, n, pvals, size=None):
        if size is not None:
            raise RNGMachineryError("multinomial(size) not supported")
        pvals = np.asarray(pvals, dtype=float)
        if pvals.ndim != 1 or len(pvals) == 0:
            raise ValueError("pvals must be a 1-d sequence")
        if np.any(np.isnan(pvals)) or np.any(pvals < 0) or np.any(pvals > 1):
            raise ValueError("pvals < 0, pvals > 1 or pvals contains NaNs")
        head = float(np.sum(pvals[:-1]))
        if head > 1.0 + 1e-12:
            raise ValueError("sum(pvals[:-1]) > 1.0")
        # numpy treats the last category as the remainder
        eff = list(pvals[:-1]) + [max(0.0, 1.0 - head)]
        k = len(eff)
        n = int(n)
        if n < 0:
            raise ValueError("n < 0")
        if n == 0:
            return np.zeros(k, dtype=np.int64)
        if n == 1:
            c = self._decide("mult1", eff)
            out = np.zeros(k, dtype=np.int64)
            out[c] = 1
            return out
        outs = [v for v in itertools.product(range(n + 1), repeat=k) if sum(v) == n]
        probs = []
        for v in outs:
            coef = math.factorial(n)
            p = 1.0
            for vi, pi in zip(v, eff):
                coef //= math.factorial(vi)
                p *= pi ** vi if vi else 1.0
            probs.append(coef * p)
        c = self._decide("multN", probs)
        return np.array(outs[c], dtype=np.int64)

    def shuffle(self, x, axis=0):
        n = len(x)
        if n <= 1:
            return
        perms = list(itertools.permutations(range(n)))
        c = self._decide("shuffle", [1.0 / len(perms)] * len(perms))
        items = list(x)
        for i, j in enumerate(perms[c]):
            x[i] = items[j]

    def integers(self, low, high=None, size=None, dtype=np.int64, endpoint=False):
        if high is None:
            low, high = 0, low
        low = int(low)
        high = int(high)
        if endpoint:
            high += 1
        n = high - low
        if n <= 0:
            raise ValueError("low >= high")
        if size is not None:
            shape = (int(size),) if isinstance(size, (int, np.integer)) else tuple(int(x) for x in size)
            cnt = int(np.prod(shape)) if shape else 1
            vals = [low + self._decide("int", [1.0 / n] * n) for _ in range(cnt)]
            return np.array(vals, dtype=np.int64).reshape(shape)
        c = self._decide("int", [1.0 / n] * n)
        return np.int64(low + c)

    def permutation(self, x, axis=0):
        arr = np.arange(int(x)) if isinstance(x, (int, np.integer)) else np.array(x)
        items = list(arr)
        self.shuffle(items)
        return np.array(items)

    def choice(self, a, size=None, replace=True, p=None, axis=0, shuffle=True):
        if p is not None:
            raise RNGMachineryError("choice(p=) not supported")
        if isinstance(a, (int, np.integer)):
            arr = np.arange(int(a))
        else:
            arr = np.asarray(a)
        n = len(arr)
        if size is None:
            if n == 0:
                raise ValueError("a cannot be empty unless no samples are taken")
            c = self._decide("choice", [1.0 / n] * n)
            return arr[c]
        size = int(size)
        if size == 0:
            return arr[:0].copy()
        if n == 0:
            raise ValueError("a cannot be empty unless no samples are taken")
        if replace:
            # with replacement: size independent uniform picks
            return arr[[self._decide("choice", [1.0 / n] * n) for _ in range(size)]]
        if size > n:
            raise ValueError("Cannot take a larger sample than population when replace is False")
        # the order of the returned sample is irrelevant to every caller in phyclone (used as a set of
        # children); outcomes = k-subsets, uniform
        combs = list(itertools.combinations(range(n), size))
        c = self._decide("subset", [1.0 / len(combs)] * len(combs))
        return arr[list(combs[c])]

    # things that must never be reached silently
    def __getattr__(self, name):
        raise RNGMachineryError("EnumRNG: unsupported Generator attribute %r" % name)


def _next_script(tr):
    i = len(tr) - 1
    while i >= 0:
        kind, c, probs = tr[i]
        c2 = c + 1
        while c2 < len(probs) and probs[c2] <= 0.0:
            c2 += 1
        if c2 < len(probs):
            return [t[1] for t in tr[:i]] + [c2], i
        i -= 1
    return None, -1


def enumerate_paths(fn, rng, prefix=(), max_paths=50_000_000):
    """Yield (result, prob, script) over all outcome scripts that extend `prefix`.

    `fn()` must build everything it needs afresh and draw only from `rng`.
    """
    script = list(prefix)
    npre = len(script)
    n = 0
    while True:
        rng.reset(script)
        res = fn()
        tr = rng.trace
        if len(tr) < npre:
            raise RNGMachineryError("execution consumed fewer decisions than the prefix")
        yield res, math.exp(rng.logp), [t[1] for t in tr]
        n += 1
        if n >= max_paths:
            raise RNGMachineryError("too many paths")
        script, i = _next_script(tr)
        if script is None or i < npre:
            return


def enumerate_prefixes(fn, rng, depth):
    """All decision prefixes of length `depth` (or complete shorter scripts), with their probability.

    Returns list of (prefix, prob, complete_result_or_None).
    """
    out = []
    script = []
    while True:
        rng.reset(script, stop_at=depth)
        try:
            res = fn()
            complete = True
        except PrefixReached:
            res = None
            complete = False
        tr = rng.trace
        out.append(([t[1] for t in tr], math.exp(rng.logp), complete, res))
        script, i = _next_script(tr)
        if script is None:
            return out
