"""TLC-computed exact integer oracle for tree likelihood arrays (spec/GridOracle.tla)."""
import math

import numpy as np

from . import tlc, absstate


def tla_tab(tab):
    """tab[d][i][k] ints -> TLA+ tuple text."""
    return "<<" + ", ".join("<<" + ", ".join("<<" + ", ".join(str(int(x)) for x in row) + ">>" for row in dp) + ">>" for dp in tab) + ">>"


def int_tables(n, dims, grid, seed, lo=1, hi=5, dup=()):
    rs = np.random.RandomState(4242 + seed)
    tab = rs.randint(lo, hi + 1, size=(n, dims, grid))
    for a, b in dup:
        tab[b] = tab[a]
    return tab


def data_from_tables(tab, outlier_prob=0.0, sizes=None, names=None):
    from phyclone.data.base import DataPoint

    data = []
    for i in range(tab.shape[0]):
        val = np.ascontiguousarray(np.log(tab[i].astype(float)))
        if outlier_prob:
            size = 1 if sizes is None else sizes[i]
            op, opn = math.log(outlier_prob) * size, math.log1p(-outlier_prob) * size
        else:
            op, opn = 0, 0.0
        data.append(DataPoint(i, val, name=(None if names is None else names[i]), outlier_prob=op, outlier_prob_not=opn))
    return data


def run_oracle(job, tab, lltab=None, outl=True, check_def=True, workers=None, timeout=3000):
    n, dims, grid = tab.shape
    if lltab is None:
        lltab = tab
    mc = "---- MODULE MC_GridOracle ----\nEXTENDS GridOracle\nLDef == %s\nLLDef == %s\n====\n" % (tla_tab(tab), tla_tab(lltab))
    cfg = tlc.cfg_text(constants={"N": n, "G": grid, "D": dims, "OutliersOn": tlc.tla_bool(outl), "L": "<- LDef", "LL": "<- LLDef",
                                  "CheckDef": tlc.tla_bool(check_def), "Dump": "TRUE"},
                       invariants=["RecursionIsDefinition", "MaxProductIsOptimal", "TracebackIsOptimal", "Emit"])
    r = tlc.run_tlc(job, "MC_GridOracle", cfg, mc_text=mc, workers=workers, timeout=timeout)
    tlc.require_ok(r, "GridOracle")
    table = {}
    for rec in r.json_prints:
        key = absstate.canon(rec["st"])
        table[key] = {"Z": rec["Z"], "R": {frozenset(x["c"]): x["r"] for x in rec["R"]}, "best": rec["best"]}
    if len(table) != r.distinct:
        raise tlc.TLCError("oracle records %d != distinct states %d" % (len(table), r.distinct))
    return table, r


def compare_tree(tree, oracle, grid, tol=1e-9):
    """Compare the cached arrays of a real tree with the exact integer oracle. Returns None or message."""
    key, conc = absstate.project(tree, full=False)
    if key not in oracle:
        return None
    o = oracle[key]
    logG = math.log(grid)
    size = {}
    for n in conc["names"]:
        c = conc["clade"][n]
        size[c] = sum(1 for m in conc["names"] if conc["clade"][m] <= c)
    for n in conc["names"]:
        c = conc["clade"][n]
        nd = tree._graph[tree._node_indices[n]]
        want = np.log(np.array(o["R"][c], dtype=float)) - size[c] * logG
        if nd.log_r.shape != want.shape or not np.all(np.isfinite(nd.log_r)):
            return "clone %s: log_r wrong shape / not finite" % sorted(c)
        dev = float(np.max(np.abs(nd.log_r - want)))
        if dev > tol:
            return "clone %s: log_r differs from the exact grid marginal by %.3g" % (sorted(c), dev)
    if conc["names"]:
        want = np.log(np.array(o["Z"], dtype=float)) - (len(conc["names"]) + 1) * logG
        got = tree.data_log_likelihood
        if got.shape != want.shape or not np.all(np.isfinite(got)):
            return "data_log_likelihood wrong shape / not finite"
        dev = float(np.max(np.abs(got - want)))
        if dev > tol:
            return "data_log_likelihood differs from the exact grid marginal by %.3g" % dev
    return None
