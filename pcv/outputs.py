"""Parsing of the files the summary commands write (results table TSV, Newick tree, topology report, archive)
back into abstract forests, plus helpers to materialise TLC traces as real gzip-pickle trace files."""
import gzip
import io
import os
import pickle
import tarfile

import numpy as np

from . import absstate


class OutputError(Exception):
    pass


def parse_newick(s):
    """phyclone's Newick: '(child,...)label' nested, root labelled 'root', terminated by ';'.
    Returns parent map {label: parent_label} (labels as strings)."""
    s = s.strip()
    if not s.endswith(";"):
        raise OutputError("Newick string does not end with ';': %r" % s[:80])
    s = s[:-1]
    pos = [0]
    par = {}

    def node():
        kids = []
        if pos[0] < len(s) and s[pos[0]] == "(":
            pos[0] += 1
            while True:
                kids.append(node())
                if pos[0] >= len(s):
                    raise OutputError("unbalanced Newick")
                if s[pos[0]] == ",":
                    pos[0] += 1
                    continue
                if s[pos[0]] == ")":
                    pos[0] += 1
                    break
                raise OutputError("unexpected %r in Newick" % s[pos[0]])
        j = pos[0]
        while j < len(s) and s[j] not in ",()":
            j += 1
        label = s[pos[0]:j]
        pos[0] = j
        if label == "":
            raise OutputError("empty node label in Newick")
        if label in par or label in kids:
            raise OutputError("duplicate label %r in Newick" % label)
        for k in kids:
            if k in par:
                raise OutputError("node %r has two parents" % k)
            par[k] = label
        return label

    root = node()
    if pos[0] != len(s):
        raise OutputError("trailing text in Newick")
    if root != "root":
        raise OutputError("Newick root is %r" % root)
    return par


def read_table(path):
    import pandas as pd
    return pd.read_csv(path, sep="\t", dtype={"mutation_id": str, "sample_id": str})


def tree_from_outputs(table, newick, name_to_idx, cluster_members=None):
    """Abstract key + checks from a results table and Newick string.

    name_to_idx: mutation name -> data index (for clustered input: mutation name -> cluster's data index).
    Returns (key, clone_of_mut, problems)."""
    problems = []
    par = parse_newick(newick)
    labels = set(par) | {"root"}
    clone_of = {}
    for mut, grp in table.groupby("mutation_id"):
        cl = set(grp["clone_id"].tolist())
        if len(cl) != 1:
            problems.append("mutation %s is assigned to several clones %s" % (mut, sorted(cl)))
        clone_of[mut] = int(sorted(cl)[0])
    own = {}
    outl = set()
    for mut, c in clone_of.items():
        if mut not in name_to_idx:
            problems.append("unknown mutation %s in the table" % mut)
            continue
        if c == -1:
            outl.add(name_to_idx[mut])
        else:
            if str(c) not in labels:
                problems.append("clone id %s of mutation %s is not a node of the Newick tree" % (c, mut))
            own.setdefault(str(c), set()).add(name_to_idx[mut])
    kids = {}
    for k, p in par.items():
        kids.setdefault(p, []).append(k)
    clades = set()

    def rec(n):
        s = set(own.get(n, ()))
        for k in kids.get(n, []):
            s |= rec(k)
        if n != "root":
            clades.add(frozenset(s))
        return s

    rec("root")
    return (frozenset(clades), frozenset(outl)), clone_of, problems, par


# ------------------------------------------------------------------------------------------------ trace files
def concrete_dict(key, data, variant=0):
    """A real tree dict for the abstract state, through different construction histories (relabelled copies etc.)."""
    from phyclone.tree import Tree

    t = absstate.build(key, data)
    if variant % 2 == 1 and len(key[1]) > 1:
        # the same tree with its outliers stored in another order
        outl = list(t.outliers)
        for dp in outl:
            t.remove_data_point_from_outliers(dp)
        for dp in reversed(outl):
            t.add_data_point_to_outliers(dp)
    if variant % 3 == 1:
        t.relabel_nodes()
    elif variant % 3 == 2:
        t = Tree.from_dict(t.to_dict())
        t.relabel_nodes()
    return t.to_dict()


def write_trace_file(path, chains, data, samples, clusters=None, cluster_file=None, thin=1):
    """chains: list of (chain_num, [ (key, log_p_one, variant) ... ]) in completion (dict insertion) order.
    Written by the writer under test, create_main_run_output (with the cluster file when the input was clustered)."""
    from phyclone.process_trace import create_main_run_output

    results = {}
    for num, entries in chains:
        trace = []
        for j, (key, lp, variant) in enumerate(entries):
            # iteration numbers as a real run records them: the post-burn-in state and iteration 0 both carry iter 0
            # (with thinning the recorded iterations are 0, 0, thin, 2*thin, ...)
            trace.append({"iter": max(0, j - 1) * thin, "time": 0.0, "alpha": 1.0, "log_p_one": lp, "tree": concrete_dict(key, data, variant)})
        results[num] = {"data": data, "samples": samples, "trace": trace, "chain_num": num}
    if clusters is not None and cluster_file is None:
        cluster_file = path + ".clusters.tsv"
        clusters.to_csv(cluster_file, sep="\t", index=False)
    create_main_run_output(cluster_file, path, results)
    return results


def read_archive(path):
    """{topology_id: (table DataFrame, newick string)}"""
    import pandas as pd
    out = {}
    with tarfile.open(path, "r:gz") as tf:
        for m in tf.getmembers():
            if not m.isfile():
                continue
            tid = m.name.split("/")[0]
            body = tf.extractfile(m).read()
            ent = out.setdefault(tid, [None, None])
            if m.name.endswith(".tsv"):
                ent[0] = pd.read_csv(io.BytesIO(body), sep="\t", dtype={"mutation_id": str, "sample_id": str})
            elif m.name.endswith(".nwk"):
                ent[1] = body.decode().strip()
    return out
