------------------------------ MODULE Forests ------------------------------
(***************************************************************************)
(* Canonical (abstract) clone forests.                                     *)
(*                                                                         *)
(* A state is a record [f |-> F, o |-> O] where F is a set of clades (each *)
(* clade = the set of data points in a clone's whole subtree) and O is the *)
(* set of outlier data points.  This is exactly the identity PhyClone uses *)
(* for trees (Tree.__eq__/__hash__ = (get_clades(), frozenset(outliers))). *)
(* Data points are natural numbers (0-based, like DataPoint.idx).          *)
(* The module is constant-free: operators take what they need as arguments *)
(* so every other specification can EXTEND it.                             *)
(***************************************************************************)
EXTENDS Naturals, FiniteSets, Sequences, FiniteSetsExt, Folds, TLC

\* ---------------------------------------------------------------- structure
Sub(F, c)      == {x \in F : x \subseteq c /\ x # c}                 \* proper sub-clades
Own(F, c)      == c \ UNION Sub(F, c)                                \* data sitting on the clone itself
Roots(F)       == {c \in F : \A d \in F : ~(c \subseteq d /\ c # d)} \* top-level clones
KidsOf(F, c)   == Roots(Sub(F, c))                                   \* child clones of c
Supers(F, c)   == {x \in F : c \subseteq x /\ x # c}
HasParent(F, c) == Supers(F, c) # {}
ParentOf(F, c) == CHOOSE p \in Supers(F, c) : \A q \in Supers(F, c) : p \subseteq q
Laminar(F)     == \A x \in F, y \in F : x \subseteq y \/ y \subseteq x \/ x \cap y = {}
Empty          == [f |-> {}, o |-> {}]
DataOf(st)     == UNION st.f \cup st.o
NodeOf(F, d)   == CHOOSE c \in F : d \in Own(F, c)

\* A state the samplers can hold: laminar, every clone owns >= 1 data point, outliers disjoint.
IsForest(st) == /\ Laminar(st.f)
                /\ \A c \in st.f : Own(st.f, c) # {}
                /\ st.o \cap UNION st.f = {}
\* Consensus trees may contain clones that own nothing
IsWeakForest(st) == /\ Laminar(st.f) /\ {} \notin st.f /\ st.o \cap UNION st.f = {}

\* ---------------------------------------------------------------- SMC placement of the next data point
PlaceRoot(st, d) == {[f |-> (st.f \ {r}) \cup {r \cup {d}}, o |-> st.o] : r \in Roots(st.f)}
PlaceNew(st, d)  == {[f |-> st.f \cup {{d} \cup UNION S}, o |-> st.o] : S \in SUBSET Roots(st.f)}
PlaceOut(st, d, outl) == IF outl THEN {[f |-> st.f, o |-> st.o \cup {d}]} ELSE {}
Place(st, d, outl) == PlaceRoot(st, d) \cup PlaceNew(st, d) \cup PlaceOut(st, d, outl)

\* ---------------------------------------------------------------- enumeration of all states over a data set
AddTo(F, b, d)  == {IF b \subseteq c THEN c \cup {d} ELSE c : c \in F}    \* d joins clone b (and all ancestors)
\* new clone owning only d, below parent p (p = {} means top level), adopting a subset S of p's children
NewBelow(F, p, d) == LET K == IF p = {} THEN Roots(F) ELSE KidsOf(F, p)
                         G == IF p = {} THEN F ELSE AddTo(F, p, d)
                     IN {G \cup {{d} \cup UNION S} : S \in SUBSET K}
InsertAny(st, d, outl) ==
     {[f |-> AddTo(st.f, b, d), o |-> st.o] : b \in st.f}
  \cup {[f |-> G, o |-> st.o] : G \in UNION {NewBelow(st.f, p, d) : p \in st.f \cup {{}}}}
  \cup (IF outl THEN {[f |-> st.f, o |-> st.o \cup {d}]} ELSE {})
RECURSIVE AllOn(_, _)
AllOn(S, outl) == IF S = {} THEN {Empty}
                  ELSE LET d == Max(S) IN UNION {InsertAny(st, d, outl) : st \in AllOn(S \ {d}, outl)}
\* every state on every subset of D (the partial states an SMC pass visits)
AllPartial(D, outl) == UNION {AllOn(S, outl) : S \in SUBSET D}

\* ---------------------------------------------------------------- restriction (retained path of conditional SMC)
RestrictTo(st, S) == [f |-> {c \cap S : c \in {c \in st.f : Own(st.f, c) \cap S # {}}}, o |-> st.o \cap S]

\* ---------------------------------------------------------------- permutations / orders
PermsOf(S) == {p \in [1..Cardinality(S) -> S] : \A i, j \in 1..Cardinality(S) : i # j => p[i] # p[j]}
Pos(p, d)  == CHOOSE i \in DOMAIN p : p[i] = d
\* an order is compatible with a forest iff every data point of a clone comes after all data of its descendants
Compat(p, st) == \A c \in st.f : \A d \in Own(st.f, c) : \A e \in c \ Own(st.f, c) : Pos(p, e) < Pos(p, d)
Orders(st) == {p \in PermsOf(DataOf(st)) : Compat(p, st)}

\* ---------------------------------------------------------------- shape features
NumClones(st)     == Cardinality(st.f)
Fact(n)           == FoldSet(LAMBDA i, acc : i * acc, 1, 1..n)
Binom(n, k)       == Fact(n) \div (Fact(k) * Fact(n - k))
SubtreeClones(F, c) == Cardinality(Sub(F, c)) + 1
=============================================================================
