--------------------------- MODULE SummariesCons4 ---------------------------
(* Model-level search over all triples of forests on N data points (counts mode, threshold 1/2): the majority     *)
(* family is laminar, and the implementation-shaped node identity (own mutations, plus the clade when KeepClade)  *)
(* never collapses two retained clades.  Three variables instead of a set of sequences: 243^3 initial states.     *)
EXTENDS Forests
CONSTANTS N, KeepClade
Data == 0..(N - 1)
U == AllOn(Data, FALSE)
VARIABLES t1, t2, t3
Init == t1 \in U /\ t2 \in U /\ t3 \in U
Next == UNCHANGED <<t1, t2, t3>>
Cons == (t1.f \cap t2.f) \cup (t1.f \cap t3.f) \cup (t2.f \cap t3.f)
LaminarInv == Laminar(Cons)
ImplNodes(F) == IF KeepClade THEN {<<Own(F, c), c>> : c \in F} ELSE {<<Own(F, c), {}>> : c \in F}
NoCollision == Cardinality(ImplNodes(Cons)) = Cardinality(Cons)
=============================================================================
