---------------------------- MODULE ProposalDefs ----------------------------
(***************************************************************************)
(* The three SMC proposal distributions (phyclone/smc/kernels/*.py) and    *)
(* the incremental importance weight (Kernel.create_particle,              *)
(* AbstractSMCSampler._get_log_w), over integer density tables Wm / W1.    *)
(*                                                                         *)
(* For a parent state and next data point each proposal is a set of        *)
(* entries [x |-> child state, s |-> probability that sample() returns x   *)
(* (derived from the draw procedure), q |-> probability log_p() reports],  *)
(* all exact rationals.  The state machine places one data point per step  *)
(* in every possible order and carries the products of weights and of      *)
(* proposal probabilities (in F_P) so that TLC checks the telescoping      *)
(* identity on every path.                                                 *)
(***************************************************************************)
EXTENDS Tables, Rat, Fp, Json, IOUtils

CONSTANTS N, Kernel,             \* "boot" | "semi" | "full"
          OutlierOn,             \* outlier proposal probability 1/10 (TRUE) or 0 (FALSE)
          UsePerm,               \* kernel built with a permutation distribution (library wiring) or without (run wiring)
          CountOutlierOrders,    \* TRUE as specified; FALSE = deviation F2
          BootHalfOnOutlierOnly  \* FALSE as specified; TRUE = deviation F3 (log_p says (1-p)/2 where sample uses (1-p))
Data == 0..(N - 1)

OP  == IF OutlierOn THEN <<1, 10>> ELSE <<0, 1>>
NOP == IF OutlierOn THEN <<9, 10>> ELSE <<1, 1>>
Half == <<1, 2>>

\* number of data orders compatible with a state (definition) and the permutation density 1/Cnt
Cnt(s) == IF CountOutlierOrders THEN Cardinality(Orders(s))
          ELSE Cardinality(Orders(s)) \div Fact(Cardinality(s.o))

SumW(C) == FoldSet(LAMBDA c, acc : Wm(c) + acc, 0, C)
Adapted(C) == {[x |-> c, p |-> Red(Wm(c), SumW(C))] : c \in C}      \* multinomial draw with weights Wm
\* new clone: number of adopted children uniform on 0..r, then a uniform subset of that size
NewUniform(s, d) == LET r == Cardinality(Roots(s.f)) IN
   {[x |-> [f |-> s.f \cup {{d} \cup UNION S}, o |-> s.o], p |-> <<1, (r + 1) * Binom(r, Cardinality(S))>>] : S \in SUBSET Roots(s.f)}

Prop(s, d) ==
  LET r == Cardinality(Roots(s.f)) IN
  CASE Kernel = "full" ->
         {[x |-> e.x, s |-> e.p, q |-> e.p] : e \in Adapted(Place(s, d, OutlierOn))}
    [] Kernel = "semi" ->
         IF r = 0
         THEN {[x |-> e.x, s |-> e.p, q |-> e.p] : e \in Adapted(PlaceNew(s, d) \cup PlaceOut(s, d, OutlierOn))}
         ELSE {[x |-> e.x, s |-> RMul(Half, e.p), q |-> RMul(Half, e.p)] : e \in Adapted(PlaceRoot(s, d) \cup PlaceOut(s, d, OutlierOn))}
              \cup {[x |-> e.x, s |-> RMul(Half, e.p), q |-> RMul(Half, e.p)] : e \in NewUniform(s, d)}
    [] Kernel = "boot" ->
         IF r = 0
         THEN {[x |-> c, s |-> NOP, q |-> IF (s # Empty /\ BootHalfOnOutlierOnly) THEN RMul(NOP, Half) ELSE NOP] : c \in PlaceNew(s, d)}
              \cup {[x |-> c, s |-> OP, q |-> OP] : c \in PlaceOut(s, d, OutlierOn)}
         ELSE {[x |-> c, s |-> RMul(RMul(NOP, Half), <<1, r>>), q |-> RMul(RMul(NOP, Half), <<1, r>>)] : c \in PlaceRoot(s, d)}
              \cup {[x |-> e.x, s |-> RMul(RMul(NOP, Half), e.p), q |-> RMul(RMul(NOP, Half), e.p)] : e \in NewUniform(s, d)}
              \cup {[x |-> c, s |-> OP, q |-> OP] : c \in PlaceOut(s, d, OutlierOn)}

\* incremental weight of child e.x proposed from parent s (Kernel.create_particle), as a rational
IncW(s, e) ==
  LET base == IF s = Empty THEN RInt(Wm(e.x)) ELSE Red(Wm(e.x), Wm(s))
      perm == IF ~UsePerm THEN ROne ELSE IF s = Empty THEN <<1, Cnt(e.x)>> ELSE Red(Cnt(s), Cnt(e.x))
  IN RDiv(RMul(base, perm), e.q)
=============================================================================
