---------------------------- MODULE SummariesCons ----------------------------
(***************************************************************************)
(* The consensus tree of a trace (phyclone/process_trace/consensus.py,     *)
(* process_trace.py: write_consensus_results).                             *)
(*                                                                         *)
(* Definition: the clades whose support strictly exceeds the threshold,    *)
(*   counts mode   support(c) = #{sampled trees containing c} / #trees     *)
(*   weighted mode support(c) = sum of w_t over distinct topologies t      *)
(*                 containing c, w_t = m_t * count_t / sum (m = best score *)
(*                 multiplier among the entries of t)                      *)
(* For thresholds >= 1/2 the retained family is laminar (LaminarInv), so a *)
(* tree with exactly these clades exists; every data point not covered by  *)
(* a retained clade is reported as an outlier (clone id -1).               *)
(*                                                                         *)
(* Implementation-shaped algorithm: nest each retained clade under its     *)
(* smallest strict superset, then identify every node by its OWN mutations *)
(* (clade minus children) - two retained clades that both own nothing then *)
(* collapse into one node (ImplCollides; with KeepClade = TRUE the node     *)
(* identity also carries the clade and nothing collapses).                  *)
(***************************************************************************)
EXTENDS Forests, Rat, Json
CONSTANTS N, OutliersOn, MaxTrees, MaxMult, Weighted, Thetas, KeepClade, Dump
Data == 0..(N - 1)
U == AllOn(Data, OutliersOn)
Samples == UNION {[1..k -> [t : U, m : 1..MaxMult]] : k \in 1..MaxTrees}
VARIABLE smp
Init == smp \in Samples
Next == UNCHANGED smp
Idxs == 1..Len(smp)
AllClades == UNION {smp[j].t.f : j \in Idxs}
\* distinct topologies with count and best multiplier
Topos == {smp[j].t : j \in Idxs}
CountOf(t) == Cardinality({j \in Idxs : smp[j].t = t})
BestOf(t) == Max({smp[j].m : j \in {i \in Idxs : smp[i].t = t}})
SumOver(S, F(_)) == FoldSet(LAMBDA x, acc : F(x) + acc, 0, S)
Support(c) == IF Weighted
              THEN Red(SumOver({t \in Topos : c \in t.f}, LAMBDA t : BestOf(t) * CountOf(t)), SumOver(Topos, LAMBDA t : BestOf(t) * CountOf(t)))
              ELSE Red(Cardinality({j \in Idxs : c \in smp[j].t.f}), Len(smp))
Greater(x, y) == x[1] * y[2] > y[1] * x[2]
Cons(th) == {c \in AllClades : Greater(Support(c), th)}
Determined(th) == \A c \in AllClades : ~REq(Support(c), th)
LaminarInv == \A th \in Thetas : Laminar(Cons(th))
\* implementation-shaped node identity after `relabel`
ImplNodes(F) == IF KeepClade THEN {<<Own(F, c), c>> : c \in F} ELSE {<<Own(F, c), {}>> : c \in F}
ImplCollides(F) == Cardinality(ImplNodes(F)) < Cardinality(F)
NoCollision == \A th \in Thetas : ~ImplCollides(Cons(th))
Uncovered(th) == Data \ UNION Cons(th)
Rec == [trees |-> smp, weighted |-> Weighted,
        by_theta |-> {[theta |-> th, cons |-> Cons(th), determined |-> Determined(th), collides |-> ImplCollides(Cons(th)), uncovered |-> Uncovered(th)] : th \in Thetas}]
Emit == Dump => PrintT(ToJson(Rec))
=============================================================================
