--------------------------------- MODULE Fp ---------------------------------
(* Arithmetic in the prime field F_P.  P*P < 2^31 so products never overflow TLC's 32-bit integers.      *)
(* A polynomial identity over Q holds mod every prime with non-zero denominators, and one that fails     *)
(* over Q fails mod a random 15-bit prime with probability ~ 1 - 2^-15 per prime: runs use two primes.   *)
EXTENDS Naturals, FiniteSets, FiniteSetsExt, Folds, TLC
CONSTANT P
FMul(a, b) == ((a % P) * (b % P)) % P
FAdd(a, b) == ((a % P) + (b % P)) % P
FSub(a, b) == ((a % P) + P - (b % P)) % P
RECURSIVE FPow(_, _)
FPow(a, e) == IF e = 0 THEN 1 ELSE IF e % 2 = 0 THEN FPow(FMul(a, a), e \div 2) ELSE FMul(a, FPow(a, e - 1))
FInv(a) == IF a % P = 0 THEN Assert(FALSE, "ZERO-DIVISOR") ELSE FPow(a % P, P - 2)
FDiv(a, b) == FMul(a, FInv(b))
FSum(S, F(_)) == FoldSet(LAMBDA x, acc : FAdd(F(x), acc), 0, S)
FProd(S, F(_)) == FoldSet(LAMBDA x, acc : FMul(F(x), acc), 1, S)
=============================================================================
