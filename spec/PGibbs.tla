------------------------------- MODULE PGibbs -------------------------------
(***************************************************************************)
(* One particle-Gibbs update of the whole tree                             *)
(* (ParticleGibbsTreeSampler.sample_tree -> ConditionalSMCSampler.sample   *)
(* -> final selection), distribution-lifted and evaluated exactly in F_P   *)
(* over the integer density tables of Tables.tla.                          *)
(*                                                                         *)
(* Structure mirrors the code:                                             *)
(*   sigma  ~ uniform on Orders(s0)            RootPermutationDistribution *)
(*   star_t = RestrictTo(s0, sigma[1..t])      _get_constrained_path       *)
(*   init   : slot 1 = star_1, slots 2..NP ~ Prop(Empty, sigma_1)          *)
(*   resample (policy) : slot 1 = retained, slots 2..NP ~ multinomial      *)
(*   update t: slot 1 = star_t, slot k ~ Prop(x_k, sigma_t),               *)
(*             W_k *= IncW (times the last-step correction W1/Wm at t = N) *)
(*   resample after every update but the last; final selection ~ weights.  *)
(* Pushing the point mass at s0 through these steps gives the kernel row   *)
(* K(s0, .); Stationary states  sum_s0 W1(s0) K(s0, s) = W1(s)  for all s. *)
(*                                                                         *)
(* Deviation constants reproduce known/plausible implementation defects;   *)
(* with all of them "as specified" TLC must prove Stationary, with any one *)
(* switched TLC must refute it.                                            *)
(***************************************************************************)
EXTENDS ProposalDefs

CONSTANTS NP,                    \* particles (>= 2)
          Policy,                \* "always" | "never" | "unequal" (resample iff weights differ: a weight-dependent rule like the ESS test)
          InitDropsFirstWeight,  \* FALSE as specified; TRUE = first-step particles get uniform weights (deviation F4)
          NoLastCorrection       \* FALSE as specified; TRUE = the last-step correction  - log_p + log_p_one  is dropped

All == AllOn(Data, OutlierOn)
Partial == AllPartial(Data, OutlierOn)

\* ---------------------------------------------------------------- tables evaluated once (TLC caches constant definitions)
RatF(x) == FDiv(x[1], x[2])
GamTab == [s \in Partial |-> IF s = Empty THEN 1 ELSE FMul(Wm(s), IF UsePerm THEN FInv(Cnt(s)) ELSE 1)]
\* proposal entries in F_P:  x child, s sampling prob, w incremental weight (non-final)
PropTab == [s \in {s \in Partial : Cardinality(DataOf(s)) < N} |->
             [d \in Data \ DataOf(s) |-> {[x |-> e.x, s |-> RatF(e.s), w |-> RatF(IncW(s, e))] : e \in Prop(s, d)}]]
LastCorr == [s \in All |-> IF NoLastCorrection THEN 1 ELSE FDiv(W1(s), Wm(s))]       \* _get_log_w at the last step: - log_p + log_p_one

\* ---------------------------------------------------------------- distributions over All as functions into F_P
Zero == [s \in All |-> 0]
Point(s, m) == [u \in All |-> IF u = s THEN m ELSE 0]
AddD(f, g) == [s \in All |-> FAdd(f[s], g[s])]
Scale(c, f) == [s \in All |-> FMul(c, f[s])]
SumD(S, F(_)) == FoldSet(LAMBDA x, acc : AddD(F(x), acc), Zero, S)
Slots == 2..NP
SumWts(ws) == FoldFunction(FAdd, 0, ws)

Select(xs, ws) == LET Z == SumWts(ws) IN SumD(1..NP, LAMBDA k : Point(xs[k], FDiv(ws[k], Z)))
AllEqual(ws) == \A i, j \in DOMAIN ws : ws[i] = ws[j]
DoResample(ws) == CASE Policy = "always" -> TRUE [] Policy = "never" -> FALSE [] OTHER -> ~AllEqual(ws)

\* resampling: set of ancestor vectors with their probability; retained particle `star` forced into slot 1
\* (index sets, never image sets: equal outcomes must not merge)
ResampleThen(xs, ws, star, Cont(_, _)) ==
  IF ~DoResample(ws) THEN Cont(xs, ws)
  ELSE LET Z == SumWts(ws)
           Free == Slots
       IN SumD([Free -> 1..NP], LAMBDA a :
            LET m == FoldSet(LAMBDA k, acc : FMul(acc, FDiv(ws[a[k]], Z)), 1, Free)
                rxs == [k \in 1..NP |-> IF k \in Free THEN xs[a[k]] ELSE star]
                rws == [k \in 1..NP |-> 1]
            IN Scale(m, Cont(rxs, rws)))

RECURSIVE Loop(_, _, _, _, _)
\* swarm holds t-1 points; next point to add is sig[t]
Loop(t, xs, ws, sig, s0) ==
  IF t > N THEN Select(xs, ws)
  ELSE
    LET d == sig[t]
        star(k) == RestrictTo(s0, {sig[i] : i \in 1..k})
        last == (t = N)
        wOf(par, e) == IF last THEN FMul(e.w, LastCorr[e.x]) ELSE e.w
        StarE == CHOOSE e \in PropTab[star(t - 1)][d] : e.x = star(t)
        choices == [Slots -> UNION {PropTab[xs[k]][d] : k \in Slots}]
        ok(ch) == \A k \in Slots : ch[k] \in PropTab[xs[k]][d]
    IN SumD({ch \in choices : ok(ch)}, LAMBDA ch :
         LET m == FoldSet(LAMBDA k, acc : FMul(acc, ch[k].s), 1, Slots)
             xs2 == [k \in 1..NP |-> IF k = 1 THEN star(t) ELSE ch[k].x]
             ws2 == [k \in 1..NP |-> IF k = 1 THEN FMul(ws[1], wOf(star(t - 1), StarE))
                                               ELSE FMul(ws[k], wOf(xs[k], ch[k]))]
         IN Scale(m, IF last THEN Loop(t + 1, xs2, ws2, sig, s0)
                     ELSE ResampleThen(xs2, ws2, star(t), LAMBDA a, b : Loop(t + 1, a, b, sig, s0))))

\* init (first data point), then the resampling step the code performs right after it
Start(sig, s0) ==
  LET d == sig[1]
      star1 == RestrictTo(s0, {d})
      P1 == PropTab[Empty][d]
      last == (N = 1)
      wOf(e) == IF InitDropsFirstWeight THEN 1 ELSE IF last THEN FMul(e.w, LastCorr[e.x]) ELSE e.w
      StarE == CHOOSE e \in P1 : e.x = star1
  IN SumD([Slots -> P1], LAMBDA ch :
       LET m == FoldSet(LAMBDA k, acc : FMul(acc, ch[k].s), 1, Slots)
           xs == [k \in 1..NP |-> IF k = 1 THEN star1 ELSE ch[k].x]
           ws == [k \in 1..NP |-> IF k = 1 THEN wOf(StarE) ELSE wOf(ch[k])]
       IN Scale(m, ResampleThen(xs, ws, star1, LAMBDA a, b : Loop(2, a, b, sig, s0))))

Row(s0) == LET O == Orders(s0) IN Scale(FInv(Cardinality(O)), SumD(O, LAMBDA sig : Start(sig, s0)))

\* ---------------------------------------------------------------- state machine: accumulate the flow, one start state per step
VARIABLES todo, acc, lastRow
vars == <<todo, acc, lastRow>>
Init == todo = All /\ acc = Zero /\ lastRow = Point(CHOOSE x \in All : TRUE, 1)
Next == /\ todo # {}
        /\ LET s0 == CHOOSE x \in todo : TRUE
               r == Row(s0)
           IN /\ lastRow' = r
              /\ acc' = AddD(acc, Scale(W1(s0), r))
              /\ todo' = todo \ {s0}
RowSumsToOne == FoldFunction(FAdd, 0, lastRow) = 1
\* global balance  sum_s0 W1(s0) K(s0, t) = W1(t)  for every target t, once every row has been added
BadTargets == {t \in All : acc[t] # W1(t) % P}
Stationary == todo = {} => BadTargets = {}
=============================================================================
