------------------------------- MODULE PGibbsSM -------------------------------
(***************************************************************************)
(* The conditional SMC pass of one particle-Gibbs update as a state        *)
(* machine with one action per random draw (structure only; the exact      *)
(* probabilities are PGibbs.tla's business):                               *)
(*                                                                         *)
(*   DrawSigma   sigma in Orders(s0)        RootPermutationDistribution    *)
(*   InitSwarm   slot 1 = star_1, slots 2..NP propose from the empty tree  *)
(*   Resample    slot 1 = the retained particle of the current step,       *)
(*               every other slot = any particle of the current swarm      *)
(*   Update      slot 1 = star_t, slot k = a proposal from xs[k]           *)
(*   Select      output = any particle of the final swarm                  *)
(*                                                                         *)
(* with star_t = RestrictTo(s0, sigma[1..t]) (the retained path).          *)
(* Invariants: the retained particle sits in slot 1; every particle holds  *)
(* exactly the data sigma[1..t] and is compatible with that prefix; the    *)
(* output is a forest over all data.  TracePGibbs.tla validates swarms     *)
(* recorded from the real ConditionalSMCSampler against this machine.      *)
(***************************************************************************)
EXTENDS Forests
CONSTANTS N, NP, OutlierOn, Starts,   \* Starts: set of start forests (all of AllOn(Data) when model checking)
          Conditional                \* TRUE: conditional SMC of particle Gibbs (retained path in slot 1); FALSE: the unconditional SMC of burn-in
Data == 0..(N - 1)
VARIABLES s0, sig, t, xs, phase, out
vars == <<s0, sig, t, xs, phase, out>>
Slots == 1..NP
Star(k) == RestrictTo(s0, {sig[i] : i \in 1..k})
NoSwarm == [k \in Slots |-> Empty]
Init == s0 \in Starts /\ sig = <<>> /\ t = 0 /\ xs = NoSwarm /\ phase = "sigma" /\ out = Empty
DrawSigma == /\ phase = "sigma" /\ sig' \in Orders(s0) /\ phase' = "init" /\ UNCHANGED <<s0, t, xs, out>>
Free == IF Conditional THEN 2..NP ELSE Slots
InitSwarm == /\ phase = "init"
             /\ IF Conditional
                THEN /\ \E ch \in [2..NP -> Place(Empty, sig[1], OutlierOn)] :
                          xs' = [k \in Slots |-> IF k = 1 THEN RestrictTo(s0, {sig[1]}) ELSE ch[k]]
                     /\ t' = 1
                ELSE /\ xs' = NoSwarm /\ t' = 0          \* SMCSampler starts from NP empty particles
             /\ phase' = "resample" /\ UNCHANGED <<s0, sig, out>>
\* resampling may or may not happen (ESS rule); when it does the retained particle is forced into slot 1
Resample == /\ phase = "resample"
            /\ \/ UNCHANGED xs
               \/ \E a \in [Free -> Slots] : xs' = [k \in Slots |-> IF k \in Free THEN xs[a[k]] ELSE Star(t)]
            /\ phase' = (IF t < N THEN "update" ELSE "select")
            /\ UNCHANGED <<s0, sig, t, out>>
Update == /\ phase = "update"
          /\ LET d == sig[t + 1] IN
               \E ch \in [Free -> UNION {Place(xs[k], d, OutlierOn) : k \in Free}] :
                  /\ \A k \in Free : ch[k] \in Place(xs[k], d, OutlierOn)
                  /\ xs' = [k \in Slots |-> IF k \in Free THEN ch[k] ELSE Star(t + 1)]
          /\ t' = t + 1
          /\ phase' = (IF t + 1 < N THEN "resample" ELSE "select")    \* no resampling after the last update
          /\ UNCHANGED <<s0, sig, out>>
Select == /\ phase = "select" /\ \E k \in Slots : out' = xs[k] /\ phase' = "done" /\ UNCHANGED <<s0, sig, t, xs>>
Next == DrawSigma \/ InitSwarm \/ Resample \/ Update \/ Select \/ (phase = "done" /\ UNCHANGED vars)
Prefix == {sig[i] : i \in 1..t}
RetainedInSlot1 == (Conditional /\ phase \in {"resample", "update", "select"}) => xs[1] = Star(t)
LineagesHoldPrefix == phase \in {"resample", "update", "select"} => \A k \in Slots : DataOf(xs[k]) = Prefix /\ IsForest(xs[k])
LineagesCompatible == phase \in {"resample", "update", "select"} =>
     \A k \in Slots : Compat([i \in 1..t |-> sig[i]], xs[k])
RetainedPathIsInput == (phase # "sigma" /\ phase # "init") => Star(N) = s0
OutputComplete == phase = "done" => DataOf(out) = Data /\ IsForest(out)
=============================================================================
