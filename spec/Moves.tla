-------------------------------- MODULE Moves --------------------------------
(***************************************************************************)
(* The auxiliary tree moves applied after the particle-Gibbs update        *)
(* (phyclone/mcmc/gibbs_mh.py, phyclone/mcmc/particle_gibbs.py), as exact   *)
(* Markov kernels over the forest universe with integer target W1, in F_P. *)
(*                                                                         *)
(*  DP   : Gibbs reassignment of one data point among the existing clones  *)
(*         (and the outlier set), skipped when it would empty a clone.     *)
(*  PRG  : prune a uniformly chosen clone's subtree and regraft it under   *)
(*         any remaining clone or at top level, Gibbs-weighted by W1.      *)
(*  SUB  : subtree resampling with an *ideal* inner sampler (an exact draw *)
(*         from the conditional posterior of the block): isolates the      *)
(*         block-selection mechanism of ParticleGibbsSubtreeSampler.       *)
(*                                                                         *)
(* For each move  Flow(t) = sum_s W1(s) K(s,t)  must equal W1(t).          *)
(***************************************************************************)
EXTENDS Tables, Fp, Rat, Json, MoveRel      \* MoveRel: the candidate sets (OutlierOn, SkipLoneOutlier are its constants)

CONSTANTS N,
          Move,                 \* "dp" | "prg" | "sub"
          RegraftDegreeFactor,  \* FALSE as specified; TRUE = attachment weight multiplied by (#children of target + 1) (deviation F6)
          DumpRows,             \* print the single-step rows of every forest as exact rationals (conformance oracle)
          RowsOnly,             \* TRUE: only walk the forests (for DumpRows on sizes where the push-forward is not needed)
          AllOutlierWhole       \* TRUE: on a tree whose data are all outliers the subtree move resamples the whole tree;
                                \* FALSE: it cannot move (as implemented before the fix it raises, see C19) - deviation F7
Data == 0..(N - 1)
All == AllOn(Data, OutlierOn)

\* ---------------------------------------------------------------- data-point move (candidates: MoveRel!DPCands)
DPZ(st, d) == FSum(DPCands(st, d), W1)
\* K_d(s, t) = W1(t) / Z_d(s) for t in the candidate set
DPClosed == \A s \in All : \A d \in Data : DPCands(s, d) \subseteq All

\* ---------------------------------------------------------------- prune / regraft (relation: MoveRel!PRGResults)
PRGCands(st, v) == LET R == RestF(st.f, v)  S == SubF(st.f, v)
                   IN {[x |-> [f |-> Graft(R, S, v, p), o |-> st.o],
                        deg |-> Cardinality(IF p = {} THEN Roots(R) ELSE KidsOf(R, p))] : p \in PRGTargets(st, v)}
PRGWeight(e) == IF RegraftDegreeFactor THEN FMul(e.deg + 1, W1(e.x)) ELSE W1(e.x) % P
\* (the code returns the tree unchanged when it has <= 1 clone or when nothing remains after pruning: see PRGRowF)
PRGClosed == \A s \in All : \A v \in s.f : \A e \in PRGCands(s, v) : e.x \in All
PRGSameRelation == \A s \in All : \A v \in s.f : {e.x : e \in PRGCands(s, v)} = PRGResults(s, v)

\* ---------------------------------------------------------------- subtree resampling, ideal inner sampler
\* all ways of re-building the block's data (clade v plus outliers) and attaching it under `at` of the remainder
SubCands(st, d) ==
  LET b == SubBlock(st, d) IN
  IF b.whole THEN All
  ELSE {Reattach(st, b, sub) : sub \in AllOn(b.v \cup st.o, OutlierOn)}
SubClosed == \A s \in All : \A d \in NonOut(s) : SubCands(s, d) \subseteq All
\* the enumeration-free membership test used by trace validation is the same relation
SubSameRelation == \A s \in All : \A d \in NonOut(s) : \A t \in All : (t \in SubCands(s, d)) = SubStepVia(s, t, d)

\* ---------------------------------------------------------------- rows as functions, built by folding over candidates only
ZeroF == [t \in All |-> 0]
PointF(s) == [t \in All |-> IF t = s THEN 1 ELSE 0]
AddF(f, g) == [t \in All |-> FAdd(f[t], g[t])]
ScaleF(c, f) == [t \in All |-> FMul(c, f[t])]
\* distribution  c |-> wt(c) / Z  over a candidate set C (distinct states)
FromCands(C, wt(_)) == LET Z == FSum(C, wt) IN FoldSet(LAMBDA c, f : [f EXCEPT ![c] = FAdd(@, FDiv(wt(c), Z))], ZeroF, C)
DPRowD(s, d) == FromCands(DPCands(s, d), W1)
PRGRowF(s) ==
  LET K == Cardinality(s.f) IN
  IF K <= 1 THEN PointF(s)
  ELSE ScaleF(FInv(K), FoldSet(LAMBDA v, f :
         AddF(f, IF RestF(s.f, v) = {} THEN PointF(s)
                 ELSE LET C == PRGCands(s, v)  Z == FSum(C, PRGWeight)
                      IN FoldSet(LAMBDA e, g : [g EXCEPT ![e.x] = FAdd(@, FDiv(PRGWeight(e), Z))], ZeroF, C)),
         ZeroF, s.f))
SubRowF(s) ==
  LET D == NonOut(s) IN
  IF D = {} THEN (IF AllOutlierWhole THEN FromCands(All, W1) ELSE PointF(s))
  ELSE ScaleF(FInv(Cardinality(D)), FoldSet(LAMBDA d, f : AddF(f, FromCands(SubCands(s, d), W1)), ZeroF, D))
Keys == IF Move = "dp" THEN Data ELSE {0}
RowFor(s, k) == CASE Move = "dp" -> DPRowD(s, k) [] Move = "prg" -> PRGRowF(s) [] Move = "sub" -> SubRowF(s)

\* ---------------------------------------------------------------- state machine: push W1(s) K(s, .) forward, one source per two steps
VARIABLES todo, cur, acc
vars == <<todo, cur, acc>>
NoRow == [src |-> Empty, rows |-> << >>, has |-> FALSE]
Init == todo = All /\ cur = NoRow /\ acc = [k \in Keys |-> ZeroF]
Compute == /\ ~cur.has /\ todo # {}
           /\ LET s == CHOOSE x \in todo : TRUE IN
                cur' = [src |-> s, rows |-> IF RowsOnly THEN << >> ELSE [k \in Keys |-> RowFor(s, k)], has |-> TRUE]
           /\ UNCHANGED <<todo, acc>>
Accumulate == /\ cur.has
              /\ acc' = IF RowsOnly THEN acc ELSE [k \in Keys |-> [t \in All |-> FAdd(acc[k][t], FMul(W1(cur.src), cur.rows[k][t]))]]
              /\ todo' = todo \ {cur.src}
              /\ cur' = NoRow
\* exact rational rows (conformance with the implementation's per-decision probability vectors)
SumInt(C, wt(_)) == FoldSet(LAMBDA c, tot : wt(c) + tot, 0, C)
DPRat(s, d) == LET C == DPCands(s, d)  Z == SumInt(C, W1) IN {[x |-> c, p |-> Red(W1(c), Z)] : c \in C}
PRGRat(s, v) == IF RestF(s.f, v) = {} THEN {} ELSE
                LET C == PRGCands(s, v)  Z == SumInt(C, LAMBDA e : W1(e.x)) IN {[x |-> e.x, p |-> Red(W1(e.x), Z)] : e \in C}
RowsRec(s) == [s |-> s, dp |-> {[d |-> d, row |-> DPRat(s, d)] : d \in Data}, prg |-> {[v |-> v, row |-> PRGRat(s, v)] : v \in s.f}]
EmitRows == (DumpRows /\ cur.has) => PrintT(ToJson(RowsRec(cur.src)))
Next == Compute \/ Accumulate
RowsSumToOne == (cur.has /\ ~RowsOnly) => \A k \in Keys : FoldFunction(FAdd, 0, cur.rows[k]) = 1
BadTargets == {<<k, t>> \in Keys \X All : acc[k][t] # W1(t) % P}
Stationary == (todo = {} /\ ~RowsOnly) => BadTargets = {}
\* every move is defined on every forest a run can hold (no stuck state = no exception): the data-point scan and
\* prune-regraft always have a candidate; the subtree move needs a clone to start from unless it falls back to the
\* whole-tree update on an all-outlier tree (deviation AllOutlierWhole = FALSE: stuck there - finding F7)
MovesDefined == \A s \in All :
   /\ \A d \in Data : DPCands(s, d) # {}
   /\ \A v \in s.f : (RestF(s.f, v) = {} \/ PRGCands(s, v) # {})
   /\ (NonOut(s) = {} => AllOutlierWhole)
   /\ \A d \in NonOut(s) : SubCands(s, d) # {}
DefinedInv == (todo = All /\ ~cur.has) => MovesDefined
Closed == CASE Move = "dp" -> DPClosed [] Move = "prg" -> PRGClosed [] Move = "sub" -> SubClosed
ClosedInv == (todo = All /\ ~cur.has) => Closed
SameRelationInv == (todo = All /\ ~cur.has) => (PRGSameRelation /\ SubSameRelation)
=============================================================================
