---------------------------- MODULE SummariesMap ----------------------------
(***************************************************************************)
(* MAP selection and the topology report over a trace                      *)
(* (phyclone/process_trace/process_trace.py: write_map_results,            *)
(* create_topology_dict_from_trace, count_topology,                        *)
(* create_topology_dataframe, create_topologies_archive).                  *)
(*                                                                         *)
(* A trace is a sequence of chains in completion order (= dictionary       *)
(* insertion order), each with its chain number and a sequence of entries  *)
(* [t |-> forest, m |-> integer score multiplier] (log_p_one = log m).     *)
(* The state machine runs the implementation-shaped single scan (strict    *)
(* '>' arg-max; dictionary keyed by tree identity with count / max /       *)
(* pointer update) one entry per step; at the end the definitions are      *)
(* checked: the MAP entry attains the global maximum; one row per distinct *)
(* forest with exact count, maximum score and a pointer attaining it.      *)
(* The printed record lists the ADMISSIBLE outputs (ties are sets).        *)
(***************************************************************************)
EXTENDS Forests, Json
CONSTANTS N, OutliersOn, MaxChains, MaxEntries, MaxMult, Dump,
          FixedTraces     \* {} : every trace within the bounds above; otherwise exactly these traces (long traces given by the harness)
Data == 0..(N - 1)
U == AllOn(Data, OutliersOn)
Entries == [t : U, m : 1..MaxMult]
ChainBodies == UNION {[1..e -> Entries] : e \in 1..MaxEntries}
Perms(k) == {p \in [1..k -> 0..(k - 1)] : \A a, b \in 1..k : a # b => p[a] # p[b]}
Traces == UNION {{[c \in 1..k |-> [num |-> p[c], entries |-> b[c]]] : b \in [1..k -> ChainBodies], p \in Perms(k)} : k \in 1..MaxChains}

VARIABLES tr, ci, ei, best, topo, done
vars == <<tr, ci, ei, best, topo, done>>
NoBest == [val |-> 0, chain |-> 0, idx |-> 0]
Init == tr \in (IF FixedTraces = {} THEN Traces ELSE FixedTraces) /\ ci = 1 /\ ei = 1 /\ best = NoBest /\ topo = << >> /\ done = FALSE
Cur == tr[ci].entries[ei]
Scan == /\ ~done
        /\ LET e == Cur  num == tr[ci].num IN
             /\ best' = IF e.m > best.val THEN [val |-> e.m, chain |-> num, idx |-> ei - 1] ELSE best
             /\ topo' = IF e.t \in DOMAIN topo
                        THEN [topo EXCEPT ![e.t] = [count |-> @.count + 1,
                                                    max |-> IF e.m > @.max THEN e.m ELSE @.max,
                                                    iter |-> IF e.m > @.max THEN ei - 1 ELSE @.iter,
                                                    chain |-> IF e.m > @.max THEN num ELSE @.chain]]
                        ELSE (e.t :> [count |-> 1, max |-> e.m, iter |-> ei - 1, chain |-> num]) @@ topo
        /\ IF ei < Len(tr[ci].entries) THEN ei' = ei + 1 /\ UNCHANGED <<ci, done>>
           ELSE IF ci < Len(tr) THEN ci' = ci + 1 /\ ei' = 1 /\ UNCHANGED done
           ELSE done' = TRUE /\ UNCHANGED <<ci, ei>>
        /\ UNCHANGED tr
Next == Scan \/ (done /\ UNCHANGED vars)

\* ---------------------------------------------------------------- definitions
AllEntries == UNION {{<<c, j>> : j \in 1..Len(tr[c].entries)} : c \in 1..Len(tr)}
EntryAt(p) == tr[p[1]].entries[p[2]]
MaxScore == Max({EntryAt(p).m : p \in AllEntries})
ChainByNum(n) == CHOOSE c \in 1..Len(tr) : tr[c].num = n
CountOf(t) == Cardinality({p \in AllEntries : EntryAt(p).t = t})
MaxOfTree(t) == Max({EntryAt(p).m : p \in {q \in AllEntries : EntryAt(q).t = t}})
Distinct == {EntryAt(p).t : p \in AllEntries}
MapCorrect == done => tr[ChainByNum(best.chain)].entries[best.idx + 1].m = MaxScore
TopoCorrect == done =>
   /\ DOMAIN topo = Distinct
   /\ \A t \in Distinct : /\ topo[t].count = CountOf(t) /\ topo[t].max = MaxOfTree(t)
                          /\ LET e == tr[ChainByNum(topo[t].chain)].entries[topo[t].iter + 1] IN e.t = t /\ e.m = MaxOfTree(t)
CountsSum == done => FoldSet(LAMBDA t, acc : topo[t].count + acc, 0, DOMAIN topo) = Cardinality(AllEntries)
\* ---------------------------------------------------------------- oracle record (admissible outputs)
Oracle == [trace |-> tr,
           map_trees |-> {EntryAt(p).t : p \in {q \in AllEntries : EntryAt(q).m = MaxScore}},
           freq_trees |-> {t \in Distinct : \A u \in Distinct : CountOf(t) >= CountOf(u)},
           rows |-> {[t |-> t, count |-> CountOf(t), max |-> MaxOfTree(t),
                      pointers |-> {<<tr[p[1]].num, p[2] - 1>> : p \in {q \in AllEntries : EntryAt(q).t = t /\ EntryAt(q).m = MaxOfTree(t)}}] : t \in Distinct}]
Emit == (Dump /\ done) => PrintT(ToJson(Oracle))
=============================================================================
