-------------------------------- MODULE Loader --------------------------------
(***************************************************************************)
(* Input loading (phyclone/data/pyclone.py: load_pyclone_data and helpers) *)
(* over small input tables.                                                *)
(*                                                                         *)
(* A table assigns to every (mutation, sample) cell a sequence of rows,    *)
(* each row being its major copy number (0, 1, 2); everything else in a    *)
(* row is payload the harness generates.  Documented rule (the property):  *)
(*   a mutation is KEPT iff every sample has exactly one row for it with a *)
(*   positive major copy number and no other row; otherwise it is dropped. *)
(* Implementation-shaped rule: drop rows with major = 0, take the samples  *)
(* that still occur, keep a mutation iff its number of remaining rows      *)
(* equals the number of samples.  The two differ only on the excluded      *)
(* inputs, which are flagged: SampleLost (a sample keeps no usable row at  *)
(* all) and Degenerate (extra rows in one sample offset missing rows in    *)
(* another).  Kept mutations are numbered in sorted order; samples sorted. *)
(***************************************************************************)
EXTENDS Naturals, Sequences, FiniteSets, FiniteSetsExt, TLC, Json
CONSTANTS M, S,           \* numbers of mutations / samples (ids 1..M, 1..S; the harness maps them to unsorted names)
          Cells,          \* admissible cell contents: set of sequences over 0..2
          FixedTabs,      \* {} : every table over M x S; otherwise exactly these tables (large tables given by the harness)
          Dump
VARIABLE tab
Init == tab \in (IF FixedTabs = {} THEN [(1..M) \X (1..S) -> Cells] ELSE FixedTabs)
Next == UNCHANGED tab
Rows(m, s) == tab[<<m, s>>]
Usable(m, s) == SelectSeq(Rows(m, s), LAMBDA r : r > 0)
\* ---- the documented rule
KeptDoc == {m \in 1..M : \A s \in 1..S : Len(Rows(m, s)) = 1 /\ Rows(m, s)[1] > 0}
\* ---- the implementation-shaped rule
SamplesLeft == {s \in 1..S : \E m \in 1..M : Len(Usable(m, s)) > 0}
RowCount(m) == FoldSet(LAMBDA s, acc : Len(Usable(m, s)) + acc, 0, 1..S)
KeptImpl == {m \in 1..M : RowCount(m) = Cardinality(SamplesLeft) /\ Cardinality(SamplesLeft) > 0}
SampleLost == SamplesLeft # 1..S
Degenerate == \E m \in KeptImpl : \E s \in SamplesLeft : Len(Usable(m, s)) # 1
\* a mutation the implementation keeps although a zero-copy-number row of it was removed first
ZeroRowMasked == \E m \in KeptImpl : \E s \in 1..S : Len(Rows(m, s)) # Len(Usable(m, s))
Judged == ~SampleLost /\ ~Degenerate
\* on judged tables the implementation rule can only differ from the documented one through masked zero rows
RulesAgree == Judged => (KeptImpl \ KeptDoc) \subseteq {m \in 1..M : \E s \in 1..S : Len(Rows(m, s)) # Len(Usable(m, s))}
DocIsSubset == Judged => KeptDoc \subseteq KeptImpl
Emit == Dump => PrintT(ToJson([cells |-> {[m |-> c[1], s |-> c[2], rows |-> tab[c]] : c \in DOMAIN tab},
                               kept |-> KeptDoc, kept_impl |-> KeptImpl, judged |-> Judged,
                               sample_lost |-> SampleLost, degenerate |-> Degenerate]))
=============================================================================
