----------------------------- MODULE TraceChain -----------------------------
(***************************************************************************)
(* Trace validation for Chain: the event stream recorded from a real       *)
(* run_phyclone_chain execution (cache clears, sampler calls with the      *)
(* sampler's name, relabel, concentration updates, trace appends with the  *)
(* iteration number) must be a behaviour of Chain for the run's options.   *)
(* Unlogged bookkeeping steps of the spec (ev.name = "skip") are taken     *)
(* silently; they always advance the program counter, so the search is     *)
(* finite.  A trace is accepted when all its events are consumed and the   *)
(* chain has terminated.  Traces are validated in one batch (tid).         *)
(***************************************************************************)
EXTENDS Chain, Json, IOUtils
Traces == JsonDeserialize(IOEnv.TRACE_FILE)    \* sequence of [opt |-> ..., events |-> <<...>>]
VARIABLES tid, l
tvars == <<opt, phase, i, pc, k, alphaVer, treeVer, cacheVers, elapsedPos, trace, ev, whole, tid, l>>
OptOf(t) == [burnin |-> t.opt.burnin, iters |-> t.opt.iters, thin |-> t.opt.thin, tmax |-> t.opt.tmax, conc |-> t.opt.conc,
             sub |-> t.opt.sub, ndp |-> t.opt.ndp, nprg |-> t.opt.nprg]
TraceInit == /\ tid \in 1..Len(Traces) /\ l = 1
             /\ opt = OptOf(Traces[tid])
             /\ phase = IF opt.burnin > 0 THEN "burnin" ELSE "setup"
             /\ i = 0 /\ pc = "clear" /\ k = 0 /\ alphaVer = 0 /\ treeVer = 0 /\ cacheVers = {}
             /\ elapsedPos = FALSE /\ trace = <<>> /\ ev = [name |-> "init"] /\ whole = TRUE
Events == Traces[tid].events
Matches(e, r) == /\ e.name = r.name
                 /\ (e.name = "sample_tree" => e.sampler = r.sampler)
                 /\ (e.name = "append" => e.iter = r.iter)
                 /\ ((e.name = "append" /\ "whole" \in DOMAIN r) => r.whole = whole)     \* the recorded tree holds all data <=> whole
TraceNext == /\ phase # "done"
             /\ Next /\ UNCHANGED tid
             /\ \/ ev'.name = "skip" /\ l' = l
                \/ ev'.name # "skip" /\ l <= Len(Events) /\ Matches(ev', Events[l]) /\ l' = l + 1
Accepted == (phase = "done" /\ l = Len(Events) + 1) => PrintT(<<"MATCHED", tid>>)
tview == <<opt, phase, i, pc, k, alphaVer, treeVer, cacheVers, elapsedPos, trace, whole, tid, l>>
=============================================================================
