------------------------------ MODULE Proposal ------------------------------
(***************************************************************************)
(* State machine and per-(parent, point) facts over ProposalDefs: one SMC  *)
(* lineage grown under every data order, carrying the products of weights  *)
(* and proposal probabilities (F_P) so TLC checks telescoping on each path.*)
(***************************************************************************)
EXTENDS ProposalDefs
CONSTANT Dump

\* ---------------------------------------------------------------- per-(parent, point) facts
Support(s, d)   == {e.x : e \in Prop(s, d)}
Complete(s, d)  == Support(s, d) = Place(s, d, OutlierOn)
NoDuplicates(s, d) == Cardinality(Prop(s, d)) = Cardinality(Support(s, d))
SumQ(s, d)      == LET E == Prop(s, d)  den == FoldSet(LAMBDA e, acc : (acc \div Gcd(acc, e.q[2])) * e.q[2], 1, E)
                   IN FoldSet(LAMBDA e, acc : acc + e.q[1] * (den \div e.q[2]), 0, E) = den
SumS(s, d)      == LET E == Prop(s, d)  den == FoldSet(LAMBDA e, acc : (acc \div Gcd(acc, e.s[2])) * e.s[2], 1, E)
                   IN FoldSet(LAMBDA e, acc : acc + e.s[1] * (den \div e.s[2]), 0, E) = den
Faithful(s, d)  == \A e \in Prop(s, d) : REq(e.s, e.q)

\* ---------------------------------------------------------------- state machine: one SMC lineage under every order
VARIABLES st, sig, accW, accQ
vars == <<st, sig, accW, accQ>>
RatF(x) == FDiv(x[1], x[2])
GamF(s) == IF s = Empty THEN 1 ELSE FMul(Wm(s), IF UsePerm THEN FInv(Cnt(s)) ELSE 1)
Init == st = Empty /\ sig = <<>> /\ accW = 1 /\ accQ = 1
Next == \E d \in Data \ DataOf(st) : \E e \in Prop(st, d) :
          /\ st' = e.x /\ sig' = Append(sig, d)
          /\ accW' = FMul(accW, RatF(IncW(st, e)))
          /\ accQ' = FMul(accQ, RatF(e.q))

Parents == {s \in AllPartial(Data, OutlierOn) : Cardinality(DataOf(s)) < N}
NextPoints(s) == Data \ DataOf(s)
\* invariants
InvComplete   == \A d \in NextPoints(st) : Complete(st, d) /\ NoDuplicates(st, d)
InvNormalised == \A d \in NextPoints(st) : SumQ(st, d) /\ SumS(st, d)
InvFaithful   == \A d \in NextPoints(st) : Faithful(st, d)
InvTelescopes == FMul(accW, accQ) = GamF(st)
InvOrderCompatible == Compat(sig, st)
\* every tree compatible with an order is reachable along that order (restrictions form a path of supports)
Prefix(p, k) == {p[i] : i \in 1..k}
InvReachableAlongEveryOrder ==
   \A p \in Orders(st) : \A k \in 1..Len(p) :
       RestrictTo(st, Prefix(p, k)) \in Support(RestrictTo(st, Prefix(p, k - 1)), p[k])

\* ---------------------------------------------------------------- oracle dump
EntryRec(s, e) == [x |-> e.x, q |-> e.q, s |-> e.s, w |-> IncW(s, e)]
ParentRec(s) == [st |-> s, wm |-> Wm(s), w1 |-> W1(s), cnt |-> Cnt(s),
                 next |-> {[d |-> d, entries |-> {EntryRec(s, e) : e \in Prop(s, d)}] : d \in NextPoints(s)}]
TableRec(s) == [st |-> s, wm |-> Wm(s), w1 |-> W1(s), cnt |-> Cnt(s)]
ASSUME Dump => JsonSerialize(IOEnv.OUT_FILE,
                 [parents |-> {ParentRec(s) : s \in Parents},
                  table |-> {TableRec(s) : s \in AllPartial(Data, OutlierOn)}])
=============================================================================
