-------------------------- MODULE ConcentrationKN --------------------------
(* (K, n) the run loop must pass to the concentration update for every forest: clones and data points held by    *)
(* clones, outliers excluded.                                                                                    *)
EXTENDS Forests, Json
CONSTANTS N, CountOutliers   \* deviation: n counts outliers too
Data == 0..(N - 1)
VARIABLE st
Init == st = Empty
Next == \E d \in Data \ DataOf(st) : st' \in InsertAny(st, d, TRUE)
KOf(s) == Cardinality(s.f)
NOf(s) == Cardinality(UNION s.f) + (IF CountOutliers THEN Cardinality(s.o) ELSE 0)
KLeqN == KOf(st) <= Cardinality(UNION st.f) /\ (NOf(st) = Cardinality(DataOf(st)) - Cardinality(st.o))
Emit == PrintT(ToJson([st |-> st, K |-> KOf(st), n |-> NOf(st)]))
=============================================================================
