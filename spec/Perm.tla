-------------------------------- MODULE Perm --------------------------------
(***************************************************************************)
(* Data orders for an SMC pass (phyclone/smc/utils.py,                     *)
(* RootPermutationDistribution).                                           *)
(*                                                                         *)
(*  - Orders(st)   : definition - all permutations of the data in which    *)
(*                   every data point of a clone comes after all data of   *)
(*                   the clone's descendants; outliers anywhere.           *)
(*  - Count(st)    : the recursive counting formula the code reports       *)
(*                   (log_count): bridge-shuffle multinomials times        *)
(*                   within-clone factorials times outlier interleavings.  *)
(*  - Samp / NScr  : the recursive bridge-shuffle sampler as nested        *)
(*                   uniform choices: set of producible orders and number  *)
(*                   of equiprobable outcome scripts.                      *)
(*                                                                         *)
(* The state machine walks the universe of forests (one data point placed  *)
(* per step, anywhere), so TLC evaluates the invariants on every forest    *)
(* over every subset of Data.                                              *)
(***************************************************************************)
EXTENDS Forests, Json

CONSTANTS N,                   \* data points 0..N-1
          OutliersOn,          \* BOOLEAN
          CountOutlierOrders,  \* TRUE = as the property states; FALSE = outlier arrangements not counted (deviation F2)
          Dump                 \* BOOLEAN: print one JSON oracle record per forest

Data == 0..(N - 1)
VARIABLE st
vars == <<st>>

\* ---------------------------------------------------------------- counting formula
SizeOf(c) == Cardinality(c)
Multinom(sizes) ==   \* sizes: set of disjoint clades -> (sum of sizes)! / prod size!
  Fact(FoldSet(LAMBDA c, acc : SizeOf(c) + acc, 0, sizes)) \div FoldSet(LAMBDA c, acc : Fact(SizeOf(c)) * acc, 1, sizes)
RECURSIVE CountAt(_, _)
CountAt(F, c) == LET K == KidsOf(F, c) IN
   FoldSet(LAMBDA k, acc : CountAt(F, k) * acc, 1, K) * Multinom(K) * Fact(Cardinality(Own(F, c)))
Count(s) == LET R == Roots(s.f)
                n == Cardinality(DataOf(s))
                no == Cardinality(s.o)
            IN FoldSet(LAMBDA k, acc : CountAt(s.f, k) * acc, 1, R) * Multinom(R) * Binom(n, no)
               * (IF CountOutlierOrders THEN Fact(no) ELSE 1)

\* ---------------------------------------------------------------- the sampler as nested uniform choices
\* all interleavings of a set of sequences with pairwise distinct elements
RECURSIVE Interleave(_)
Interleave(seqs) ==
  LET ne == {s \in seqs : s # <<>>} IN
  IF ne = {} THEN {<<>>}
  ELSE UNION {{<<Head(s)>> \o r : r \in Interleave((ne \ {s}) \cup {Tail(s)})} : s \in ne}
SeqsOfSet(S) == PermsOf(S)
\* one choice of a sequence per member of K: functions K -> sequences
RECURSIVE SampAt(_, _)
SampAt(F, c) ==
  LET K == KidsOf(F, c)
      kidChoices == [K -> UNION {SampAt(F, k) : k \in K}]
      okc == {ch \in kidChoices : \A k \in K : ch[k] \in SampAt(F, k)}
  IN UNION {UNION {{il \o own : own \in SeqsOfSet(Own(F, c))} : il \in Interleave({ch[k] : k \in K})} : ch \in okc}
RECURSIVE NScrAt(_, _)
NScrAt(F, c) == LET K == KidsOf(F, c) IN
   FoldSet(LAMBDA k, acc : NScrAt(F, k) * acc, 1, K) * Multinom(K) * Fact(Cardinality(Own(F, c)))
Samp(s) ==
  LET R == Roots(s.f)
      rootChoices == [R -> UNION {SampAt(s.f, k) : k \in R}]
      okc == {ch \in rootChoices : \A k \in R : ch[k] \in SampAt(s.f, k)}
      treeSeqs == UNION {Interleave({ch[k] : k \in R}) : ch \in okc}
  IN UNION {UNION {Interleave({t, os}) : os \in SeqsOfSet(s.o)} : t \in treeSeqs}
NScr(s) == LET R == Roots(s.f) IN
   FoldSet(LAMBDA k, acc : NScrAt(s.f, k) * acc, 1, R) * Multinom(R)
   * Fact(Cardinality(s.o)) * Binom(Cardinality(DataOf(s)), Cardinality(s.o))

\* ---------------------------------------------------------------- state machine over the forest universe
Init == st = Empty
Next == \E d \in Data \ DataOf(st) : st' \in InsertAny(st, d, OutliersOn)

\* ---------------------------------------------------------------- properties
WellFormedState == IsForest(st)
CountIsNumberOfOrders == Count(st) = Cardinality(Orders(st))
SamplerReachesExactlyCompatible == Samp(st) = Orders(st)
\* #equiprobable scripts = #distinct outputs  =>  the script->order map is a bijection => uniform
SamplerUniform == NScr(st) = Cardinality(Samp(st))
Emit == Dump => PrintT(ToJson([st |-> st, orders |-> Orders(st), count |-> Count(st)]))
=============================================================================
