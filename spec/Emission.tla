------------------------------- MODULE Emission -------------------------------
(***************************************************************************)
(* The PyClone mutation model behind the emission grids                    *)
(* (phyclone/data/pyclone.py: get_major_cn_prior, log_pyclone_*_pdf).      *)
(*                                                                         *)
(* For major / minor / normal copy numbers, error rate eps and tumour      *)
(* content t (rationals) the mutational genotypes are                      *)
(*   x = 1..major : populations (normal, reference, variant) have total    *)
(*       copy numbers (normal, normal, major+minor) and variant-allele     *)
(*       probabilities (eps, eps, min(1-eps, x/total))   [mutation before  *)
(*       the copy-number change]                                           *)
(*   plus, unless normal = total, copy numbers (normal, total, total) with *)
(*       (eps, eps, min(1-eps, 1/total))                 [mutation after]  *)
(* with a uniform prior.  At cellular prevalence f the population weights  *)
(* are (1-t, t(1-f), t f) and the expected allele fraction of genotype c   *)
(*   vaf_c(f) = sum_k w_k cn_ck mu_ck / sum_k w_k cn_ck .                  *)
(* TLC enumerates the configurations and prints genotype lists and exact   *)
(* rational VAFs on the CCF grid f = i/(G-1); the binomial / beta-binomial *)
(* pmf of those VAFs is evaluated by the harness in exact rationals.       *)
(***************************************************************************)
EXTENDS Naturals, Sequences, FiniteSets, TLC, Rat, Json
CONSTANTS MaxMajor, Normals, Epss, Ts, G, Dump
VARIABLE cfg
Init == cfg \in [major : 1..MaxMajor, minor : 0..MaxMajor, normal : Normals, eps : Epss, t : Ts]
Next == UNCHANGED cfg
Valid == cfg.minor <= cfg.major
Total == cfg.major + cfg.minor
RMin(x, y) == IF x[1] * y[2] <= y[1] * x[2] THEN x ELSE y
RSubFrom1(x) == Red(x[2] - x[1], x[2])
Cap(x) == RMin(RSubFrom1(cfg.eps), x)
Before == [x \in 1..cfg.major |-> [cn |-> <<cfg.normal, cfg.normal, Total>>, mu |-> <<cfg.eps, cfg.eps, Cap(Red(x, Total))>>]]
After == IF cfg.normal = Total THEN <<>> ELSE <<[cn |-> <<cfg.normal, Total, Total>>, mu |-> <<cfg.eps, cfg.eps, Cap(Red(1, Total))>>]>>
Genotypes == Before \o After
Weights(i) == LET f == Red(i, G - 1) IN <<RSubFrom1(cfg.t), RMul(cfg.t, RSubFrom1(f)), RMul(cfg.t, f)>>
Vaf(g, i) == LET w == Weights(i)
                 num == RAdd(RAdd(RMul(RMul(w[1], RInt(g.cn[1])), g.mu[1]), RMul(RMul(w[2], RInt(g.cn[2])), g.mu[2])), RMul(RMul(w[3], RInt(g.cn[3])), g.mu[3]))
                 den == RAdd(RAdd(RMul(w[1], RInt(g.cn[1])), RMul(w[2], RInt(g.cn[2]))), RMul(w[3], RInt(g.cn[3])))
             IN RDiv(num, den)
VafTable == [c \in 1..Len(Genotypes) |-> [i \in 1..G |-> Vaf(Genotypes[c], i - 1)]]
GenotypeCount == Valid => Len(Genotypes) = cfg.major + (IF cfg.normal = Total THEN 0 ELSE 1)
VafInUnit == Valid => \A c \in 1..Len(Genotypes) : \A i \in 1..G : LET v == VafTable[c][i] IN v[1] > 0 /\ v[1] < v[2]
\* at f = 0 no cell carries the variant: every genotype's expected allele fraction is the error rate
VafAtZero == Valid => \A c \in 1..Len(Genotypes) : REq(VafTable[c][1], cfg.eps)
Emit == (Dump /\ Valid) => PrintT(ToJson([cfg |-> cfg, genotypes |-> Genotypes, vaf |-> VafTable]))
=============================================================================
