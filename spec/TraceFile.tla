------------------------------- MODULE TraceFile -------------------------------
(***************************************************************************)
(* The trace file (process_trace.py: create_main_run_output and the        *)
(* readers of the summary commands).                                       *)
(*                                                                         *)
(* The writer streams one gzip member containing NObjects pickled objects  *)
(* (as implemented: 1, the whole results dictionary); the file after a     *)
(* crash is any prefix of the byte sequence                                *)
(*     header ++ object_1 ++ ... ++ object_N ++ trailer                    *)
(* where each object is ObjLen tokens ending in the pickle STOP token.     *)
(* The reader unpickles one object (as implemented) or, in the deviation   *)
(* ReadAll, objects until the data ends.  Read(prefix) is Error, or the    *)
(* set of objects obtained.  NoPartialResult: every prefix reads as Error  *)
(* or as ALL objects.  The model shows why it holds: a single top-level    *)
(* STOP at the very end of the payload; with several objects a prefix      *)
(* ending at an object boundary is a valid shorter result.                 *)
(***************************************************************************)
EXTENDS Naturals, Sequences, TLC
CONSTANTS NObjects, ObjLen, HeaderLen, TrailerLen,
          ReadAll,        \* FALSE as implemented (one pickle.load); TRUE = deviation: load objects until the stream ends
          TolerateEOF     \* FALSE as implemented; TRUE = deviation: an end-of-stream error ends the reading loop silently
VARIABLES written, crashed, readResult
vars == <<written, crashed, readResult>>
Total == HeaderLen + NObjects * ObjLen + TrailerLen
Init == written = 0 /\ crashed = FALSE /\ readResult = "none"
AppendByte == ~crashed /\ written < Total /\ written' = written + 1 /\ UNCHANGED <<crashed, readResult>>
Crash == ~crashed /\ crashed' = TRUE /\ UNCHANGED <<written, readResult>>
\* what a reader gets from the first `written` bytes
PayloadBytes == IF written <= HeaderLen THEN 0 ELSE IF written - HeaderLen > NObjects * ObjLen THEN NObjects * ObjLen ELSE written - HeaderLen
CompleteObjects == PayloadBytes \div ObjLen
Dangling == PayloadBytes % ObjLen # 0
HeaderOK == written >= HeaderLen
Read ==
  IF ~HeaderOK THEN "error"
  ELSE IF ~ReadAll THEN (IF CompleteObjects >= 1 THEN IF NObjects = 1 THEN "all" ELSE "partial" ELSE "error")
  ELSE IF CompleteObjects = NObjects /\ written = Total THEN "all"
       ELSE IF CompleteObjects = NObjects THEN (IF TolerateEOF THEN "all" ELSE "error")     \* trailer cut: gzip reports EOF
       ELSE IF TolerateEOF /\ CompleteObjects >= 1 THEN "partial"
       ELSE IF ~Dangling /\ CompleteObjects >= 1 /\ TolerateEOF THEN "partial"
       ELSE "error"
DoRead == (crashed \/ written = Total) /\ readResult = "none" /\ readResult' = Read /\ UNCHANGED <<written, crashed>>
Next == AppendByte \/ Crash \/ DoRead
NoPartialResult == readResult \in {"none", "error", "all"}
CompleteFileReadsAll == (readResult # "none" /\ written = Total) => readResult = "all"
=============================================================================
