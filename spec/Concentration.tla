--------------------------- MODULE Concentration ---------------------------
(***************************************************************************)
(* The Escobar-West auxiliary-variable update of the CRP concentration     *)
(* (phyclone/mcmc/concentration.py) as exact rational parameter wiring.    *)
(*                                                                         *)
(* Given a Gamma(a, b) prior, current value alpha, K clones holding n      *)
(* non-outlier data points and the auxiliary variable eta = exp(-L):       *)
(*    eta   ~ Beta(alpha + 1, n)                                           *)
(*    s = a + K - 1,  r = b - log(eta) = b + L                             *)
(*    pi / (1 - pi) = s / (n r)                                            *)
(*    new   ~ pi Gamma(s + 1, r) + (1 - pi) Gamma(s, r)                    *)
(* The mixture density is proportional to x^(s-1) (x + n) e^(-r x) exactly *)
(* when  n pi r = s (1 - pi)  (MixtureIdentity) - the algebraic content of *)
(* the property; the measure-theoretic step (this mixture + the Beta draw  *)
(* leave p(alpha | K, n) invariant) is the cited lemma.                    *)
(* Rationals are <<num, den>> (Rat.tla).                                   *)
(***************************************************************************)
EXTENDS Forests, Rat, Json
CONSTANTS As, Bs, Alphas, Ls,   \* sets of rationals
          MaxN,
          ExtraKN,              \* further <<K, n>> pairs beyond K <= n <= MaxN (hundreds of clones / data points)
          ShapeOffByOne,        \* deviation: s = a + K
          Dump
VARIABLE pt
Init == pt \in [a : As, b : Bs, alpha : Alphas, L : Ls, n : 1..MaxN, K : 1..MaxN]
              \cup {[a |-> x.a, b |-> x.b, alpha |-> x.alpha, L |-> x.L, n |-> e[2], K |-> e[1]] : x \in [a : As, b : Bs, alpha : Alphas, L : Ls], e \in ExtraKN}
Next == UNCHANGED pt
Valid == pt.K <= pt.n
S == LET k1 == IF ShapeOffByOne THEN pt.K ELSE pt.K - 1 IN RAdd(pt.a, RInt(k1))      \* shape of the lighter component
R == RAdd(pt.b, pt.L)                                                                  \* rate
X == RDiv(S, RMul(RInt(pt.n), R))
Pi == RDiv(X, RAdd(ROne, X))                                                            \* as the code computes it
OneMinusPi == RDiv(ROne, RAdd(ROne, X))
BetaParams == <<RAdd(pt.alpha, ROne), RInt(pt.n)>>
MixtureIdentity == Valid => REq(RMul(RMul(RInt(pt.n), Pi), R), RMul(RAdd(pt.a, RInt(pt.K - 1)), OneMinusPi))
PiIsProbability == Valid => (Pi[1] > 0 /\ Pi[1] < Pi[2])
Emit == (Dump /\ Valid) => PrintT(ToJson([a |-> pt.a, b |-> pt.b, alpha |-> pt.alpha, L |-> pt.L, n |-> pt.n, K |-> pt.K,
                                         beta_a |-> BetaParams[1], beta_b |-> BetaParams[2], shape |-> S, rate |-> R, pi |-> Pi]))
=============================================================================
