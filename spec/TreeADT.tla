------------------------------- MODULE TreeADT -------------------------------
(***************************************************************************)
(* Implementation-shaped model of phyclone.tree.Tree under the edit        *)
(* grammar the samplers compose.                                           *)
(*                                                                         *)
(* A tree object is a record                                               *)
(*   nodes  set of clone names (integers, allocated exactly as the code    *)
(*          does: create_root_node -> number of clones; graft relabel ->   *)
(*          max(all names)+1.. when the name is a key of _data)            *)
(*   par    name -> parent name or ROOT                                    *)
(*   dat    name -> set of data points held by the clone itself            *)
(*   outl   outlier data points                                            *)
(*   last   _last_node_added_to (name | OUT | NONE)                        *)
(*   dkeys  clone names that are keys of the _data dictionary              *)
(*   psig   name -> data set the cached log_p array was built from         *)
(*   rsig   name|ROOT -> symbolic signature [own, kids] of the subtree the *)
(*          cached log_r array was computed from                           *)
(* psig/rsig make cache staleness a state predicate: Fresh says every      *)
(* cached array corresponds to the current structure.  Graph index numbers *)
(* are abstracted; sibling order and pre-order choices are nondeterministic.*)
(*                                                                         *)
(* Two live objects: cur (the chain's tree) and sub (extracted subtree /   *)
(* tree under construction).  mode/pend encode the position inside one of  *)
(* the composite moves G1-G6 (SMC build, data-point move, prune-regraft,   *)
(* subtree extract-rebuild-reattach, relabel, dict round trip).            *)
(* act is a history variable (hidden by VIEW) naming the public method     *)
(* call and its arguments for the edge dump / replay.                      *)
(***************************************************************************)
EXTENDS Naturals, FiniteSets, Sequences, TLC, FiniteSetsExt, Json

CONSTANTS Data,                  \* set of data points (naturals)
          OutliersOn,
          DropUpdateOnRemoveDP,  \* deviation: remove_data_point_from_node refreshes from the parent only
          DropUpdateOnGraft,     \* deviation: add_subtree without the path-to-root update (and no full update by the caller)
          RelabelKeepsKeys,      \* deviation: graft never relabels clashing names
          HostEdits,             \* TRUE: the grammar also edits the host while an extracted subtree is alive (two live trees;
                                 \* the samplers never do this, library users and the harness's extract-then-edit histories do)
          SharedPayloads,        \* deviation: get_subtree hands out the host's own node payloads instead of copies
          MaxName,               \* bound on clone names (graft relabelling draws fresh names above the maximum)
          DumpEdges              \* print every labelled edge as JSON

ROOT == 99
OUT == 98
NONE == 97
VARIABLES cur, sub, mode, pend, act
vars == <<cur, sub, mode, pend, act>>
view == <<cur, sub, mode, pend>>

\* ---------------------------------------------------------------- tree records
EmptyTree == [nodes |-> {}, par |-> << >>, dat |-> << >>, outl |-> {}, last |-> NONE, dkeys |-> {},
              psig |-> << >>, rsig |-> (ROOT :> [own |-> {}, kids |-> {}])]
Kids(t, v) == {u \in t.nodes : t.par[u] = v}
RECURSIVE Desc(_, _)
Desc(t, v) == LET k == Kids(t, v) IN k \cup UNION {Desc(t, u) : u \in k}
Own(t, v) == IF v = ROOT THEN {} ELSE t.dat[v]
POwn(t, v) == IF v = ROOT THEN {} ELSE t.psig[v]
RECURSIVE TrueSig(_, _)
TrueSig(t, v) == [own |-> Own(t, v), kids |-> {TrueSig(t, u) : u \in Kids(t, v)}]
Placed(t) == UNION {t.dat[v] : v \in t.nodes} \cup t.outl
Top(t) == Kids(t, ROOT)
\* recompute v's cached recursion value from its cached own part and its children's cached values
Recomp(t, v) == [t EXCEPT !.rsig = (v :> [own |-> POwn(t, v), kids |-> {t.rsig[u] : u \in Kids(t, v)}]) @@ t.rsig]
RECURSIVE UpdatePath(_, _)
UpdatePath(t, v) == LET t1 == Recomp(t, v) IN IF v = ROOT THEN t1 ELSE UpdatePath(t1, t.par[v])
RECURSIVE UpdateAllFrom(_, _)
UpdateAllFrom(t, v) ==   \* post-order full update below v  (Tree.update)
  LET RECURSIVE Go(_, _)
      Go(tt, S) == IF S = {} THEN tt ELSE LET u == CHOOSE u \in S : TRUE IN Go(UpdateAllFrom(tt, u), S \ {u})
  IN Recomp(Go(t, Kids(t, v)), v)
UpdateAll(t) == UpdateAllFrom(t, ROOT)

\* ---------------------------------------------------------------- public methods as functions on records
CreateRootNode(t, S, D) ==
  LET name == Cardinality(t.nodes)
      t1 == [t EXCEPT !.nodes = @ \cup {name},
                      !.par = (name :> ROOT) @@ [u \in DOMAIN t.par |-> IF u \in S THEN name ELSE t.par[u]],
                      !.dat = (name :> D) @@ @, !.psig = (name :> D) @@ @,
                      !.last = name, !.dkeys = IF D = {} THEN @ ELSE @ \cup {name}]
  IN UpdatePath(t1, name)
AddDP(t, d, v) ==
  LET t1 == [t EXCEPT !.dat[v] = @ \cup {d}, !.psig[v] = @ \cup {d}, !.last = v, !.dkeys = @ \cup {v},
                      !.rsig[v] = [own |-> @.own \cup {d}, kids |-> @.kids]]
  IN UpdatePath(t1, t.par[v])
AddOut(t, d) == [t EXCEPT !.outl = @ \cup {d}, !.last = OUT]
RemDP(t, d, v) ==
  LET t1 == [t EXCEPT !.dat[v] = @ \ {d}, !.psig[v] = @ \ {d}]
  IN IF DropUpdateOnRemoveDP THEN UpdatePath(t1, t.par[v]) ELSE UpdatePath(t1, v)
RemOut(t, d) == [t EXCEPT !.outl = @ \ {d}]
Restr(f, S) == [x \in S |-> f[x]]
GetSubtree(t, r) ==
  IF r = ROOT THEN t
  ELSE LET NN == {r} \cup Desc(t, r)
           t1 == [nodes |-> NN, par |-> [u \in NN |-> IF u = r THEN ROOT ELSE t.par[u]], dat |-> Restr(t.dat, NN),
                  outl |-> {}, last |-> NONE, dkeys |-> NN, psig |-> Restr(t.psig, NN),
                  rsig |-> (ROOT :> [own |-> {}, kids |-> {}]) @@ Restr(t.rsig, NN)]
       IN UpdateAll(t1)
AbsKey(t) == <<{ UNION {t.dat[u] : u \in {v} \cup Desc(t, v)} : v \in t.nodes }, t.outl>>
RemoveSubtree(t, s) ==
  IF AbsKey(s) = AbsKey(t) THEN EmptyTree
  ELSE LET r == CHOOSE r \in s.nodes : s.par[r] = ROOT
           NN == {r} \cup Desc(t, r)
           p == t.par[r]
           K == t.nodes \ NN
           t1 == [t EXCEPT !.nodes = K, !.par = Restr(t.par, K), !.dat = Restr(t.dat, K), !.psig = Restr(t.psig, K),
                           !.rsig = Restr(t.rsig, K \cup {ROOT}), !.dkeys = @ \ s.nodes]
       IN UpdatePath(t1, p)
MaxOf(S) == IF S = {} THEN 0 ELSE Max(S)
\* graft with relabelling: the code walks the grafted nodes in graph-index order and gives every node whose name is
\* already a key of _data the next fresh name above max(all names); the walk order is abstracted (any injective
\* assignment of the fresh range to the clashing names)
Clash(t, s) == IF RelabelKeepsKeys THEN {} ELSE {v \in s.nodes : v \in t.dkeys}
Renamings(t, s) == LET C == Clash(t, s)  first == MaxOf(t.nodes \cup s.nodes \cup {0})
                       New == (first + 1)..(first + Cardinality(C))
                   IN {f \in [C -> New] : \A a, b \in C : a # b => f[a] # f[b]}
AddSubtree(t, s, parent, ren) ==
  LET nm(v) == IF v \in DOMAIN ren THEN ren[v] ELSE v
      SN == {nm(v) : v \in s.nodes}
      inv(w) == CHOOSE v \in s.nodes : nm(v) = w
      t1 == [t EXCEPT !.nodes = @ \cup SN,
                      !.par = [w \in SN |-> IF s.par[inv(w)] = ROOT THEN parent ELSE nm(s.par[inv(w)])] @@ @,
                      !.dat = [w \in SN |-> s.dat[inv(w)]] @@ @,
                      !.psig = [w \in SN |-> s.psig[inv(w)]] @@ @,
                      !.rsig = [w \in SN |-> s.rsig[inv(w)]] @@ @,
                      !.dkeys = @ \cup SN, !.last = s.last]
  IN IF DropUpdateOnGraft THEN t1 ELSE UpdatePath(t1, parent)
Preorders(t) ==   \* all bijections nodes -> 0..K-1 that are pre-order numberings (sibling order free)
  LET K == Cardinality(t.nodes)
      Size(v) == 1 + Cardinality(Desc(t, v))
  IN {f \in [t.nodes -> 0..(K - 1)] :
        /\ \A a, b \in t.nodes : a # b => f[a] # f[b]
        /\ \A v \in t.nodes : {f[u] : u \in {v} \cup Desc(t, v)} = f[v]..(f[v] + Size(v) - 1)}
Relabel(t, f) ==
  LET inv(w) == CHOOSE v \in t.nodes : f[v] = w
      NN == {f[v] : v \in t.nodes}
  IN [t EXCEPT !.nodes = NN, !.par = [w \in NN |-> IF t.par[inv(w)] = ROOT THEN ROOT ELSE f[t.par[inv(w)]]],
               !.dat = [w \in NN |-> t.dat[inv(w)]], !.psig = [w \in NN |-> t.psig[inv(w)]],
               !.rsig = (ROOT :> t.rsig[ROOT]) @@ [w \in NN |-> t.rsig[inv(w)]], !.dkeys = NN]
\* to_dict / from_dict: structure preserved, every cached array rebuilt from the data lists
DictRoundTrip(t) == UpdateAll([t EXCEPT !.psig = t.dat])

\* ---------------------------------------------------------------- invariants
WellFormed(t) ==
  /\ DOMAIN t.par = t.nodes /\ DOMAIN t.dat = t.nodes /\ DOMAIN t.psig = t.nodes /\ DOMAIN t.rsig = t.nodes \cup {ROOT}
  /\ \A v \in t.nodes : t.par[v] \in t.nodes \cup {ROOT} /\ v \notin Desc(t, v)
  /\ {ROOT} \cup Desc(t, ROOT) = t.nodes \cup {ROOT}            \* every clone reachable from the virtual root
  /\ \A a, b \in t.nodes : a # b => t.dat[a] \cap t.dat[b] = {}
  /\ \A a \in t.nodes : t.dat[a] \cap t.outl = {}
  /\ \A a \in t.nodes : t.dat[a] # {} => a \in t.dkeys
Fresh(t) == /\ \A v \in t.nodes : t.psig[v] = t.dat[v]
            /\ \A v \in t.nodes \cup {ROOT} : t.rsig[v] = TrueSig(t, v)
InvWF == WellFormed(cur) /\ WellFormed(sub)
InvFresh == Fresh(cur) /\ Fresh(sub)
\* data conservation: outside a composite move the chain's tree holds every data point exactly once;
\* inside one, the data are split between cur, sub and the pending point
Held(t) == Placed(t)
InvConserved ==
  CASE mode = "idle" -> Held(cur) = Data
    [] mode = "build" -> Held(cur) \subseteq Data
    [] mode = "dp" -> Held(cur) \cup {pend.p} = Data /\ pend.p \notin Held(cur)
    [] mode \in {"prg1", "prgx"} -> Held(cur) = Data
    [] mode \in {"prg2", "sub2", "sub3"} -> Held(cur) \cup Held(sub) = Data /\ Held(cur) \cap Held(sub) = {}
    [] mode = "sub1" -> Held(cur) = Data
    [] mode = "subbuild" -> Held(cur) \cup pend.D = Data /\ Held(cur) \cap pend.D = {} /\ Held(sub) \subseteq pend.D
    [] OTHER -> TRUE
\* the abstract identity (clades, outliers) is a function of (par, dat, outl) only - names never matter
NamesUnique == Cardinality(cur.nodes) = Cardinality(DOMAIN cur.par)

\* ---------------------------------------------------------------- grammar
NoPend == [p |-> NONE, D |-> {}]
NoAct == [name |-> "init"]
Init == cur = EmptyTree /\ sub = EmptyTree /\ mode = "build" /\ pend = NoPend /\ act = NoAct
\* G1  SMC-style building over data set D
BuildStepActs(t, D) ==
  {[t2 |-> AddDP(t, d, r), a |-> [name |-> "add_dp", d |-> d, node |-> r]] : d \in D \ Placed(t), r \in Top(t)}
  \cup {[t2 |-> CreateRootNode(t, S, {d}), a |-> [name |-> "create_root", d |-> d, kids |-> S]] : d \in D \ Placed(t), S \in SUBSET Top(t)}
  \cup (IF OutliersOn THEN {[t2 |-> AddOut(t, d), a |-> [name |-> "add_out", d |-> d]] : d \in D \ Placed(t)} ELSE {})
Build == /\ mode = "build" /\ Placed(cur) # Data
         /\ \E e \in BuildStepActs(cur, Data) : cur' = e.t2 /\ act' = [e.a EXCEPT !.name = "build_" \o @]
         /\ UNCHANGED <<sub, pend>>
         /\ mode' = IF Placed(cur') = Data THEN "idle" ELSE "build"
\* G2  data-point move
DPRemove == /\ mode = "idle"
            /\ \/ \E v \in cur.nodes : \E d \in cur.dat[v] : Cardinality(cur.dat[v]) > 1 /\ cur' = RemDP(cur, d, v)
                      /\ pend' = [p |-> d, D |-> {}] /\ act' = [name |-> "dp_remove", d |-> d, node |-> v]
               \/ \E d \in cur.outl : cur' = RemOut(cur, d) /\ pend' = [p |-> d, D |-> {}] /\ act' = [name |-> "dp_remove_out", d |-> d]
            /\ mode' = "dp" /\ UNCHANGED sub
DPAdd == /\ mode = "dp"
         /\ \/ \E v \in cur.nodes : cur' = AddDP(cur, pend.p, v) /\ act' = [name |-> "dp_add", d |-> pend.p, node |-> v]
            \/ OutliersOn /\ cur' = AddOut(cur, pend.p) /\ act' = [name |-> "dp_add_out", d |-> pend.p]
         /\ mode' = "idle" /\ pend' = NoPend /\ UNCHANGED sub
\* G3  prune / regraft
PrgGet == /\ mode = "idle" /\ \E r \in cur.nodes : sub' = GetSubtree(cur, r) /\ pend' = [p |-> cur.par[r], D |-> {}]
                                 /\ act' = [name |-> "get_subtree", node |-> r]
          /\ mode' = "prg1" /\ UNCHANGED cur
PrgRemove == /\ mode = "prg1" /\ cur' = RemoveSubtree(cur, sub) /\ mode' = "prg2" /\ UNCHANGED <<sub, pend>>
             /\ act' = [name |-> "remove_subtree"]
PrgAdd == /\ mode = "prg2"
          /\ \E p \in cur.nodes \cup {ROOT} : \E ren \in Renamings(cur, sub) :
                 /\ cur' = UpdateAll(AddSubtree(cur, sub, p, ren))
                 /\ act' = [name |-> "add_subtree_update", parent |-> p]
          /\ sub' = EmptyTree /\ pend' = NoPend /\ mode' = "idle"
\* G3'  two live trees: a data point is moved inside the host while the extracted subtree is alive; the subtree is then dropped.
\* As implemented the extracted subtree owns copies of the node payloads and is unaffected; with SharedPayloads the own-data
\* term of a clone both trees contain changes under the subtree's feet (its path to the root is not refreshed).
PrgEditHost == /\ HostEdits /\ mode = "prg1"
               /\ \E a \in cur.nodes : \E b \in cur.nodes \ {a} : \E d \in cur.dat[a] :
                     /\ Cardinality(cur.dat[a]) > 1
                     /\ cur' = AddDP(RemDP(cur, d, a), d, b)
                     /\ sub' = IF SharedPayloads
                               THEN [sub EXCEPT !.psig = [v \in sub.nodes |-> IF v = a THEN sub.psig[v] \ {d} ELSE IF v = b THEN sub.psig[v] \cup {d} ELSE sub.psig[v]]]
                               ELSE sub
                     /\ act' = [name |-> "host_move_dp", d |-> d, from |-> a, to |-> b]
               /\ mode' = "prgx" /\ UNCHANGED pend
PrgDrop == /\ mode = "prgx" /\ sub' = EmptyTree /\ pend' = NoPend /\ mode' = "idle" /\ act' = [name |-> "drop_subtree"] /\ UNCHANGED cur
\* G4  subtree resampling: extract below parent-of-a-clone, hand outliers over, rebuild by SMC, reattach
SubGet == /\ mode = "idle" /\ \E c \in cur.nodes : LET sr == cur.par[c] IN
               /\ sub' = GetSubtree(cur, sr)
               /\ pend' = [p |-> IF sr = ROOT THEN ROOT ELSE cur.par[sr], D |-> {}]
               /\ act' = [name |-> "sub_get", node |-> sr]
          /\ mode' = "sub1" /\ UNCHANGED cur
SubRemove == /\ mode = "sub1" /\ cur' = RemoveSubtree(cur, sub)
             /\ mode' = "sub2" /\ UNCHANGED <<sub, pend>> /\ act' = [name |-> "remove_subtree"]
SubOutliers == /\ mode = "sub2"
               /\ LET O == cur.outl IN cur' = [cur EXCEPT !.outl = {}] /\ sub' = [sub EXCEPT !.outl = @ \cup O, !.last = IF O = {} THEN @ ELSE OUT]
               /\ mode' = "sub3" /\ UNCHANGED pend /\ act' = [name |-> "sub_outliers"]
SubRebuildStart == /\ mode = "sub3" /\ sub' = EmptyTree /\ pend' = [p |-> pend.p, D |-> Placed(sub)]
                   /\ mode' = "subbuild" /\ UNCHANGED cur /\ act' = [name |-> "sub_rebuild_start"]
SubBuild == /\ mode = "subbuild" /\ Placed(sub) # pend.D
            /\ \E e \in BuildStepActs(sub, pend.D) : sub' = e.t2 /\ act' = [e.a EXCEPT !.name = "subbuild_" \o @]
            /\ UNCHANGED <<cur, pend, mode>>
SubAttach == /\ mode = "subbuild" /\ Placed(sub) = pend.D
             /\ LET p == pend.p
                    body == [sub EXCEPT !.outl = {}]
                IN \E ren \in Renamings(cur, body) :
                     cur' = UpdateAll([AddSubtree(cur, body, p, ren) EXCEPT !.outl = @ \cup sub.outl,
                                                                           !.last = IF sub.outl = {} THEN @ ELSE OUT])
             /\ sub' = EmptyTree /\ pend' = NoPend /\ mode' = "idle" /\ act' = [name |-> "sub_attach", parent |-> pend.p]
\* G5 / G6
RelabelNodes == /\ mode = "idle" /\ \E f \in Preorders(cur) : cur' = Relabel(cur, f) /\ UNCHANGED <<sub, mode, pend>>
                /\ act' = [name |-> "relabel_nodes"]
RoundTrip == /\ mode = "idle" /\ cur' = DictRoundTrip(cur) /\ UNCHANGED <<sub, mode, pend>> /\ act' = [name |-> "dict_round_trip"]
Next == Build \/ DPRemove \/ DPAdd \/ PrgGet \/ PrgRemove \/ PrgAdd \/ PrgEditHost \/ PrgDrop \/ SubGet \/ SubRemove \/ SubOutliers
        \/ SubRebuildStart \/ SubBuild \/ SubAttach \/ RelabelNodes \/ RoundTrip
NameBound == \A v \in cur.nodes \cup sub.nodes : v <= MaxName
Spec == Init /\ [][Next]_vars

\* ---------------------------------------------------------------- JSON projection (what the harness can observe of a real Tree)
Pairs(f) == {<<k, f[k]>> : k \in DOMAIN f}
ProjTree(t) == [nodes |-> t.nodes, par |-> Pairs(t.par), dat |-> Pairs(t.dat), outl |-> t.outl, last |-> t.last, dkeys |-> t.dkeys]
ProjState(c, s, m, p) == [cur |-> ProjTree(c), sub |-> ProjTree(s), mode |-> m, pend |-> p]
EdgeDump == DumpEdges => PrintT(ToJson([src |-> ProjState(cur, sub, mode, pend), act |-> act',
                                        dst |-> ProjState(cur', sub', mode', pend')]))
=============================================================================
