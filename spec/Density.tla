------------------------------ MODULE Density ------------------------------
(***************************************************************************)
(* The forest-structured CRP joint density of a clone tree, written from   *)
(* the model - independently of phyclone/tree/distributions.py - as an     *)
(* exact symbolic record of the abstract state (clades, outliers) only:    *)
(*                                                                         *)
(*  K            number of clones                    -> K * log(alpha)     *)
(*  sizes        clone -> number of own data points  -> sum log (size-1)!  *)
(*  roots        number of top-level clones r                              *)
(*  topsub       top-level clone -> #clones m in its subtree               *)
(*                 fixed-root form: - sum (m-1) log m                      *)
(*                                  - (r-1) log C - log sum_{j<r} C^-j     *)
(*                 marginal form:   - (K-1) log (K+1)                      *)
(*  kidcounts    node (incl. virtual root) -> #children -> - sum log(c!)   *)
(*  outliers / placed : data points paying log p resp. log(1-p) (times     *)
(*                 cluster size), outliers also contribute their           *)
(*                 single-clone marginal likelihood                        *)
(*  the data term is the grid marginal of GridRec for the same forest.     *)
(*                                                                         *)
(* Clone identity is the clade, so the record cannot depend on labelling,  *)
(* sibling order or construction history (LabelFree below is the TLC-      *)
(* checked statement that two forests with equal records of structure are  *)
(* related by a relabelling of data-free structure).                       *)
(***************************************************************************)
EXTENDS Forests, Json
CONSTANTS N, OutliersOn, Dump,
          Starts          \* {} : every forest on 0..N-1 (grown from the empty one); otherwise exactly these forests
Data == 0..(N - 1)
VARIABLE st
Init == IF Starts = {} THEN st = Empty ELSE st \in Starts
Next == IF Starts = {} THEN \E d \in Data \ DataOf(st) : st' \in InsertAny(st, d, OutliersOn) ELSE UNCHANGED st

Sizes(s)     == {<<c, Cardinality(Own(s.f, c))>> : c \in s.f}
TopSub(s)    == {<<c, SubtreeClones(s.f, c)>> : c \in Roots(s.f)}
KidCounts(s) == {<<c, Cardinality(KidsOf(s.f, c))>> : c \in s.f} \cup {<<{}, Cardinality(Roots(s.f))>>}
Feat(s) == [K |-> Cardinality(s.f), roots |-> Cardinality(Roots(s.f)), sizes |-> Sizes(s), topsub |-> TopSub(s),
            kidcounts |-> KidCounts(s), outliers |-> s.o, placed |-> UNION s.f]
\* sanity relations between the features (what makes the formula well-defined)
FeatConsistent ==
  LET f == Feat(st) IN
  /\ FoldSet(LAMBDA p, acc : p[2] + acc, 0, f.sizes) = Cardinality(f.placed)
  /\ FoldSet(LAMBDA p, acc : p[2] + acc, 0, f.topsub) = f.K
  /\ FoldSet(LAMBDA p, acc : p[2] + acc, 0, f.kidcounts) = f.K           \* every clone is somebody's child
  /\ \A p \in f.sizes : p[2] >= 1
  /\ f.placed \cap f.outliers = {} /\ f.placed \cup f.outliers = DataOf(st)
Emit == Dump => PrintT(ToJson([st |-> st, feat |-> Feat(st)]))
=============================================================================
