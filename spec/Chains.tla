-------------------------------- MODULE Chains --------------------------------
(***************************************************************************)
(* The multi-chain run (phyclone/run.py: run): one seeded generator, one   *)
(* spawned child stream per chain, worker processes executing the chains   *)
(* in any interleaving and finishing in any order, results collected into  *)
(* a dictionary keyed by chain number.                                     *)
(*                                                                         *)
(* A stream is identified by (seed, child index); a draw is the pair       *)
(* (stream, position).  A chain's trace is the sequence of draws it        *)
(* consumed (everything it computes is a function of its draws and of the  *)
(* read-only input).  ScheduleIndependence: when all chains are done,      *)
(* results[c] is exactly <<(c,1), ..., (c,Steps)>> - whatever the          *)
(* interleaving and completion order; KeyedByChain: the collected          *)
(* dictionary maps every chain number to that chain's result.              *)
(* Before any chain starts the loader may draw from the parent generator   *)
(* (PreDraws draws: the permutation test of --assign-loss-prob).  A single *)
(* chain (K = 1) continues on the parent stream after those draws, as      *)
(* run() passes the parent generator itself; spawned children (K > 1) do   *)
(* not depend on how far the parent stream was consumed.                   *)
(* Deviations: SharedStream (all chains draw from the parent generator),   *)
(* StreamPerWorker (streams assigned per worker slot, W < K workers),      *)
(* LazyLoad (the loader's draws happen concurrently with the chains).      *)
(***************************************************************************)
EXTENDS Naturals, Sequences, FiniteSets, TLC
CONSTANTS K,             \* chains 0..K-1
          Steps,         \* draws per chain
          W,             \* worker slots (processes that can run at once)
          PreDraws,      \* draws the loader takes from the parent generator before the chains exist
          SharedStream, StreamPerWorker, LazyLoad
Chain == 0..(K - 1)
Main == K + 100        \* identifier of the parent stream
VARIABLES pos,       \* per stream: next position
          trace,     \* per chain: draws consumed so far
          running,   \* set of chains currently on a worker
          done,      \* sequence of chain numbers in completion order
          results,   \* function chain -> trace, filled at completion
          loaded     \* number of loader draws taken so far
vars == <<pos, trace, running, done, results, loaded>>
StreamOf(c) == IF SharedStream \/ K = 1 THEN Main ELSE IF StreamPerWorker THEN c % W ELSE c
Streams == {StreamOf(c) : c \in Chain} \cup {Main}
Init == /\ pos = [s \in Streams |-> 1] /\ trace = [c \in Chain |-> <<>>]
        /\ running = {} /\ done = <<>> /\ results = << >> /\ loaded = 0
\* load_data: the loader's draws come first (unless LazyLoad)
Load == /\ loaded < PreDraws
        /\ pos' = [pos EXCEPT ![Main] = @ + 1] /\ loaded' = loaded + 1
        /\ UNCHANGED <<trace, running, done, results>>
Loaded == LazyLoad \/ loaded = PreDraws
Finished == {done[j] : j \in 1..Len(done)}
Start(c) == /\ Loaded /\ c \notin running /\ c \notin Finished /\ trace[c] = <<>> /\ Cardinality(running) < W
            /\ running' = running \cup {c} /\ UNCHANGED <<pos, trace, done, results, loaded>>
Step(c) == /\ c \in running /\ Len(trace[c]) < Steps
           /\ LET s == StreamOf(c) IN
                /\ trace' = [trace EXCEPT ![c] = Append(@, <<s, pos[s]>>)]
                /\ pos' = [pos EXCEPT ![s] = @ + 1]
           /\ UNCHANGED <<running, done, results, loaded>>
Finish(c) == /\ c \in running /\ Len(trace[c]) = Steps
             /\ running' = running \ {c} /\ done' = Append(done, c)
             /\ results' = (c :> trace[c]) @@ results
             /\ UNCHANGED <<pos, trace, loaded>>
Next == Load \/ \E c \in Chain : Start(c) \/ Step(c) \/ Finish(c)
AllDone == Len(done) = K /\ loaded = PreDraws
Expected(c) == IF K = 1 THEN [j \in 1..Steps |-> <<Main, PreDraws + j>>] ELSE [j \in 1..Steps |-> <<c, j>>]
ScheduleIndependence == AllDone => \A c \in Chain : results[c] = Expected(c)
KeyedByChain == \A c \in DOMAIN results : c \in Chain /\ Len(results[c]) = Steps
NoSharedDraw == \A c1, c2 \in Chain : c1 # c2 => \A i \in 1..Len(trace[c1]), j \in 1..Len(trace[c2]) : trace[c1][i] # trace[c2][j]
=============================================================================
