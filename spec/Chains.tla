-------------------------------- MODULE Chains --------------------------------
(***************************************************************************)
(* The multi-chain run (phyclone/run.py: run): one seeded generator, one   *)
(* spawned child stream per chain, worker processes executing the chains   *)
(* in any interleaving and finishing in any order, results collected into  *)
(* a dictionary keyed by chain number.                                     *)
(*                                                                         *)
(* A stream is identified by (seed, child index); a draw is the pair       *)
(* (stream, position).  A chain's trace is the sequence of draws it        *)
(* consumed (everything it computes is a function of its draws and of the  *)
(* read-only input).  ScheduleIndependence: when all chains are done,      *)
(* results[c] is exactly <<(c,1), ..., (c,Steps)>> - whatever the          *)
(* interleaving and completion order; KeyedByChain: the collected          *)
(* dictionary maps every chain number to that chain's result.              *)
(* Before any chain starts the loader may draw from the parent generator   *)
(* (PreDraws draws: the permutation test of --assign-loss-prob).  A single *)
(* chain (K = 1) continues on the parent stream after those draws, as      *)
(* run() passes the parent generator itself; spawned children (K > 1) do   *)
(* not depend on how far the parent stream was consumed.                   *)
(* Worker processes carry process-global memo tables: a chain that starts   *)
(* in a process which already executed another chain sees them warm.  The  *)
(* executor gives a queued chain to any free worker, so this can happen    *)
(* even with as many workers as chains.  ColdStartPerChain (the chain      *)
(* clears the tables when it starts) makes the chain's result independent  *)
(* of that; without it such a chain is "tainted" (finding F16).            *)
(* RaceChoice: a numerical routine chosen by timing two alternatives at    *)
(* run time makes a chain's result depend on an outcome the seed does not  *)
(* determine (modelled as a free choice when the chain starts).            *)
(* Deviations: SharedStream (all chains draw from the parent generator),   *)
(* StreamPerWorker (streams assigned per worker slot, W < K workers),      *)
(* LazyLoad (the loader's draws happen concurrently with the chains).      *)
(***************************************************************************)
EXTENDS Naturals, Sequences, FiniteSets, TLC
CONSTANTS K,             \* chains 0..K-1
          Steps,         \* draws per chain
          W,             \* worker slots (processes that can run at once)
          PreDraws,      \* draws the loader takes from the parent generator before the chains exist
          SharedStream, StreamPerWorker, LazyLoad,
          ColdStartPerChain, \* TRUE: run_phyclone_chain clears the process-global memo tables first (as fixed); FALSE: deviation
          RaceChoice         \* FALSE as implemented (the convolution routine is fixed by the grid size); TRUE: chosen by a timing race
Chain == 0..(K - 1)
Main == K + 100        \* identifier of the parent stream
VARIABLES pos,       \* per stream: next position
          trace,     \* per chain: draws consumed so far
          running,   \* set of chains currently on a worker
          done,      \* sequence of chain numbers in completion order
          results,   \* function chain -> trace, filled at completion
          loaded,    \* number of loader draws taken so far
          slot,      \* chain -> worker process executing it (0 = none yet)
          used,      \* worker processes that have executed a chain
          tainted,   \* chains that started on warm process-global tables
          routine    \* chain -> numerical routine in use ("fixed", or the winner of a race)
vars == <<pos, trace, running, done, results, loaded, slot, used, tainted, routine>>
StreamOf(c) == IF SharedStream \/ K = 1 THEN Main ELSE IF StreamPerWorker THEN c % W ELSE c
Streams == {StreamOf(c) : c \in Chain} \cup {Main}
Init == /\ pos = [s \in Streams |-> 1] /\ trace = [c \in Chain |-> <<>>]
        /\ running = {} /\ done = <<>> /\ results = << >> /\ loaded = 0
        /\ slot = [c \in Chain |-> 0] /\ used = {} /\ tainted = {} /\ routine = [c \in Chain |-> "fixed"]
\* load_data: the loader's draws come first (unless LazyLoad)
Load == /\ loaded < PreDraws
        /\ pos' = [pos EXCEPT ![Main] = @ + 1] /\ loaded' = loaded + 1
        /\ UNCHANGED <<trace, running, done, results, slot, used, tainted, routine>>
Loaded == LazyLoad \/ loaded = PreDraws
Finished == {done[j] : j \in 1..Len(done)}
Start(c) == /\ Loaded /\ c \notin running /\ c \notin Finished /\ trace[c] = <<>> /\ Cardinality(running) < W
            /\ \E w \in 1..W \ {slot[d] : d \in running} :                  \* any free worker process takes the chain
                   /\ slot' = [slot EXCEPT ![c] = w]
                   /\ used' = used \cup {w}
                   /\ tainted' = (IF w \in used /\ ~ColdStartPerChain THEN tainted \cup {c} ELSE tainted)
            /\ \E r \in (IF RaceChoice THEN {"fixed", "other"} ELSE {"fixed"}) : routine' = [routine EXCEPT ![c] = r]
            /\ running' = running \cup {c} /\ UNCHANGED <<pos, trace, done, results, loaded>>
Step(c) == /\ c \in running /\ Len(trace[c]) < Steps
           /\ LET s == StreamOf(c) IN
                /\ trace' = [trace EXCEPT ![c] = Append(@, <<s, pos[s]>>)]
                /\ pos' = [pos EXCEPT ![s] = @ + 1]
           /\ UNCHANGED <<running, done, results, loaded, slot, used, tainted, routine>>
Finish(c) == /\ c \in running /\ Len(trace[c]) = Steps
             /\ running' = running \ {c} /\ done' = Append(done, c)
             /\ results' = (c :> trace[c]) @@ results
             /\ UNCHANGED <<pos, trace, loaded, slot, used, tainted, routine>>
Next == Load \/ \E c \in Chain : Start(c) \/ Step(c) \/ Finish(c)
AllDone == Len(done) = K /\ loaded = PreDraws
Expected(c) == IF K = 1 THEN [j \in 1..Steps |-> <<Main, PreDraws + j>>] ELSE [j \in 1..Steps |-> <<c, j>>]
ScheduleIndependence == AllDone => \A c \in Chain : results[c] = Expected(c) /\ c \notin tainted /\ routine[c] = "fixed"
KeyedByChain == \A c \in DOMAIN results : c \in Chain /\ Len(results[c]) = Steps
NoSharedDraw == \A c1, c2 \in Chain : c1 # c2 => \A i \in 1..Len(trace[c1]), j \in 1..Len(trace[c2]) : trace[c1][i] # trace[c2][j]
=============================================================================
