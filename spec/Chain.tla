-------------------------------- MODULE Chain --------------------------------
(***************************************************************************)
(* The chain driver (phyclone/run.py: run_phyclone_chain, _run_burnin,     *)
(* _run_main_sampler) as a state machine, one action per step of the loop: *)
(*                                                                         *)
(*  burn-in iteration : clear caches ; unconditional SMC ; data-point      *)
(*                      moves x ndp ; prune-regraft x nprg ; relabel ;     *)
(*                      time check (elapsed > max_time -> leave burn-in)   *)
(*  setup_trace       : the post-burn-in state is recorded with iter 0     *)
(*  main iteration i  : clear caches ; subtree OR whole-tree particle      *)
(*                      Gibbs (u < subtree_update_prob) ; dp x ndp ;       *)
(*                      prg x nprg ; relabel ; concentration update if     *)
(*                      enabled ; append entry if i % thin = 0 ;           *)
(*                      time check (elapsed >= max_time -> stop)           *)
(*                                                                         *)
(* Abstract data: treeVer counts tree-changing sampler calls, alphaVer     *)
(* counts concentration updates, cacheVers is the set of alpha versions    *)
(* under which entries now in the proposal caches were computed.  The      *)
(* timer is abstracted to "has any timed block completed" (elapsedPos),    *)
(* enough to decide comparisons with max_time in {0, infinity}; a finite
(* positive limit ("finite") may expire at any time check after the first. *)            *)
(* The option record is a variable chosen at Init so that one TLC run      *)
(* covers the cross-product and traces can carry their own options.        *)
(***************************************************************************)
EXTENDS Naturals, Sequences, TLC

CONSTANTS Options,          \* set of option records
          ClearEachIteration, \* TRUE as implemented; FALSE = deviation (caches never cleared)
          InterruptibleSMC    \* deviation: a from-scratch SMC pass of the burn-in may stop when a finite time limit is used
                              \* up, leaving a tree over the first few data points (no later move adds the missing ones)

VARIABLES opt, phase, i, pc, k, alphaVer, treeVer, cacheVers, elapsedPos, trace, ev,
          whole               \* the chain's tree holds every data point (as implemented: always, every SMC pass runs to its end)
vars == <<opt, phase, i, pc, k, alphaVer, treeVer, cacheVers, elapsedPos, trace, ev, whole>>
view == <<opt, phase, i, pc, k, alphaVer, treeVer, cacheVers, elapsedPos, trace, whole>>

Entry(it) == [iter |-> it, alphaVer |-> alphaVer, treeVer |-> treeVer, whole |-> whole]

Init == /\ opt \in Options
        /\ phase = IF opt.burnin > 0 THEN "burnin" ELSE "setup"
        /\ i = 0 /\ pc = "clear" /\ k = 0 /\ alphaVer = 0 /\ treeVer = 0 /\ cacheVers = {}
        /\ elapsedPos = FALSE /\ trace = <<>> /\ ev = [name |-> "init"] /\ whole = TRUE

InLoop == phase \in {"burnin", "main"}
\* ---- steps common to both loops
Clear == /\ InLoop /\ pc = "clear"
         /\ cacheVers' = IF ClearEachIteration THEN {} ELSE cacheVers
         /\ pc' = "smc" /\ ev' = [name |-> "clear_caches"]
         /\ UNCHANGED <<whole, opt, phase, i, k, alphaVer, treeVer, elapsedPos, trace>>
SMC == /\ InLoop /\ pc = "smc"
       /\ \E s \in (IF phase = "burnin" THEN {"burnin"}
                    ELSE CASE opt.sub = "never" -> {"tree"} [] opt.sub = "always" -> {"subtree"} [] OTHER -> {"tree", "subtree"}) :
            ev' = [name |-> "sample_tree", sampler |-> s]
       /\ treeVer' = treeVer + 1 /\ cacheVers' = cacheVers \cup {alphaVer}
       /\ pc' = "dp" /\ k' = opt.ndp
       /\ whole' \in (IF InterruptibleSMC /\ phase = "burnin" /\ opt.tmax # "inf" THEN {whole, FALSE} ELSE {whole})
       /\ UNCHANGED <<opt, phase, i, alphaVer, elapsedPos, trace>>
DP == /\ InLoop /\ pc = "dp"
      /\ IF k > 0 THEN /\ treeVer' = treeVer + 1 /\ k' = k - 1 /\ pc' = "dp" /\ ev' = [name |-> "sample_tree", sampler |-> "dp"]
                  ELSE /\ pc' = "prg" /\ k' = opt.nprg /\ ev' = [name |-> "skip"] /\ UNCHANGED treeVer
      /\ UNCHANGED <<whole, opt, phase, i, alphaVer, cacheVers, elapsedPos, trace>>
PRG == /\ InLoop /\ pc = "prg"
       /\ IF k > 0 THEN /\ treeVer' = treeVer + 1 /\ k' = k - 1 /\ pc' = "prg" /\ ev' = [name |-> "sample_tree", sampler |-> "prg"]
                   ELSE /\ pc' = "relabel" /\ k' = 0 /\ ev' = [name |-> "skip"] /\ UNCHANGED treeVer
       /\ UNCHANGED <<whole, opt, phase, i, alphaVer, cacheVers, elapsedPos, trace>>
Relabel == /\ InLoop /\ pc = "relabel"
           /\ pc' = IF phase = "burnin" THEN "time" ELSE "conc"
           /\ ev' = [name |-> "relabel"]
           /\ UNCHANGED <<whole, opt, phase, i, k, alphaVer, treeVer, cacheVers, elapsedPos, trace>>
\* ---- burn-in only: time check inside the timed block, then the block exits (elapsed becomes positive)
BurninTime == /\ phase = "burnin" /\ pc = "time"
              /\ \E stop \in IF (opt.tmax = "zero" /\ elapsedPos) \/ (i + 1 >= opt.burnin) THEN {TRUE}
                                 ELSE IF opt.tmax = "finite" /\ elapsedPos THEN {TRUE, FALSE} ELSE {FALSE} :
                   /\ phase' = IF stop THEN "setup" ELSE "burnin"
                   /\ i' = IF stop THEN 0 ELSE i + 1
              /\ pc' = "clear" /\ elapsedPos' \in {TRUE, elapsedPos}
              /\ ev' = [name |-> "skip"]
              /\ UNCHANGED <<whole, opt, k, alphaVer, treeVer, cacheVers, trace>>
\* ---- setup_trace: the post-burn-in state is recorded first, with iter 0
Setup == /\ phase = "setup"
         /\ trace' = Append(trace, Entry(0))
         /\ phase' = IF opt.iters > 0 THEN "main" ELSE "done"
         /\ i' = 0 /\ pc' = "clear" /\ ev' = [name |-> "append", iter |-> 0]
         /\ UNCHANGED <<whole, opt, k, alphaVer, treeVer, cacheVers, elapsedPos>>
\* ---- main only
Conc == /\ phase = "main" /\ pc = "conc"
        /\ IF opt.conc THEN alphaVer' = alphaVer + 1 /\ ev' = [name |-> "conc_update"]
                       ELSE UNCHANGED alphaVer /\ ev' = [name |-> "skip"]
        /\ pc' = "append"
        /\ UNCHANGED <<whole, opt, phase, i, k, treeVer, cacheVers, elapsedPos, trace>>
AppendStep == /\ phase = "main" /\ pc = "append"
              /\ IF i % opt.thin = 0 THEN trace' = Append(trace, Entry(i)) /\ ev' = [name |-> "append", iter |-> i]
                                     ELSE UNCHANGED trace /\ ev' = [name |-> "skip"]
              /\ pc' = "time"
              /\ UNCHANGED <<whole, opt, phase, i, k, alphaVer, treeVer, cacheVers, elapsedPos>>
MainTime == /\ phase = "main" /\ pc = "time"
            /\ \E stop \in IF (opt.tmax = "zero") \/ (i + 1 >= opt.iters) THEN {TRUE}
                               ELSE IF opt.tmax = "finite" THEN {TRUE, FALSE} ELSE {FALSE} :
                 /\ phase' = IF stop THEN "done" ELSE "main"
                 /\ i' = IF stop THEN i ELSE i + 1
            /\ pc' = "clear" /\ elapsedPos' = TRUE /\ ev' = [name |-> "skip"]
            /\ UNCHANGED <<whole, opt, k, alphaVer, treeVer, cacheVers, trace>>
Done == phase = "done" /\ UNCHANGED vars
Next == Clear \/ SMC \/ DP \/ PRG \/ Relabel \/ BurninTime \/ Setup \/ Conc \/ AppendStep \/ MainTime \/ Done
Spec == Init /\ [][Next]_vars /\ WF_vars(Clear \/ SMC \/ DP \/ PRG \/ Relabel \/ BurninTime \/ Setup \/ Conc \/ AppendStep \/ MainTime)

\* ---------------------------------------------------------------- properties
Iters(tr) == [j \in 1..Len(tr) |-> tr[j].iter]
\* the recorded iterations: 0 (post-burn-in), then the multiples of thin below the number of iterations run, in order
TraceProtocol ==
  /\ Len(trace) >= 1 => trace[1].iter = 0
  /\ \A j \in 2..Len(trace) : trace[j].iter = (j - 2) * opt.thin
  /\ \A j \in 2..Len(trace) : trace[j].iter < opt.iters
FullLen == 1 + (IF opt.iters = 0 THEN 0 ELSE ((opt.iters - 1) \div opt.thin) + 1)
TraceComplete == phase = "done" =>
  CASE opt.tmax = "inf"  -> Len(trace) = FullLen
    [] opt.tmax = "zero" -> Len(trace) = 1 + (IF opt.iters = 0 THEN 0 ELSE 1)
    [] OTHER             -> Len(trace) >= 1 + (IF opt.iters = 0 THEN 0 ELSE 1) /\ Len(trace) <= FullLen
\* an entry records the tree and concentration value current when it is appended; later steps never alter recorded entries
EntriesCurrent == Len(trace) >= 1 => /\ trace[Len(trace)].alphaVer <= alphaVer /\ trace[Len(trace)].treeVer <= treeVer
                                      /\ (ev.name = "append" => trace[Len(trace)].alphaVer = alphaVer /\ trace[Len(trace)].treeVer = treeVer)
AppendOnly == [][\E s \in {<<>>} \cup {<<Entry(0)>>} \cup {<<Entry(i)>>} : trace' = trace \o s]_vars
\* every cached proposal was computed under the concentration value in force when an SMC pass can use it
CacheFresh == pc = "smc" => cacheVers \subseteq {alphaVer}
\* the concentration value only changes between the tree moves and the trace append of the same iteration
AlphaOnlyAtConc == [][alphaVer' # alphaVer => (phase = "main" /\ pc = "conc" /\ opt.conc)]_vars
\* every recorded entry is a tree over ALL data points
EntriesWhole == \A j \in 1..Len(trace) : trace[j].whole
Terminates == <>(phase = "done")
=============================================================================
