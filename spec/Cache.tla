-------------------------------- MODULE Cache --------------------------------
(***************************************************************************)
(* The memoised functions of PhyClone and their key functions              *)
(* (phyclone/utils/utils.py, tree/utils.py, smc/kernels/semi_adapted.py,   *)
(* fully_adapted.py), abstractly:                                          *)
(*                                                                         *)
(*  logS    compute_log_S(children arrays)   key = multiset of content     *)
(*          digests (sorted tuple)           value depends on the multiset *)
(*  conv2   _convolve_two_children(a, b)     key = SET of the two digests  *)
(*  prop    per-parent proposal distribution key = (data point, parent,    *)
(*          outlier prob, ALPHA)             value depends on alpha        *)
(*  newtree cached new-clone tree            key = (parent, data point,    *)
(*          children, tree_dist by VALUE = alpha), value depends on alpha  *)
(*                                                                         *)
(* A call either hits an entry with the call's key or computes and stores. *)
(* Values are symbolic: [fn, what the true function depends on].  The      *)
(* invariant HitEqualsRecompute says a hit returns what recomputation      *)
(* would return now.  Eviction (LRU) only removes entries.  The run loop   *)
(* protocol (Protocol = TRUE) clears the proposal caches before the first  *)
(* call that follows a change of alpha.  A compute_log_S miss with two or  *)
(* more children goes through the pair memo for its first pair (an inner   *)
(* conv2 call: hit or store).  A proposal object is drawn from by its      *)
(* caller; as implemented drawing leaves the object as it was.             *)
(***************************************************************************)
EXTENDS Naturals, FiniteSets, Sequences, Bags, TLC

CONSTANTS Arr,             \* array identities (content digests)
          Alphas,          \* concentration values
          Parents, Points, \* parent particles / data points (abstract)
          MaxKids,         \* max length of a children list
          LogSKeyIsSet,    \* deviation: compute_log_S keyed by the SET of digests (collapses duplicates)
          WeakDigest,      \* deviation: the content digest is not injective on the arrays met (two arrays share a digest)
          HandedDigests,   \* deviation: compute_log_S hands the first two entries of its SORTED digest key to the pair memo
                           \* as the key of the first pair it combines (the arrays are in call order)
          StatefulValue,   \* deviation: a proposal object changes when it is drawn from (a hit hands out a worn object)
          KeyHasAlpha,     \* TRUE as implemented; FALSE = deviation (proposal / new-tree keys ignore alpha)
          Protocol         \* TRUE: calls of the proposal caches only happen after a clear that follows the last alpha change

VARIABLES alpha, cache, dirty, last
vars == <<alpha, cache, dirty, last>>

SeqsUpTo(S, n) == UNION {[1..m -> S] : m \in 1..n}
BagOf(s) == [x \in {s[j] : j \in DOMAIN s} |-> Cardinality({j \in DOMAIN s : s[j] = x})]
\* true (unmemoised) results, symbolic
TrueVal(fn, args, al) ==
  CASE fn = "logS"    -> [fn |-> fn, dep |-> BagOf(args)]
    [] fn = "conv2"   -> [fn |-> fn, dep |-> BagOf(args)]
    [] fn = "prop"    -> [fn |-> fn, dep |-> <<args, al>>]
    [] fn = "newtree" -> [fn |-> fn, dep |-> <<args, al>>]
\* the content digest of an array: as implemented a 64-bit hash, injective on any set of arrays a run meets;
\* WeakDigest: every array collides with the smallest one
Dg(x) == IF WeakDigest THEN (CHOOSE m \in Arr : \A y \in Arr : m <= y) ELSE x
DgSeq(s) == [j \in DOMAIN s |-> Dg(s[j])]
\* the key functions
KeyOf(fn, args, al) ==
  CASE fn = "logS"    -> <<fn, IF LogSKeyIsSet THEN {Dg(args[j]) : j \in DOMAIN args} ELSE BagOf(DgSeq(args))>>
    [] fn = "conv2"   -> <<fn, {Dg(args[1]), Dg(args[2])}>>
    [] fn = "prop"    -> <<fn, args, IF KeyHasAlpha THEN al ELSE 0>>
    [] fn = "newtree" -> <<fn, args, IF KeyHasAlpha THEN al ELSE 0>>
Calls == {<<"logS", s>> : s \in SeqsUpTo(Arr, MaxKids)} \cup {<<"conv2", s>> : s \in [1..2 -> Arr]}
         \cup {<<"prop", <<p, d>>>> : p \in Parents, d \in Points} \cup {<<"newtree", <<p, d>>>> : p \in Parents, d \in Points}
IsProposalFn(fn) == fn \in {"prop", "newtree"}

Init == alpha \in Alphas /\ cache = {} /\ dirty = FALSE /\ last = [kind |-> "none"]
\* the first pair a compute_log_S miss combines, and the key its inner conv2 call uses
SortedDg(args) == LET B == DgSeq(args)
                      lo == CHOOSE m \in {B[j] : j \in DOMAIN B} : \A j \in DOMAIN B : m <= B[j]
                      jlo == CHOOSE j \in DOMAIN B : B[j] = lo
                      rest == {B[j] : j \in DOMAIN B \ {jlo}}
                      lo2 == CHOOSE m \in rest : \A y \in rest : m <= y
                  IN <<lo, lo2>>
InnerKey(args) == <<"conv2", IF HandedDigests THEN {SortedDg(args)[1], SortedDg(args)[2]} ELSE {Dg(args[1]), Dg(args[2])}>>
InnerTrue(args, al) == TrueVal("conv2", <<args[1], args[2]>>, al)
Worn(v) == [fn |-> v.fn, dep |-> v.dep, worn |-> TRUE]
Handed(e) == IF e.uses > 0 THEN Worn(e.val) ELSE e.val
Call(c) == LET fn == c[1]  args == c[2]  key == KeyOf(fn, args, alpha)
               hits == {e \in cache : e.key = key}
               inner == fn = "logS" /\ Len(args) >= 2
               ihits == IF inner THEN {e \in cache : e.key = InnerKey(args)} ELSE {}
               \* the value a miss computes: wrong when the inner pair look-up returns another pair's table
               computed == IF inner /\ ihits # {} /\ (CHOOSE e \in ihits : TRUE).val # InnerTrue(args, alpha)
                           THEN [fn |-> fn, dep |-> BagOf(args), wrongPairTable |-> TRUE] ELSE TrueVal(fn, args, alpha)
               newInner == IF inner /\ ihits = {} THEN {[key |-> InnerKey(args), val |-> InnerTrue(args, alpha), uses |-> 0]} ELSE {}
           IN /\ (Protocol /\ IsProposalFn(fn)) => ~dirty
              /\ IF hits # {} THEN /\ last' = [kind |-> "hit", returned |-> Handed(CHOOSE e \in hits : TRUE), recomputed |-> TrueVal(fn, args, alpha)]
                                   /\ UNCHANGED cache
                 ELSE /\ last' = [kind |-> "miss", returned |-> computed, recomputed |-> TrueVal(fn, args, alpha)]
                      /\ cache' = cache \cup newInner \cup {[key |-> key, val |-> computed, uses |-> IF StatefulValue /\ fn = "prop" THEN 1 ELSE 0]}
              /\ UNCHANGED <<alpha, dirty>>
SetAlpha == \E a \in Alphas \ {alpha} : alpha' = a /\ dirty' = TRUE /\ last' = [kind |-> "alpha"] /\ UNCHANGED cache
Clear == /\ cache' = {e \in cache : e.key[1] \in {"logS", "conv2"}}     \* clear_proposal_dist_caches leaves the array caches
         /\ dirty' = FALSE /\ last' = [kind |-> "clear"] /\ UNCHANGED alpha
Evict == \E e \in cache : cache' = cache \ {e} /\ last' = [kind |-> "evict"] /\ UNCHANGED <<alpha, dirty>>
Next == (\E c \in Calls : Call(c)) \/ SetAlpha \/ Clear \/ Evict
HitEqualsRecompute == last.kind \in {"hit", "miss"} => last.returned = last.recomputed
OneEntryPerKey == \A e1, e2 \in cache : e1.key = e2.key => e1 = e2
SmallCache == Cardinality(cache) <= 3      \* state constraint of the three-children runs
=============================================================================
