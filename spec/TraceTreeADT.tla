---------------------------- MODULE TraceTreeADT ----------------------------
(***************************************************************************)
(* Trace validation for TreeADT: every recorded step of a real execution   *)
(* (projected source state, public-method call, projected target state)    *)
(* must be a step of the specification.  Steps are validated in one batch: *)
(* the variable i selects the recorded step, the initial state is the      *)
(* recorded source (cached-array signatures are not observable and are     *)
(* taken fresh - inductively justified by the harness's numeric oracle),   *)
(* and the single Next step must reproduce the recorded target.  All       *)
(* TreeADT invariants are evaluated on both recorded states.               *)
(***************************************************************************)
EXTENDS TreeADT, IOUtils, SequencesExt
CONSTANT AbstractOnly    \* TRUE: recorded targets are compared as abstract forests only (clone names, _data keys, last-edited clone ignored)
Edges == JsonDeserialize(IOEnv.TRACE_FILE)
VARIABLES i, done
tvars == <<cur, sub, mode, pend, act, i, done>>
FromPairs(ps) == LET S == ToSet(ps) IN [k \in {p[1] : p \in S} |-> (CHOOSE p \in S : p[1] = k)[2]]
TreeFromJ(j) ==
  LET nodes == ToSet(j.nodes)
      par == FromPairs(j.par)
      dat0 == FromPairs(j.dat)
      dat == [k \in DOMAIN dat0 |-> ToSet(dat0[k])]
      base == [nodes |-> nodes, par |-> par, dat |-> dat, outl |-> ToSet(j.outl), last |-> j.last,
               dkeys |-> ToSet(j.dkeys), psig |-> dat, rsig |-> (ROOT :> [own |-> {}, kids |-> {}])]
  IN [base EXCEPT !.rsig = [v \in nodes \cup {ROOT} |-> TrueSig(base, v)]]
PendFromJ(j) == [p |-> j.p, D |-> ToSet(j.D)]
Same(t, j) == LET u == TreeFromJ(j) IN
   IF AbstractOnly THEN AbsKey(t) = AbsKey(u)
   ELSE /\ t.nodes = u.nodes /\ t.par = u.par /\ t.dat = u.dat /\ t.outl = u.outl /\ t.last = u.last /\ t.dkeys = u.dkeys
TraceInit == /\ i \in 1..Len(Edges) /\ done = FALSE /\ act = NoAct
             /\ cur = TreeFromJ(Edges[i].src.cur) /\ sub = TreeFromJ(Edges[i].src.sub)
             /\ mode = Edges[i].src.mode /\ pend = PendFromJ(Edges[i].src.pend)
TraceNext == /\ ~done /\ Next /\ done' = TRUE /\ i' = i
             /\ act'.name = Edges[i].act.name
             /\ Same(cur', Edges[i].dst.cur) /\ Same(sub', Edges[i].dst.sub)
             /\ mode' = Edges[i].dst.mode /\ pend' = PendFromJ(Edges[i].dst.pend)
Matched == done => PrintT(<<"MATCHED", i>>)
tview == <<cur, sub, mode, pend, i, done>>
=============================================================================
