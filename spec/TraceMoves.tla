------------------------------ MODULE TraceMoves ------------------------------
(***************************************************************************)
(* Trace validation of the tree moves of real chains (any number of data   *)
(* points) against MoveRel: the recorder logs, for every sampler call of   *)
(* run_phyclone_chain, the abstract tree it received and the one it        *)
(* returned, plus one event per single-point reassignment inside a         *)
(* data-point sweep.  The specification carries the chain's current tree:  *)
(*                                                                         *)
(*   every call receives the tree the previous step produced (continuity); *)
(*   burn-in SMC / whole-tree particle Gibbs: any forest over the same data*)
(*   dp_move(d): the result is one of DPCands(cur, d); a sweep visits a    *)
(*               data point at most once and only if it is movable         *)
(*   dp sweep  : its input is the tree before the first reassignment, its  *)
(*               output the tree after the last                            *)
(*   prg       : unchanged, or some clone's subtree regrafted (the pruned  *)
(*               clone is not logged - TLC infers it)                      *)
(*   subtree   : only the chosen block (a clone, its descendants, plus the *)
(*               outliers) is rebuilt and re-attached where it was (the    *)
(*               chosen data point is not logged - TLC infers it)          *)
(*   conc / append: see the current tree, do not change it.                *)
(*                                                                         *)
(* Verdicts are total: a rejected event prints <<"REJECT", tid, l, clause>>*)
(* and ends that trace; a fully consumed trace prints <<"MATCHED", tid>>.  *)
(***************************************************************************)
EXTENDS MoveRel, Json, IOUtils
Traces == JsonDeserialize(IOEnv.TRACE_FILE)    \* sequence of [start |-> tree, events |-> <<...>>]
VARIABLES tid, l, cur, seen, insweep, sweep0
tvars == <<tid, l, cur, seen, insweep, sweep0>>
SetOf(q) == {q[k] : k \in DOMAIN q}
St(j) == [f |-> {SetOf(c) : c \in SetOf(j.f)}, o |-> SetOf(j.o)]
Events == Traces[tid].events
TraceInit == /\ tid \in 1..Len(Traces) /\ l = 1
             /\ cur = St(Traces[tid].start) /\ seen = {} /\ insweep = FALSE /\ sweep0 = St(Traces[tid].start)
SameData(a, b) == IsForest(b) /\ DataOf(a) = DataOf(b)
\* the failing clause of event e in the current state, or "ok"
Verdict(e) ==
  CASE e.name = "dp_move" ->
         IF St(e.in) # cur THEN "dp_move:input_is_not_the_current_tree"
         ELSE IF e.d \in seen THEN "dp_move:data_point_visited_twice_in_a_sweep"
         ELSE IF ~DPVisited(cur, e.d) THEN "dp_move:data_point_must_not_be_moved(last_of_its_clone)"
         ELSE IF St(e.out) \notin DPCands(cur, e.d) THEN "dp_move:result_is_not_a_candidate"
         ELSE "ok"
    [] e.name = "sample_tree" /\ e.sampler = "dp" ->
         IF St(e.in) # (IF insweep THEN sweep0 ELSE cur) THEN "dp:input_is_not_the_current_tree"
         ELSE IF St(e.out) # cur THEN "dp:output_is_not_the_last_reassignment"
         ELSE "ok"
    [] e.name = "sample_tree" /\ e.sampler # "dp" ->
         IF insweep THEN "sweep_not_closed"
         ELSE IF St(e.in) # cur THEN "sampler:input_is_not_the_current_tree"
         ELSE IF ~SameData(cur, St(e.out)) THEN "sampler:output_not_a_forest_over_the_same_data"
         ELSE IF e.sampler = "prg" /\ ~PRGStep(cur, St(e.out)) THEN "prg:result_is_not_a_regraft"
         ELSE IF e.sampler = "subtree" /\ ~SubStep(cur, St(e.out)) THEN "subtree:changed_more_than_one_block"
         ELSE "ok"
    [] e.name \in {"conc_update", "append"} ->
         IF insweep THEN "sweep_not_closed"
         ELSE IF St(e.tree) # cur THEN e.name \o ":sees_another_tree"
         ELSE "ok"
    [] OTHER -> "unknown_event"
Effect(e) ==
  CASE e.name = "dp_move" -> /\ cur' = St(e.out) /\ seen' = seen \cup {e.d} /\ insweep' = TRUE
                             /\ sweep0' = (IF insweep THEN sweep0 ELSE cur)
    [] e.name = "sample_tree" /\ e.sampler = "dp" -> /\ seen' = {} /\ insweep' = FALSE /\ UNCHANGED <<cur, sweep0>>
    [] e.name = "sample_tree" /\ e.sampler # "dp" -> /\ cur' = St(e.out) /\ UNCHANGED <<seen, insweep, sweep0>>
    [] OTHER -> UNCHANGED <<cur, seen, insweep, sweep0>>
TraceNext == /\ l >= 1 /\ l <= Len(Events)
             /\ LET e == Events[l]  v == Verdict(e) IN
                  IF v = "ok" THEN Effect(e) /\ l' = l + 1
                  ELSE /\ PrintT(<<"REJECT", tid, l, v>>) /\ l' = 0 /\ UNCHANGED <<cur, seen, insweep, sweep0>>
             /\ UNCHANGED tid
Accepted == (l = Len(Events) + 1) => PrintT(<<"MATCHED", tid>>)
\* properties of the current tree along every validated behaviour
CurIsForest == IsForest(cur)
=============================================================================
