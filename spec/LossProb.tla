------------------------------- MODULE LossProb -------------------------------
(***************************************************************************)
(* Outlier ("loss") prior of pre-clustered data points: how the options of *)
(* `phyclone run` and the cluster table resolve into one prior probability *)
(* per cluster (phyclone/run.py: run; phyclone/data/pyclone.py:            *)
(* _setup_cluster_df, compute_outlier_prob;                                *)
(* phyclone/data/cluster_outlier_probabilities.py), one action per step of *)
(* the code:                                                               *)
(*                                                                         *)
(*   Options      run(): rejects assign + user-provided; a global prior of *)
(*                0 becomes the default 1e-4 when either option is given   *)
(*   Column       _setup_cluster_df, first half: where the per-cluster     *)
(*                column comes from (file / global / low / assignment)     *)
(*   PickTruncal  _define_truncal_cluster: the cluster with the top        *)
(*                prevalence in every sample if it is unique, else the     *)
(*                candidate of maximal mean prevalence                     *)
(*   Test(c)      _define_possibly_lost_clusters: clusters other than the  *)
(*                truncal one with >= 4 mutations are compared with draws  *)
(*                of as many chromosomes from the truncal cluster's; the   *)
(*                Monte-Carlo decision is modelled by the EXACT law of the *)
(*                number of distinct chromosomes (every equally likely     *)
(*                draw enumerated): forced where the exact p-value is 0 or *)
(*                above 0.02, free in between                              *)
(*   Finalize     low / high written to the column                         *)
(*   Override     _setup_cluster_df, second half (no assignment): global 0 *)
(*                switches everything off, otherwise zero entries take the *)
(*                global value                                             *)
(*   Terms        compute_outlier_prob: the data point's two prior terms   *)
(*                are size x log p and size x log(1-p) (0, 0 when p = 0)   *)
(*                                                                         *)
(* Probabilities are symbolic labels ("zero", "global", "default", "low",  *)
(* "high", "col" = the file's own entry for the cluster); prevalences are small integers (the harness      *)
(* writes k/4, exact in binary floating point, so ties are real ties).     *)
(* The instance (table + options) is chosen in Init: either every instance *)
(* over the constants or exactly the harness's FixedInsts.                 *)
(***************************************************************************)
EXTENDS Naturals, Sequences, FiniteSets, FiniteSetsExt, TLC, Json
CONSTANTS NC, NS,          \* clusters 1..NC, samples 1..NS
          PMax,            \* prevalences 0..PMax
          ChromSeqs,       \* admissible chromosome sequences of a cluster (one entry per mutation)
          OptionSets,      \* admissible option records
          FixedInsts,      \* {} or the instances to use
          Dump
VARIABLES inst, phase, glob, p, truncal, lost, todo
vars == <<inst, phase, glob, p, truncal, lost, todo>>
Clusters == 1..NC
Samples == 1..NS
AllInsts == [prev : [Clusters \X Samples -> 0..PMax], chrom : [Clusters -> ChromSeqs], opt : OptionSets]
\* option record: [assign, userprov, globpos, hascol, colpos (set of clusters whose column entry is positive), haschrom]
NoCluster == 0
Init == /\ inst \in (IF FixedInsts = {} THEN AllInsts ELSE FixedInsts)
        /\ phase = "options" /\ glob = "unset" /\ p = [c \in Clusters |-> "unset"]
        /\ truncal = NoCluster /\ lost = {} /\ todo = {}
O == inst.opt
NMut(c) == Len(inst.chrom[c])
NChrom(c) == Cardinality({inst.chrom[c][i] : i \in 1..NMut(c)})
\* ------------------------------------------------------------------ run(): option checks and defaulting
Options == /\ phase = "options"
           /\ IF O.assign /\ O.userprov
              THEN phase' = "rejected" /\ UNCHANGED glob
              ELSE /\ glob' = (IF O.globpos THEN "global" ELSE IF O.assign \/ O.userprov THEN "default" ELSE "zero")
                   /\ phase' = "column"
           /\ UNCHANGED <<inst, p, truncal, lost, todo>>
ModellingOn == glob \in {"global", "default"}
\* ------------------------------------------------------------------ _setup_cluster_df, first half
Column == /\ phase = "column"
          /\ IF O.hascol
             THEN /\ p' = [c \in Clusters |-> IF c \in O.colpos THEN "col" ELSE "zero"]
                  /\ phase' = "override" /\ UNCHANGED <<truncal, lost, todo>>
             ELSE IF ~O.assign
                  THEN /\ p' = [c \in Clusters |-> glob]
                       /\ phase' = "override" /\ UNCHANGED <<truncal, lost, todo>>
                  ELSE IF ~O.haschrom
                       THEN /\ p' = [c \in Clusters |-> "low"]
                            /\ phase' = "override" /\ UNCHANGED <<truncal, lost, todo>>
                       ELSE /\ phase' = "truncal" /\ UNCHANGED <<p, truncal, lost, todo>>
          /\ UNCHANGED <<inst, glob>>
\* ------------------------------------------------------------------ _define_truncal_cluster
Prev(c, s) == inst.prev[<<c, s>>]
TopIn(s) == {c \in Clusters : \A d \in Clusters : Prev(d, s) <= Prev(c, s)}
TopCount(c) == Cardinality({s \in Samples : c \in TopIn(s)})
Potentials == {c \in Clusters : TopCount(c) > 0}
Everywhere == {c \in Clusters : TopCount(c) = NS}
SumPrev(c) == FoldSet(LAMBDA s, acc : Prev(c, s) + acc, 0, Samples)
ArgMaxMean == {c \in Potentials : \A d \in Potentials : SumPrev(d) <= SumPrev(c)}
TruncalSet == IF Cardinality(Everywhere) = 1 THEN Everywhere ELSE ArgMaxMean
TieBreakNeeded == Cardinality(TruncalSet) > 1
PickTruncal == /\ phase = "truncal"
               /\ truncal' \in TruncalSet
               /\ todo' = {c \in Clusters : c # truncal' /\ NMut(c) >= 4}
               /\ phase' = "test"
               /\ UNCHANGED <<inst, glob, p, lost>>
\* ------------------------------------------------------------------ _define_possibly_lost_clusters
\* the chromosomes drawn from: the truncal cluster's, cyclically extended when the tested cluster is larger
Tester(c) == LET T == inst.chrom[truncal] IN
             IF NMut(c) > Len(T) THEN [i \in 1..NMut(c) |-> T[((i - 1) % Len(T)) + 1]] ELSE T
Draws(c) == {S \in SUBSET (1..Len(Tester(c))) : Cardinality(S) = NMut(c)}
Distinct(c, S) == Cardinality({Tester(c)[i] : i \in S})
Fewer(c) == Cardinality({S \in Draws(c) : Distinct(c, S) < NChrom(c)})
Total(c) == Cardinality(Draws(c))
SumDistinct(c) == FoldSet(LAMBDA S, acc : Distinct(c, S) + acc, 0, Draws(c))
\* exact p-value 0 (the estimate is then 1e-4 < 0.01) and the mean number of distinct chromosomes exceeds the observed one
ForcedLost(c) == Fewer(c) = 0 /\ SumDistinct(c) > NChrom(c) * Total(c)
\* exact p-value above 0.02 (the 10000-draw estimate is then above 0.01 beyond doubt), or nothing ever exceeds the observed number
ForcedKept(c) == Fewer(c) * 50 > Total(c) \/ (Fewer(c) = 0 /\ SumDistinct(c) = NChrom(c) * Total(c))
Test(c) == /\ phase = "test" /\ c \in todo
           /\ \/ ~ForcedKept(c) /\ lost' = lost \cup {c}
              \/ ~ForcedLost(c) /\ lost' = lost
           /\ todo' = todo \ {c}
           /\ UNCHANGED <<inst, phase, glob, p, truncal>>
Finalize == /\ phase = "test" /\ todo = {}
            /\ p' = [c \in Clusters |-> IF c \in lost THEN "high" ELSE "low"]
            /\ phase' = "override"
            /\ UNCHANGED <<inst, glob, truncal, lost, todo>>
\* ------------------------------------------------------------------ _setup_cluster_df, second half
Override == /\ phase = "override"
            /\ p' = IF O.assign THEN p
                    ELSE IF glob = "zero" THEN [c \in Clusters |-> "zero"]
                    ELSE [c \in Clusters |-> IF p[c] = "zero" THEN glob ELSE p[c]]
            /\ phase' = "terms"
            /\ UNCHANGED <<inst, glob, truncal, lost, todo>>
Done == phase \in {"terms", "rejected"} /\ UNCHANGED vars
Next == Options \/ Column \/ PickTruncal \/ (\E c \in Clusters : Test(c)) \/ Finalize \/ Override \/ Done
Spec == Init /\ [][Next]_vars
\* ------------------------------------------------------------------ compute_outlier_prob (symbolic)
\* the two prior terms of the data point of cluster c: <<size, "log", label>>, <<size, "log1m", label>>, or zero
Terms(c) == IF p[c] = "zero" THEN <<"0", "0">> ELSE <<<<NMut(c), "log", p[c]>>, <<NMut(c), "log1m", p[c]>>>>
\* ------------------------------------------------------------------ properties
TypeOK == /\ phase \in {"options", "column", "truncal", "test", "override", "terms", "rejected"}
          /\ glob \in {"unset", "zero", "global", "default"}
          /\ lost \subseteq Clusters /\ todo \subseteq Clusters
Final == phase = "terms"
\* outlier modelling switched off (global prior 0 and neither option) => no cluster has a prior
OffMeansOff == Final /\ glob = "zero" => \A c \in Clusters : p[c] = "zero"
\* outlier modelling on and no assignment => every cluster has a positive prior
OnMeansPositive == Final /\ ModellingOn /\ ~O.assign => \A c \in Clusters : p[c] # "zero"
\* the user's column is respected wherever it is positive and modelling is on
ColumnRespected == Final /\ ModellingOn /\ O.hascol => \A c \in O.colpos : p[c] = "col"
\* assignment from data (no column): only low / high; the truncal cluster and clusters of fewer than 4 mutations are never "lost"
AssignedLowHigh == Final /\ O.assign /\ ~O.hascol => \A c \in Clusters : p[c] \in {"low", "high"}
TruncalNeverLost == truncal # NoCluster => truncal \notin lost
SmallNeverLost == \A c \in lost : NMut(c) >= 4
\* a cluster spread over at least as many chromosomes as any draw can show is never lost; one never reaching the draws' minimum always is
LostOnlyIfConcentrated == Final /\ truncal # NoCluster => \A c \in lost : \E S \in Draws(c) : Distinct(c, S) > NChrom(c)
TruncalIsCandidate == truncal # NoCluster => truncal \in Potentials
TruncalSetNonEmpty == phase = "truncal" => TruncalSet # {}
\* --- run(): what is handed to the chain (run_phyclone_chain's outlier_prob, which switches outlier proposals and the
\* outlier option of the data-point move on) is the value AFTER the defaulting of Options.  Deviation `raw`: the
\* defaulting is done inside the loader only and the chain receives the option as given.
ChainOn(raw) == IF raw THEN O.globpos ELSE ModellingOn
\* whenever a data point carries an outlier prior the samplers can propose outliers (else the update is not the posterior's)
PriorsImplyProposals == Final => ((\E c \in Clusters : p[c] # "zero") => ChainOn(FALSE))
PriorsImplyProposalsRaw == Final => ((\E c \in Clusters : p[c] # "zero") => ChainOn(TRUE))   \* refuted on purpose
\* --- recorded observation, not a listed property: with --assign-loss-prob AND a column in the file, zero entries stay zero
\* although outlier modelling is on (compute_outlier_prob then returns the pair 0, 0).  Refuted on purpose (vacuity run).
PositiveWheneverOn == Final /\ ModellingOn => \A c \in Clusters : p[c] # "zero"
\* ------------------------------------------------------------------ oracle dump for the conformance harness
Emit == (Dump /\ phase \in {"terms", "rejected"}) =>
        PrintT(ToJson([id |-> inst.id, phase |-> phase, glob |-> glob,
                       p |-> p,
                       truncal |-> truncal, truncal_set |-> TruncalSet, lost |-> lost,
                       forced_lost |-> IF truncal = NoCluster THEN {} ELSE {c \in Clusters : c # truncal /\ NMut(c) >= 4 /\ ForcedLost(c)},
                       forced_kept |-> IF truncal = NoCluster THEN {} ELSE {c \in Clusters : c # truncal /\ NMut(c) >= 4 /\ ForcedKept(c)},
                       sizes |-> [c \in Clusters |-> NMut(c)]]))
=============================================================================
