------------------------------ MODULE TracePGibbs ------------------------------
(* Trace validation for PGibbsSM: swarms recorded from the real ConditionalSMCSampler (after _init_swarm, every      *)
(* _resample_swarm and _update_swarm), the drawn data order and the selected output must form a behaviour of the    *)
(* state machine from the recorded start forest.  Batch of traces selected by tid; all PGibbsSM invariants are      *)
(* evaluated on every recorded swarm.                                                                               *)
(* Weights: every swarm event carries the normalised particle weights as integers out of 1000 (w; for a resample    *)
(* event also the weights before it, wb, and whether the swarm was replaced).  The adaptive-resampling rule of      *)
(* AbstractSMCSampler is checked on them: resampling happens iff the relative effective sample size                 *)
(* (sum w)^2 / (NP * sum w^2) is at most the threshold (decisions within 2 % of the threshold are left free:        *)
(* the weights are quantised), a resampled swarm has uniform weights, a swarm that is not resampled is unchanged.   *)
EXTENDS PGibbsSM, Json, IOUtils, SequencesExt
Traces == JsonDeserialize(IOEnv.TRACE_FILE)
VARIABLES tid, l
tvars == <<s0, sig, t, xs, phase, out, tid, l>>
StateOf(j) == [f |-> {ToSet(c) : c \in ToSet(j.f)}, o |-> ToSet(j.o)]
Swarm(j) == [k \in Slots |-> StateOf(j[k])]
Ev == Traces[tid].events[l]
Thr == Traces[tid].thr                              \* <<numerator, denominator>> of the resampling threshold
SumSeq(q) == FoldSeq(LAMBDA x, acc : x + acc, 0, q)
SumSq(q) == FoldSeq(LAMBDA x, acc : x * x + acc, 0, q)
\* relative ESS <= threshold  <=>  S1^2 * den <= num * NP * S2   (weights out of 1000, NP <= 8, den <= 20: fits 32 bits)
Lhs(q) == ((SumSeq(q) * SumSeq(q)) \div 100) * Thr[2]
Rhs(q) == (Thr[1] * NP * SumSq(q)) \div 100
MustResample(q) == Lhs(q) * 100 <= Rhs(q) * 98
MustNotResample(q) == Lhs(q) * 98 >= Rhs(q) * 100 /\ Lhs(q) > Rhs(q)
Uniform(q) == \A a, b \in 1..Len(q) : q[a] - q[b] \in {-1, 0, 1}
ResampleRule(e) == \/ e.wb = <<>>                       \* weights not available (not finite): not judged
                   \/ /\ MustResample(e.wb) => e.resampled
                      /\ MustNotResample(e.wb) => ~e.resampled
                      /\ e.resampled => Uniform(e.w)
                      /\ ~e.resampled => (e.w = e.wb /\ xs' = xs)
\* a trace whose start forest does not hold exactly the data 0..N-1 (a previous update lost or duplicated data) has no
\* initial state: it is reported as unmatched, never evaluated
TraceInit == /\ tid \in {k \in 1..Len(Traces) : DataOf(StateOf(Traces[k].s0)) = Data} /\ l = 1
             /\ s0 = StateOf(Traces[tid].s0) /\ sig = <<>> /\ t = 0 /\ xs = NoSwarm /\ phase = "sigma" /\ out = Empty
TraceNext == /\ l <= Len(Traces[tid].events) /\ l' = l + 1 /\ UNCHANGED tid
             /\ CASE Ev.ev = "sigma"    -> DrawSigma /\ sig' = Ev.sigma
                  [] Ev.ev = "init"     -> InitSwarm /\ xs' = Swarm(Ev.xs)
                  [] Ev.ev = "resample" -> Resample /\ xs' = Swarm(Ev.xs) /\ ResampleRule(Ev)
                  [] Ev.ev = "update"   -> Update /\ xs' = Swarm(Ev.xs)
                  [] Ev.ev = "select"   -> Select /\ out' = StateOf(Ev.out)
                  [] OTHER -> FALSE
Accepted == (l = Len(Traces[tid].events) + 1 /\ phase = "done") => PrintT(<<"MATCHED", tid>>)
=============================================================================
