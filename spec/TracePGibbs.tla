------------------------------ MODULE TracePGibbs ------------------------------
(* Trace validation for PGibbsSM: swarms recorded from the real ConditionalSMCSampler (after _init_swarm, every      *)
(* _resample_swarm and _update_swarm), the drawn data order and the selected output must form a behaviour of the    *)
(* state machine from the recorded start forest.  Batch of traces selected by tid; all PGibbsSM invariants are      *)
(* evaluated on every recorded swarm.                                                                               *)
EXTENDS PGibbsSM, Json, IOUtils, SequencesExt
Traces == JsonDeserialize(IOEnv.TRACE_FILE)
VARIABLES tid, l
tvars == <<s0, sig, t, xs, phase, out, tid, l>>
StateOf(j) == [f |-> {ToSet(c) : c \in ToSet(j.f)}, o |-> ToSet(j.o)]
Swarm(j) == [k \in Slots |-> StateOf(j[k])]
Ev == Traces[tid].events[l]
TraceInit == /\ tid \in 1..Len(Traces) /\ l = 1
             /\ s0 = StateOf(Traces[tid].s0) /\ sig = <<>> /\ t = 0 /\ xs = NoSwarm /\ phase = "sigma" /\ out = Empty
TraceNext == /\ l <= Len(Traces[tid].events) /\ l' = l + 1 /\ UNCHANGED tid
             /\ CASE Ev.ev = "sigma"    -> DrawSigma /\ sig' = Ev.sigma
                  [] Ev.ev = "init"     -> InitSwarm /\ xs' = Swarm(Ev.xs)
                  [] Ev.ev = "resample" -> Resample /\ xs' = Swarm(Ev.xs)
                  [] Ev.ev = "update"   -> Update /\ xs' = Swarm(Ev.xs)
                  [] Ev.ev = "select"   -> Select /\ out' = StateOf(Ev.out)
                  [] OTHER -> FALSE
Accepted == (l = Len(Traces[tid].events) + 1 /\ phase = "done") => PrintT(<<"MATCHED", tid>>)
=============================================================================
