------------------------------ MODULE GridRec ------------------------------
(***************************************************************************)
(* The CCF-grid marginal likelihood of a clone forest.                     *)
(*                                                                         *)
(* Data likelihoods are positive integers L[d][i][k] (data point d, sample *)
(* i, grid index k); the code receives value = log L.  For a forest F      *)
(* (set of clades, Forests.tla) and sample i:                              *)
(*                                                                         *)
(*  definition   ZDef[k] = sum over assignments a : F -> 0..G-1 with       *)
(*               a[c] >= sum of a over c's children for every clone and    *)
(*               the top-level clones summing to <= k, of                  *)
(*               prod_c prod_{d in Own(c)} L[d][i][a[c]]                   *)
(*  recursion    as implemented (phyclone/tree/utils.py, tree_node.py):    *)
(*               R_c = NodeL_c * S_c, S = running sum of D, D = truncated  *)
(*               convolution of the children's R (pairwise, left fold),    *)
(*               root: Z = running sum of D_root                           *)
(*  max-product  the same with (max, +) on integer log-likelihoods, with   *)
(*               back-pointers and traceback from the root fixed at G-1    *)
(*               (phyclone/process_trace/map.py)                           *)
(*                                                                         *)
(* The uniform grid prior is a factor G^-(K+1) the harness applies.        *)
(* Everything is exact integer arithmetic (TLC aborts loudly on overflow). *)
(***************************************************************************)
EXTENDS Forests, SequencesExt

\* ---------------------------------------------------------------- helpers (G = grid size; vectors are functions on 0..G-1)
Idx(G) == 0..(G - 1)
SumOver(S, F(_)) == FoldSet(LAMBDA x, acc : F(x) + acc, 0, S)
ProdOver(S, F(_)) == FoldSet(LAMBDA x, acc : F(x) * acc, 1, S)
NodeL(L, own, i, k) == ProdOver(own, LAMBDA d : L[d + 1][i][k + 1])

\* ---------------------------------------------------------------- definition: sum over feasible assignments
Feasible(F, a) == \A c \in F : a[c] >= SumOver(KidsOf(F, c), LAMBDA u : a[u])
TopSum(F, a) == SumOver(Roots(F), LAMBDA u : a[u])
Weight(F, L, i, a) == ProdOver(F, LAMBDA c : NodeL(L, Own(F, c), i, a[c]))
ZDef(F, L, i, G) == [k \in Idx(G) |->
   SumOver({a \in [F -> Idx(G)] : Feasible(F, a) /\ TopSum(F, a) <= k}, LAMBDA a : Weight(F, L, i, a))]
\* subtree of clone c with c's own index fixed to k
SubOf(F, c) == {x \in F : x \subseteq c}
RDef(F, L, i, G, c) == LET T == SubOf(F, c) IN [k \in Idx(G) |->
   SumOver({a \in [T -> Idx(G)] : Feasible(T, a) /\ a[c] = k}, LAMBDA a : Weight(T, L, i, a))]

\* ---------------------------------------------------------------- recursion as implemented
\* Vectors are strict tuples of length G (entry k+1 = grid index k).  TLC function constructors are lazy closures
\* that re-evaluate their body at every application, and LET / operator arguments are evaluated by name; appending
\* the empty tuple forces a tuple value and singleton-set binders force a single evaluation.  With that a
\* 1000-point grid convolves in about a second.
Strict(f) == f \o <<>>
ConvT(x, y, G) == CHOOSE r \in {Strict([k \in 1..G |-> FoldLeft(LAMBDA acc, j : acc + xv[j] * yv[k + 1 - j], 0, [j \in 1..k |-> j])])
                                 : xv \in {x}, yv \in {y}} : TRUE
RunT(d) == FoldLeft(LAMBDA acc, v : Append(acc, (IF acc = <<>> THEN 0 ELSE acc[Len(acc)]) + v), <<>>, d)
OneT(G) == Strict([k \in 1..G |-> IF k = 1 THEN 1 ELSE 0])
NodeVec(L, own, i, G) == Strict([k \in 1..G |-> ProdOver(own, LAMBDA d : L[d + 1][i][k])])
RECURSIVE RRecT(_, _, _, _, _)
DRecT(F, L, i, G, K) == LET RECURSIVE Go(_, _)
                            Go(S, acc) == IF S = {} THEN acc
                                          ELSE LET u == CHOOSE u \in S : TRUE IN Go(S \ {u}, ConvT(RRecT(F, L, i, G, u), acc, G))
                        IN Go(K, OneT(G))
RRecT(F, L, i, G, c) == CHOOSE r \in {Strict([k \in 1..G |-> nv[k] * s[k]]) :
                                        s \in {RunT(DRecT(F, L, i, G, KidsOf(F, c)))}, nv \in {NodeVec(L, Own(F, c), i, G)}} : TRUE
ZRecT(F, L, i, G) == RunT(DRecT(F, L, i, G, Roots(F)))
\* the same as functions on 0..G-1 (for comparison with the definition)
AsFun(t, G) == [k \in Idx(G) |-> t[k + 1]]
RRec(F, L, i, G, c) == AsFun(RRecT(F, L, i, G, c), G)
ZRec(F, L, i, G) == AsFun(ZRecT(F, L, i, G), G)

\* ---------------------------------------------------------------- max-product (integer log-likelihood tables LL)
NodeLL(LL, own, i, k) == SumOver(own, LAMBDA d : LL[d + 1][i][k + 1])
Score(F, LL, i, a) == SumOver(F, LAMBDA c : NodeLL(LL, Own(F, c), i, a[c]))
FeasibleTop(F, a, G) == Feasible(F, a) /\ TopSum(F, a) <= G - 1
BestDef(F, LL, i, G) == Max({Score(F, LL, i, a) : a \in {a \in [F -> Idx(G)] : FeasibleTop(F, a, G)}})
\* forward pass of the implementation: D over children by max-plus convolution, S = running max, R = own + S
MaxConv(x, y, G) == [k \in Idx(G) |-> Max({x[j] + y[k - j] : j \in 0..k})]
RunMax(d, G) == [k \in Idx(G) |-> Max({d[j] : j \in 0..k})]
ZeroV(G) == [k \in Idx(G) |-> 0]
RECURSIVE RMax(_, _, _, _, _)
DMax(F, LL, i, G, K) == LET RECURSIVE Go(_, _)
                            Go(S, acc) == IF S = {} THEN acc
                                          ELSE LET u == CHOOSE u \in S : TRUE IN Go(S \ {u}, MaxConv(RMax(F, LL, i, G, u), acc, G))
                        IN Go(K, ZeroV(G))
\* note: the implementation initialises D with zeros (log 1 at every index) rather than a delta at 0; with running
\* maxima this gives the same S because the all-zero start only allows "leaving budget unused"
RMax(F, LL, i, G, c) == LET K == KidsOf(F, c) IN
   IF K = {} THEN [k \in Idx(G) |-> NodeLL(LL, Own(F, c), i, k)]
   ELSE LET s == RunMax(DMax(F, LL, i, G, K), G) IN [k \in Idx(G) |-> NodeLL(LL, Own(F, c), i, k) + s[k]]
BestRec(F, LL, i, G) == RunMax(DMax(F, LL, i, G, Roots(F)), G)[G - 1]

\* ---------------------------------------------------------------- max-product with back-pointers and traceback (map.py)
\* tuples of length G, entry k+1 = grid index k.  Children are processed in a fixed arbitrary order (KidSeq).
KidSeq(F, c) == SetToSeq(IF c = {} THEN Roots(F) ELSE KidsOf(F, c))
ArgMaxLargest(S, val(_)) == CHOOSE j \in S : \A j2 \in S : val(j) >= val(j2) /\ (val(j2) = val(j) => j2 <= j)   \* ties: the largest index (">=" in the loop)
\* one child: D'[k] = max_j childR[j] + D[k-j], choice[k] = the maximising j
DStepT(childR, prevD, G) ==
  LET ch == Strict([k \in 1..G |-> ArgMaxLargest(0..(k - 1), LAMBDA j : childR[j + 1] + prevD[k - j])])
  IN [d |-> Strict([k \in 1..G |-> childR[ch[k] + 1] + prevD[k - ch[k]]]), ch |-> ch]
\* S[k] = running maximum of D with the index where it is attained (ties: the earlier index)
SStepT(d, G) ==
  LET RECURSIVE Go(_, _, _)
      Go(k, s, c) == IF k > G THEN [s |-> s, c |-> c]
                     ELSE IF d[k] > s[k - 1] THEN Go(k + 1, Append(s, d[k]), Append(c, k - 1))
                          ELSE Go(k + 1, Append(s, s[k - 1]), Append(c, c[k - 1]))
  IN Go(2, <<d[1]>>, <<0>>)
RECURSIVE NodeTB(_, _, _, _, _)
\* forward tables of clone c (c = {} : virtual root): [r, dch (one choice tuple per child, in KidSeq order), sch]
NodeTB(F, LL, i, G, c) ==
  LET kids == KidSeq(F, c)
      own == IF c = {} THEN Strict([k \in 1..G |-> 0]) ELSE Strict([k \in 1..G |-> NodeLL(LL, Own(F, c), i, k - 1)])
  IN IF Len(kids) = 0 THEN [r |-> own, dch |-> <<>>, sch |-> Strict([k \in 1..G |-> k - 1])]
     ELSE LET RECURSIVE Fold(_, _, _)
              Fold(n, d, chs) == IF n > Len(kids) THEN [d |-> d, chs |-> chs]
                                 ELSE LET st == DStepT(NodeTB(F, LL, i, G, kids[n]).r, d, G) IN Fold(n + 1, st.d, Append(chs, st.ch))
              fd == Fold(1, Strict([k \in 1..G |-> 0]), <<>>)
              ss == SStepT(fd.d, G)
          IN [r |-> Strict([k \in 1..G |-> own[k] + ss.s[k]]), dch |-> fd.chs, sch |-> ss.c]
RECURSIVE Traceback(_, _, _, _, _, _)
\* assignment (clade -> grid index) of the subtree below c given c's own index idx
Traceback(F, LL, i, G, c, idx) ==
  LET kids == KidSeq(F, c)
      tb == NodeTB(F, LL, i, G, c)
      RECURSIVE Back(_, _)
      Back(n, total) == IF n = 0 THEN << >>
                        ELSE LET ci == tb.dch[n][total + 1] IN
                             (kids[n] :> ci) @@ Traceback(F, LL, i, G, kids[n], ci) @@ Back(n - 1, total - ci)
  IN IF Len(kids) = 0 THEN << >> ELSE Back(Len(kids), tb.sch[idx + 1])
MapAssignment(F, LL, i, G) == Traceback(F, LL, i, G, {}, G - 1)
TracebackFeasibleOptimal(F, LL, i, G) ==
  LET a == MapAssignment(F, LL, i, G) IN
  /\ DOMAIN a = F
  /\ \A c \in F : a[c] \in Idx(G)
  /\ FeasibleTop(F, a, G)
  /\ Score(F, LL, i, a) = BestDef(F, LL, i, G)
=============================================================================
