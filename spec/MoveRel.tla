------------------------------- MODULE MoveRel -------------------------------
(***************************************************************************)
(* The auxiliary tree moves as RELATIONS on abstract forests (which trees  *)
(* a move can return from a given tree), without their probabilities:      *)
(* the candidate sets of phyclone/mcmc/gibbs_mh.py (DataPointSampler,      *)
(* PruneRegraphSampler) and the block structure of                         *)
(* phyclone/mcmc/particle_gibbs.py (ParticleGibbsSubtreeSampler).          *)
(* Moves.tla puts the weights on these candidates (exact kernels in F_P);  *)
(* TraceMoves.tla validates recorded sampler steps of real runs of any     *)
(* size against them.                                                      *)
(***************************************************************************)
EXTENDS Forests
CONSTANTS OutlierOn,
          SkipLoneOutlier       \* FALSE as specified; TRUE = a lone outlier is never moved (deviation F5)

\* ---------------------------------------------------------------- data-point move
RemoveD(F, d) == {c \ {d} : c \in F}
DPCands(st, d) ==
  IF d \in st.o
  THEN IF (SkipLoneOutlier /\ Cardinality(st.o) <= 1) THEN {st}
       ELSE {[f |-> AddTo(st.f, b, d), o |-> st.o \ {d}] : b \in st.f} \cup {st}
  ELSE LET a == NodeOf(st.f, d) IN
       IF Cardinality(Own(st.f, a)) <= 1 THEN {st}
       ELSE LET F0 == RemoveD(st.f, d) IN
            {[f |-> AddTo(F0, b \ {d}, d), o |-> st.o] : b \in st.f}
            \cup (IF OutlierOn THEN {[f |-> F0, o |-> st.o \cup {d}]} ELSE {})
\* the sweep visits a data point only if it is an outlier or its clone holds another data point
DPVisited(st, d) == d \in st.o \/ Cardinality(Own(st.f, NodeOf(st.f, d))) > 1

\* ---------------------------------------------------------------- prune / regraft
\* subtree of clone v = the clades inside v; remainder = the other clades with v's data removed from the ancestors
SubF(F, v) == {c \in F : c \subseteq v}
RestF(F, v) == {c \ v : c \in F \ SubF(F, v)}
\* regraft under clone p of the remainder (p = {} : top level)
Graft(R, S, v, p) == {IF p # {} /\ p \subseteq c THEN c \cup v ELSE c : c \in R} \cup S
PRGTargets(st, v) == LET R == RestF(st.f, v) IN R \cup {{}}
PRGResults(st, v) == LET R == RestF(st.f, v)  S == SubF(st.f, v)
                     IN {[f |-> Graft(R, S, v, p), o |-> st.o] : p \in PRGTargets(st, v)}
\* the code returns the tree unchanged when it has <= 1 clone or when nothing remains after pruning
PRGStep(st, out) == \/ out = st
                    \/ \E v \in st.f : RestF(st.f, v) # {} /\ out \in PRGResults(st, v)

\* ---------------------------------------------------------------- subtree resampling
\* block chosen through a non-outlier data point d: c = clone of d, block root = parent of c
\* (virtual root if c is top level: whole tree).  Outliers are handed to the block.
NonOut(st) == UNION st.f
SubBlock(st, d) ==
  LET c == NodeOf(st.f, d) IN
  IF ~HasParent(st.f, c) THEN [whole |-> TRUE, v |-> {}, at |-> {}]
  ELSE LET p == ParentOf(st.f, c) IN
       [whole |-> FALSE, v |-> p, at |-> IF HasParent(st.f, p) THEN ParentOf(st.f, p) \ p ELSE {}]
\* re-attaching a re-built block `sub` (a forest over the block's data and the outliers) under `at` of the remainder
Reattach(st, b, sub) == LET R == RestF(st.f, b.v) IN
  [f |-> {IF b.at # {} /\ b.at \subseteq c THEN c \cup UNION sub.f ELSE c : c \in R} \cup sub.f, o |-> sub.o]
\* membership test that does not enumerate the forests over the block: the block part of `out` is what lies inside B
SubStepVia(st, out, d) ==
  LET b == SubBlock(st, d) IN
  IF b.whole THEN IsForest(out) /\ DataOf(out) = DataOf(st)
  ELSE LET B == b.v \cup st.o
           sub == [f |-> {c \in out.f : c \subseteq B}, o |-> out.o]
       IN /\ IsForest(sub) /\ DataOf(sub) = B
          /\ (OutlierOn \/ sub.o = {})
          /\ out = Reattach(st, b, sub)
SubStep(st, out) == IF NonOut(st) = {} THEN IsForest(out) /\ DataOf(out) = DataOf(st)   \* all outliers: whole-tree update
                    ELSE \E d \in NonOut(st) : SubStepVia(st, out, d)
=============================================================================
