--------------------------- MODULE SummariesTable ---------------------------
(***************************************************************************)
(* The results table written with a tree (process_trace.py: get_clone_table,*)
(* get_labels_table) as a set of admissible rows.                          *)
(*                                                                         *)
(* Data point d stands for a cluster of Size[d] input mutations <<d, j>>.  *)
(* For a forest and S samples the table must contain, for every mutation   *)
(* and every sample, exactly one row; all rows of the mutations of data    *)
(* point d carry the clone that owns d (identified here by the clone's own *)
(* data set) or OUT for outliers; clones are the nodes of the accompanying *)
(* tree whose parent relation is ParentOwn.                                *)
(***************************************************************************)
EXTENDS Forests, Json
CONSTANTS N, OutliersOn, Sizes, S, Dump     \* Sizes: sequence of cluster sizes per data point (1-based)
Data == 0..(N - 1)
VARIABLE st
Init == st = Empty
Next == \E d \in Data \ DataOf(st) : st' \in InsertAny(st, d, OutliersOn)
Muts == {<<d, j>> : d \in Data, j \in 1..3} \cap {m \in Data \X (1..3) : m[2] <= Sizes[m[1] + 1]}
CloneOf(d) == IF d \in st.o THEN {} ELSE Own(st.f, NodeOf(st.f, d))      \* {} = outlier (-1)
Rows == {[mut |-> m, sample |-> s, clone |-> CloneOf(m[1])] : m \in {x \in Muts : x[1] \in DataOf(st)}, s \in 1..S}
ParentOwn == {<<Own(st.f, c), IF HasParent(st.f, c) THEN Own(st.f, ParentOf(st.f, c)) ELSE {}>> : c \in st.f}
OncePerSample == \A m \in {x \in Muts : x[1] \in DataOf(st)} : \A s \in 1..S : Cardinality({r \in Rows : r.mut = m /\ r.sample = s}) = 1
ClusterTogether == \A r1, r2 \in Rows : r1.mut[1] = r2.mut[1] => r1.clone = r2.clone
Emit == Dump => PrintT(ToJson([st |-> st, rows |-> Rows, parents |-> ParentOwn]))
=============================================================================
