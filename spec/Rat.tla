-------------------------------- MODULE Rat --------------------------------
(* Small exact rationals <<num, den>> (den > 0, reduced).  TLC integers are 32-bit and overflow loudly,  *)
(* so these are used only where numerators/denominators stay small (single-step probabilities, weights). *)
EXTENDS Naturals, Sequences
RECURSIVE Gcd(_, _)
Gcd(a, b) == IF b = 0 THEN a ELSE Gcd(b, a % b)
Red(n, d) == LET g == Gcd(n, d) IN IF n = 0 THEN <<0, 1>> ELSE <<n \div g, d \div g>>
RMul(x, y) == LET a == Red(x[1], y[2])  b == Red(y[1], x[2]) IN Red(a[1] * b[1], a[2] * b[2])
RDiv(x, y) == RMul(x, <<y[2], y[1]>>)
RAdd(x, y) == LET g == Gcd(x[2], y[2]) IN Red(x[1] * (y[2] \div g) + y[1] * (x[2] \div g), (x[2] \div g) * y[2])
RInt(n) == <<n, 1>>
ROne == <<1, 1>>
RZero == <<0, 1>>
REq(x, y) == Red(x[1], x[2]) = Red(y[1], y[2])
RECURSIVE RSumSeq(_)
RSumSeq(s) == IF s = <<>> THEN RZero ELSE RAdd(Head(s), RSumSeq(Tail(s)))
=============================================================================
