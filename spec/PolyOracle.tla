----------------------------- MODULE PolyOracle -----------------------------
(* Oracle dump for polynomial-weight instances (see GridRecPoly): for each forest over Data, sample 1, the root   *)
(* vector and every clone's R vector as coefficient tuples.  E must bound the total degree (asserted).            *)
EXTENDS GridRecPoly, Json
CONSTANTS N, G, E, OutliersOn, L
Data == 0..(N - 1)
VARIABLE st
Init == st = Empty
Next == \E d \in Data \ DataOf(st) : st' \in InsertAny(st, d, OutliersOn)
DegreeFits == DegBound(L, 1, G, UNION st.f) <= E
Emit == PrintT(ToJson([st |-> st, Z |-> PZRecT(st.f, L, 1, G, E),
                       R |-> {[c |-> c, r |-> PRRecT(st.f, L, 1, G, E, c)] : c \in st.f}]))
=============================================================================
