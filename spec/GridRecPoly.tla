---------------------------- MODULE GridRecPoly ----------------------------
(***************************************************************************)
(* The implemented recursion of GridRec over the polynomial ring Z[B]:     *)
(* a likelihood entry is a monomial c*B^e (given as <<c, e>>), a number is *)
(* the strict tuple of its coefficients (entry j+1 = coefficient of B^j,   *)
(* degree <= E).  The harness evaluates the resulting polynomials at       *)
(* B = 10^-m with exact big-integer arithmetic, which gives likelihood     *)
(* tables with hundreds of orders of magnitude of dynamic range - far      *)
(* beyond TLC's 32-bit integers - while every coefficient TLC computes     *)
(* stays a small exact integer.  Used for the underflow-floor clause of    *)
(* C02 and for forcing the direct / FFT paths onto wide-range rows.        *)
(***************************************************************************)
EXTENDS GridRec
PZero(E) == Strict([j \in 1..(E + 1) |-> 0])
POne(E) == Strict([j \in 1..(E + 1) |-> IF j = 1 THEN 1 ELSE 0])
PMono(m, E) == Strict([j \in 1..(E + 1) |-> IF j = m[2] + 1 THEN m[1] ELSE 0])
PAdd(p, q) == Strict([j \in 1..Len(p) |-> p[j] + q[j]])
\* product truncated at degree E; NoOverflowDegree below asserts nothing is cut off
PMul(p, q) == CHOOSE r \in {Strict([j \in 1..Len(pv) |-> FoldLeft(LAMBDA acc, a : acc + pv[a] * qv[j + 1 - a], 0, [a \in 1..j |-> a])])
                            : pv \in {p}, qv \in {q}} : TRUE
Deg(p) == IF \A j \in 1..Len(p) : p[j] = 0 THEN 0 ELSE Max({j \in 1..Len(p) : p[j] # 0}) - 1
PNodeVec(L, own, i, G, E) ==
  Strict([k \in 1..G |-> FoldSet(LAMBDA d, acc : PMul(PMono(L[d + 1][i][k], E), acc), POne(E), own)])
PConvT(x, y, G, E) == CHOOSE r \in {Strict([k \in 1..G |-> FoldLeft(LAMBDA acc, j : PAdd(acc, PMul(xv[j], yv[k + 1 - j])), PZero(E), [j \in 1..k |-> j])])
                                   : xv \in {x}, yv \in {y}} : TRUE
PRunT(d, E) == FoldLeft(LAMBDA acc, v : Append(acc, PAdd(IF acc = <<>> THEN PZero(E) ELSE acc[Len(acc)], v)), <<>>, d)
POneT(G, E) == Strict([k \in 1..G |-> IF k = 1 THEN POne(E) ELSE PZero(E)])
RECURSIVE PRRecT(_, _, _, _, _, _)
PDRecT(F, L, i, G, E, K) == LET RECURSIVE Go(_, _)
                                Go(S, acc) == IF S = {} THEN acc
                                              ELSE LET u == CHOOSE u \in S : TRUE IN Go(S \ {u}, PConvT(PRRecT(F, L, i, G, E, u), acc, G, E))
                            IN Go(K, POneT(G, E))
PRRecT(F, L, i, G, E, c) == CHOOSE r \in {Strict([k \in 1..G |-> PMul(nv[k], s[k])]) :
                                           s \in {PRunT(PDRecT(F, L, i, G, E, KidsOf(F, c)), E)}, nv \in {PNodeVec(L, Own(F, c), i, G, E)}} : TRUE
PZRecT(F, L, i, G, E) == PRunT(PDRecT(F, L, i, G, E, Roots(F)), E)
\* total degree bound of an instance: sum over data points of the largest exponent used
DegBound(L, i, G, own) == FoldSet(LAMBDA d, acc : acc + Max({L[d + 1][i][k][2] : k \in 1..G}), 0, own)
=============================================================================
