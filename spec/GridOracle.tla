----------------------------- MODULE GridOracle -----------------------------
(***************************************************************************)
(* Walks the universe of forests over Data = 0..N-1 and, on every forest,  *)
(* (1) proves that the implemented recursion equals the definitional sum   *)
(* over feasible CCF assignments - per clone and for the virtual root -    *)
(* and that the max-product forward pass attains the definitional maximum; *)
(* (2) prints the exact integer vectors as the oracle the real Tree's      *)
(* cached arrays and reported CCFs are compared with.                      *)
(***************************************************************************)
EXTENDS GridRec, Json
CONSTANTS N, G, D,        \* data points, grid size, number of samples
          OutliersOn,
          L,              \* L[d+1][i][k+1] positive integer likelihood of data point d in sample i at grid index k
          LL,             \* integer log-likelihood tables for the max-product part (same shape)
          CheckDef,       \* evaluate the brute-force definition (exponential in the number of clones)
          Dump
Data == 0..(N - 1)
VARIABLE st
vars == <<st>>
Init == st = Empty
Next == \E d \in Data \ DataOf(st) : st' \in InsertAny(st, d, OutliersOn)
Samples == 1..D
RecursionIsDefinition ==
  CheckDef => \A i \in Samples : /\ (st.f # {} => ZRec(st.f, L, i, G) = ZDef(st.f, L, i, G))
                                 /\ \A c \in st.f : RRec(st.f, L, i, G, c) = RDef(st.f, L, i, G, c)
MaxProductIsOptimal ==
  CheckDef => \A i \in Samples : st.f # {} => BestRec(st.f, LL, i, G) = BestDef(st.f, LL, i, G)
\* the traceback as implemented (back-pointers, last child first) yields a feasible assignment attaining the optimum
TracebackIsOptimal ==
  CheckDef => \A i \in Samples : st.f # {} => TracebackFeasibleOptimal(st.f, LL, i, G)
Vec(f) == [k \in 1..G |-> f[k - 1]]
Rec == [st |-> st,
        Z |-> [i \in Samples |-> ZRecT(st.f, L, i, G)],
        R |-> {[c |-> c, r |-> [i \in Samples |-> RRecT(st.f, L, i, G, c)]] : c \in st.f},
        best |-> [i \in Samples |-> IF st.f = {} THEN 0 ELSE BestRec(st.f, LL, i, G)]]
Emit == Dump => PrintT(ToJson(Rec))
=============================================================================
