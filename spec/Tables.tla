------------------------------- MODULE Tables -------------------------------
(* Arbitrary positive integer "densities" on forests: a pseudo-random function of the abstract state.    *)
(* Wm plays the role of exp(log_p) (root CCF marginalised; the intermediate SMC target), W1 the role of  *)
(* exp(log_p_one) (root CCF fixed to one; the final target the trace records).  The implementation is    *)
(* run on exactly these numbers through the TableDist stand-in, so probabilities and weights computed by *)
(* TLC and by the code can be compared exactly.                                                          *)
EXTENDS Forests
CONSTANT Seed
Code(c) == FoldSet(LAMBDA d, acc : acc + 2^d, 0, c)
HashSt(st, k) == (FoldSet(LAMBDA c, acc : acc + Code(c) * Code(c) * (7 + k), 0, st.f)
             + Code(st.o) * (11 + 2 * k) + Cardinality(st.f) * 13 + Cardinality(Roots(st.f)) * 5 + Seed * (k + 3)) % 89
Wm(st) == 1 + HashSt(st, 0)
W1(st) == 1 + HashSt(st, 1)
=============================================================================
