------------------------------ MODULE TraceCache ------------------------------
(***************************************************************************)
(* Trace validation for Cache: the stream of cache events recorded from a  *)
(* real process - every call of a memoised entry point with the identity   *)
(* of its arguments and whether functools reported a hit, every clear of   *)
(* the proposal caches, every change of alpha - must be explainable by the *)
(* key functions of Cache.tla:                                             *)
(*   a recorded HIT requires an entry with the call's key in the model     *)
(*   cache (otherwise the implementation's key identifies calls the        *)
(*   specification keeps apart), and HitEqualsRecompute is evaluated on it;*)
(*   a recorded MISS with the key present is an LRU eviction (allowed).    *)
(***************************************************************************)
EXTENDS Cache, Json, IOUtils
Events == JsonDeserialize(IOEnv.TRACE_FILE)
VARIABLE l
tvars == <<alpha, cache, dirty, last, l>>
ArgsOf(e) == IF e.fn \in {"logS", "conv2"} THEN e.args ELSE <<e.args[1], e.args[2]>>
TraceInit == alpha = Events[1].alpha /\ cache = {} /\ dirty = FALSE /\ last = [kind |-> "none"] /\ l = 2
TraceCall(e) ==
  LET fn == e.fn  args == ArgsOf(e)  key == KeyOf(fn, args, alpha)
      hits == {x \in cache : x.key = key} IN
  IF e.hit
  THEN /\ hits # {}
       /\ last' = [kind |-> "hit", returned |-> Handed(CHOOSE x \in hits : TRUE), recomputed |-> TrueVal(fn, args, alpha)]
       /\ UNCHANGED <<alpha, cache, dirty>>
  ELSE /\ last' = [kind |-> "miss", returned |-> TrueVal(fn, args, alpha), recomputed |-> TrueVal(fn, args, alpha)]
       /\ cache' = (cache \ hits) \cup {[key |-> key, val |-> TrueVal(fn, args, alpha), uses |-> 0]}
       /\ UNCHANGED <<alpha, dirty>>
TraceNext == /\ l <= Len(Events) /\ l' = l + 1
             /\ LET e == Events[l] IN
                CASE e.ev = "call"  -> TraceCall(e)
                  [] e.ev = "alpha" -> alpha' = e.alpha /\ dirty' = TRUE /\ last' = [kind |-> "alpha"] /\ UNCHANGED cache
                  [] e.ev = "clear" -> Clear
                  [] OTHER -> FALSE
Consumed == (l = Len(Events) + 1) => PrintT(<<"MATCHED", l - 1>>)
Progress == PrintT(<<"AT", l>>)
=============================================================================
