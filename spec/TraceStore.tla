------------------------------ MODULE TraceStore ------------------------------
(***************************************************************************)
(* The run output as a store that a writer re-writes and summary commands  *)
(* read, with the faults the property speaks about (phyclone/process_trace *)
(* : create_main_run_output; write_map_results, write_consensus_results,   *)
(* write_topology_report).  One older, complete run sits at the path; a    *)
(* new run is written over it:                                             *)
(*                                                                         *)
(*   Open          the main file is truncated (as implemented: opened      *)
(*                 "wb"), or - deviation TmpAndRename - a temporary file   *)
(*                 is started and the path keeps what it held              *)
(*   Append        one more byte of the current file                       *)
(*   Checkpoint    (TmpAndRename only) a complete snapshot of a PART of    *)
(*                 the new run is moved onto the path                      *)
(*   NextFile      the main file is complete; a companion file follows     *)
(*                 (deviation Companion: e.g. a cluster table as text)     *)
(*   Interrupt     an exception unwinds the writer (Ctrl-C, a write that   *)
(*                 fails): as implemented only the compression trailer is  *)
(*                 written; deviation EndRecordOnError: a well-formed end  *)
(*                 record after the chains written so far                  *)
(*   Kill          the process dies at any point                           *)
(*   Finish        everything written (and, with TmpAndRename, renamed)    *)
(*   Read          a summary command reads the path: as implemented the    *)
(*                 file is opened and unpickled every time; deviation      *)
(*                 ReaderMemo: a process that read the path before answers *)
(*                 from memory                                             *)
(*                 The main file is all-or-nothing (one pickled object in  *)
(*                 one compressed stream); a companion text file is        *)
(*                 accepted at any record boundary (LenientCompanion).     *)
(*                                                                         *)
(* What a read returns: "error", "old" (the older run, complete), "new"    *)
(* (the new run, complete) or "part" (some but not all of the new run).    *)
(* NeverPartial: no read returns "part".  NeverStale: once the path was    *)
(* touched by the new writer no read returns "old".  Both hold for the     *)
(* design as implemented and each deviation is refuted.  The harness of    *)
(* C20 realises the same actions on real files: Kill = every byte prefix   *)
(* and RLIMIT_FSIZE, Interrupt = an exception raised from the stream's     *)
(* write(), Read after an earlier Read = a driver that summarised the      *)
(* older run, companion files = whatever else the writer creates.          *)
(***************************************************************************)
EXTENDS Naturals, TLC
CONSTANTS MainLen,            \* bytes of the main file (>= 2)
          CompLen,            \* bytes of the companion file (0 = none)
          RecordEvery,        \* the companion file has a record boundary every RecordEvery bytes
          TmpAndRename, EndRecordOnError, LenientCompanion, ReaderMemo,
          NoTruncate          \* deviation: the main file is opened without truncation and overwritten in place
VARIABLES phase,      \* "idle" | "main" | "comp" | "done" | "dead"
          path,       \* what the path holds: [run |-> "old"|"new", bytes |-> n, whole |-> BOOLEAN, sealed |-> "no"|"all"|"part"]
          tmp,        \* bytes written to the temporary file (TmpAndRename)
          comp,       \* bytes of the companion file present (belongs to the new run)
          touched,    \* the new writer has changed what the path holds
          memo,       \* what a long-lived reader remembers ("none" or a result)
          last,       \* result of the last read
          lastT,      \* had the new writer touched the path when that read was made?
          lastPh      \* the writer's phase at that read
vars == <<phase, path, tmp, comp, touched, memo, last, lastT, lastPh>>
Old == [run |-> "old", bytes |-> MainLen, sealed |-> "all"]
Init == /\ phase = "idle" /\ path = Old /\ tmp = 0 /\ comp = 0 /\ touched = FALSE /\ memo = "none"
        /\ last = "none" /\ lastT = FALSE /\ lastPh = "idle"
Open == /\ phase = "idle" /\ phase' = "main"
        /\ IF TmpAndRename THEN UNCHANGED <<path, touched>>
           ELSE /\ touched' = TRUE
                /\ path' = IF NoTruncate THEN path      \* nothing flushed yet: the older run's bytes are all still there
                           ELSE [run |-> "new", bytes |-> 0, sealed |-> "no"]
        /\ UNCHANGED <<tmp, comp, memo, last, lastT, lastPh>>
Cur == IF TmpAndRename THEN tmp ELSE IF path.run = "old" THEN 0 ELSE path.bytes
Append == /\ phase = "main" /\ Cur < MainLen
          /\ IF TmpAndRename THEN tmp' = tmp + 1 /\ UNCHANGED path
             ELSE /\ UNCHANGED tmp
                  /\ path' = IF path.run = "old" THEN [run |-> "new", bytes |-> 1, sealed |-> "no"]     \* first overwritten byte (NoTruncate)
                             ELSE [path EXCEPT !.bytes = @ + 1]
          /\ UNCHANGED <<phase, comp, touched, memo, last, lastT, lastPh>>
\* a checkpoint of the part written so far, complete in itself, moved onto the path
Checkpoint == /\ TmpAndRename /\ phase = "main" /\ tmp > 0 /\ tmp < MainLen
              /\ path' = [run |-> "new", bytes |-> tmp, sealed |-> "part"] /\ touched' = TRUE
              /\ UNCHANGED <<phase, tmp, comp, memo, last, lastT, lastPh>>
SealMain == /\ phase = "main" /\ Cur = MainLen
            /\ path' = [run |-> "new", bytes |-> MainLen, sealed |-> "all"] /\ touched' = TRUE
            /\ phase' = (IF CompLen > 0 THEN "comp" ELSE "done")
            /\ UNCHANGED <<tmp, comp, memo, last, lastT, lastPh>>
AppendComp == /\ phase = "comp" /\ comp < CompLen /\ comp' = comp + 1 /\ UNCHANGED <<phase, path, tmp, touched, memo, last, lastT, lastPh>>
FinishComp == /\ phase = "comp" /\ comp = CompLen /\ phase' = "done" /\ UNCHANGED <<path, tmp, comp, touched, memo, last, lastT, lastPh>>
\* an exception unwinds the writer while the main file is being written
Interrupt == /\ phase = "main" /\ ~TmpAndRename /\ path.run = "new" /\ path.bytes > 0 /\ path.bytes < MainLen
             /\ path' = [path EXCEPT !.sealed = IF EndRecordOnError THEN "part" ELSE "no"]
             /\ phase' = "dead" /\ UNCHANGED <<tmp, comp, touched, memo, last, lastT, lastPh>>
Kill == /\ phase \in {"main", "comp"} /\ phase' = "dead" /\ UNCHANGED <<path, tmp, comp, touched, memo, last, lastT, lastPh>>
\* what opening and parsing the store gives
CompOK == CompLen = 0 \/ comp = CompLen \/ (LenientCompanion /\ comp > 0 /\ comp % RecordEvery = 0)
CompPartial == CompLen > 0 /\ comp < CompLen
Parse == IF path.sealed = "no" THEN "error"
         ELSE IF path.run = "old" THEN "old"
         ELSE IF path.sealed = "part" THEN "part"
         ELSE IF ~CompOK THEN "error"
         ELSE IF CompPartial THEN "part" ELSE "new"
Read == /\ phase \in {"idle", "dead", "done"}
        /\ LET r == IF ReaderMemo /\ memo # "none" THEN memo ELSE Parse IN
             /\ last' = r /\ lastT' = touched /\ lastPh' = phase
             /\ memo' = IF ReaderMemo /\ r # "error" THEN r ELSE memo
        /\ UNCHANGED <<phase, path, tmp, comp, touched>>
Next == Open \/ Append \/ Checkpoint \/ SealMain \/ AppendComp \/ FinishComp \/ Interrupt \/ Kill \/ Read
Spec == Init /\ [][Next]_vars
NeverPartial == last # "part"
NeverStale == ~(last = "old" /\ lastT)
CompleteReadsNew == (last # "none" /\ lastPh = "done" /\ ~ReaderMemo) => last = "new"
=============================================================================
