#!/usr/bin/env python3
"""Regenerates the seeded-change table of DESIGN.md (between the SEEDED-TABLE markers) from seeded/*/meta.json."""
import glob, json, os, re
DESC = {
"C01b-m1": "stratified instead of multinomial resampling of the free particles (exact with 2 particles; needs >= 3 particles and unequal weights)",
"C01b-m2": "value-based __eq__/__hash__ removed from the tree distributions: stale cached new-clone tree after alpha changes in place (library use, no cache clear)",
"C04b-m1": "log_p_one's outlier prior = count x first data point's prior (needs data points with different outlier priors, i.e. unequal cluster sizes)",
"C04b-m2": "prune-regraph never draws the only root as subtree (state-dependent choice; matters where multi-root forests carry mass)",
"C06b-m1": "_update_path_to_root refreshes ancestors in graph-index order (wrong after a graft gave children larger indices)",
"C06b-m2": "add_data_point walks parents with `while ancestor:` (clone label 0 ends the walk; needs relabel or a graft below clone 0)",
"C07b-m1": "prune-regraph prunes the caller's tree in place; the early return hands back the pruned tree",
"C07b-m2": "from_dict restores data lists only when the tree has an edge: an outlier-only tree deserialises empty",
"C08b-m1": "conditional SMC init weights particles with log_w instead of _get_log_w (no last-step correction for one data point)",
"C08b-m2": "semi-adapted proposal drops the outlier candidate for data points whose outlier prior is the default 0",
"C14b-m1": "compute_log_S accumulates in place into the array memoised by _convolve_two_children (>= 4 children after a 3-children call)",
"C14b-m2": "from_dict stops copying data lists: trees built from a cached TreeHolder share them with the cached value",
"C15b-m1": "DataPoint pickling re-derives outlier_prob_not assuming cluster size 1 (needs clustered data points and outlier modelling)",
"C15b-m2": "prune-regraph stashes log_p_one for the trace; early returns leave a stale value (needs concentration updates off)",
"C19b-m1": "to_dict returns the live data lists: recorded entries lose outliers when the subtree sampler edits the chain's tree",
"C19b-m2": "remove_subtree node-count shortcut + prune-regraph without its early return: outliers lost when the only root is pruned",
"C02c-m1": "compute_log_S key = frozenset of digests",
"C02c-m2": "running convolution max-normalised in place: corrupts the memoised pair convolution (>= 3 children first, then the pair)",
"C03c-m1": "from_dict no longer copies the data lists: trees restored from one snapshot share them",
"C03c-m2": "stand-alone log_p adds the grid term when the tree has any data (outlier-only tree built directly)",
"C05c-m1": "memoised grids + in-place cluster accumulation: the running sum is written into the cache (identical rows, clustered input)",
"C05c-m2": "tumour content looked up once per sample instead of per row",
"C09c-m1": "log_count takes subtree sizes from one pass over tree.nodes (wrong after a regraft below a non-top clone)",
"C09c-m2": "outlier term via an int64 product that wraps for large inputs (n >= 21 with many outliers)",
"C10c-m1": "max-product writes into the tree's own log_p array: the second call on one tree object is wrong",
"C10c-m2": "arg-max accepts np.isclose ties (non-maximal for large-magnitude log-likelihoods / fine grids)",
"C11c-m1": "Tree.__hash__ uses the ORDERED outlier list (same tree, other outlier order -> two report rows)",
"C11c-m2": "archive top-N sorted by the id string (needs >= 11 distinct topologies)",
"C12c-m1": "clustered labels table takes the cluster id by position (wrong when a cluster lost all its mutations)",
"C12c-m2": "clusters table attached to the first finished chain only (readers use chain 0; needs chains finishing out of order)",
"C13c-m1": "mixture rate uses the prior shape instead of the prior rate (exact only when a = b)",
"C13c-m2": "K assigned, not accumulated, over top-level clones (wrong for forests with >= 2 roots)",
"C16c-m1": "topology count not incremented when a revisit improves the score (weighted consensus)",
"C16c-m2": "entries whose iter equals the next entry's iter are dropped (real traces record iter 0 twice)",
"C17c-m1": "positional walk relying on a stable sort (breaks with > 16 kept rows or integer mutation ids)",
"C17c-m2": "zero-copy-number pass only when a duplicate was counted",
"C18c-m1": "children arrays sorted by hash(bytes) before convolution for >= 3 children (results depend on PYTHONHASHSEED in the last bits)",
"C18c-m2": "output re-keyed by completion order when a cluster file is given",
"C20c-m1": "lenient inflate + cluster table as a second pickle: one exact cut drops the cluster table silently",
"C20c-m2": ".prev rotation with reader fallback: a killed re-run is summarised from the older run",
"C05d-m1": "_setup_cluster_df refactor: --assign-loss-prob without any chrom column falls back to the global prior instead of --low-loss-prob (needs a non-default low value)",
"C05d-m2": "cluster grids summed with np.add.reduceat, segment boundaries from the cluster FILE's counts (wrong when the file lists a mutation the loader drops, not in the last cluster)",
"C17d-m1": "top-prevalence cluster per sample via idxmax: with tied top clusters the truncal cluster depends on the row order of the cluster file (--assign-loss-prob)",
"C17d-m2": "clusters numbered over the whole cluster table: a gap in the data point numbering when every mutation of a cluster is dropped",
"C18d-m2": "truncal chromosome array encoded through enumerate(set(...)): with string chromosome names the permutation test's draws depend on PYTHONHASHSEED (borderline cluster)",
"C01e-m1": "semi-adapted log_p classifies the outlier move as a new-node move (root-membership frozenset lost the outlier clause); needs outlier modelling on",
"C01e-m2": "bootstrap log_p of a new node loses the (1-o) factor after hoisting constants; needs outlier proposal probability > 0 and >= 2 clones",
"C02e-m1": "one-shot FFT product for >= 3 children with a transform length that only fits a pair (circular wrap-around; grids >= 1000)",
"C02e-m2": "add_subtree no longer copies the grafted subtree: node payloads shared between the trees it was grafted into (needs two live trees and a later edit of one)",
"C03e-m1": "outlier marginal computed in linear space with ONE global max shift: -inf when sample rows differ by > 745 nats",
"C03e-m2": "grafted clones relabelled from the node count instead of the largest label: label clash after remove_subtree left gaps (>= 5 clones, smaller graft)",
"C04e-m1": "Tree.move_data_point skips the second root-path refresh when old and new clone are on one lineage: stale ancestors two levels down (>= 4 points, chain of 3 clones)",
"C04e-m2": "data-point sweep visits only the points movable at the START of the sweep (schedule depends on the start state; single steps stay exact)",
"C05e-m1": "variant allele probability helper caps at 1-eps only when x == total_cn (wrong for error rates > 1/total_cn)",
"C05e-m2": "zero-depth samples filtered out before the numba loop, which indexes rows by list position: later samples' grids land in the wrong rows",
"C06e-m1": "_update_path_to_root stops when the recomputed log_r is np.allclose to the old one (relative tolerance: stale ancestors for |log_r| ~ 1e5)",
"C06e-m2": "FFT convolution writes into a module-level output buffer that the pair memo table keeps by reference (grids >= 1000, >= 3 children)",
"C07e-m1": "same change as C03e-m2 (graft labels from the node count), shown as duplicate clone names / lost data in the subtree move",
"C07e-m2": "to_dict stops copying the per-clone data lists: recorded trees lose outliers when the subtree move edits its input in place",
"C08e-m1": "bootstrap sample() reuses one uniform for outlier / existing / new: draws (0.5-o, 0.5, o) vs reported ((1-o)/2, (1-o)/2, o)",
"C08e-m2": "shared _log_p_new_node helper carries the bootstrap prefactor into the semi-adapted proposal: probabilities sum to 1 - o/2",
"C09e-m1": "burn-in sampler shuffles all data instead of drawing a tree-compatible order (visible from the second burn-in pass)",
"C09e-m2": "fast path returns outliers unshuffled when the tree has no clones",
"C10e-m1": "max-product recursion memoised with the order-blind key although it returns per-child choice tables (siblings swap CCFs on a second tree in one process)",
"C10e-m2": "inner search starts at the previous budget's optimum (valid only for concave tables; copy-number-altered mutations)",
"C11e-m1": "frequency-mode MAP reads the winning row by label 0 instead of position 0",
"C11e-m2": "unpickled trace memoised per path, never invalidated (same path re-written in one process)",
"C12e-m1": "archive Newick taken from the best-scoring visit, table from the first visit (different child order -> different clone numbering)",
"C12e-m2": "consensus keeps clades with support >= threshold: exact 50/50 splits give inconsistent clades / KeyError",
"C13e-m1": "cached new-node trees keyed without the tree distribution and never cleared: densities under a stale concentration value",
"C13e-m2": "n (non-outlier data count) computed once per chain and passed to every concentration update",
"C14e-m1": "32-bit digests as memo keys of the convolution tables (collisions after ~1e5 different grids)",
"C14e-m2": "memoised existing-node candidate list handed out by reference; the semi-adapted proposal appends to it on every rebuild at unchanged alpha",
"C15e-m1": "remove_subtree tests 'whole tree' by node count: outliers wiped when the only top-level clone is pruned (subtree move with outliers)",
"C15e-m2": "from_dict takes over the dictionary's data lists: restoring the same entry twice after an edit gives different trees",
"C16e-m1": "weighted consensus looks only at the heaviest topologies whose cumulative weight exceeds the threshold (tail support ignored)",
"C16e-m2": "counts mode reuses the previous Tree when edge list and log_p_one equal the previous entry's (twin mutations swapped between siblings)",
"C17e-m1": "genotype priors looked up by copy-number state only: rows sharing a state but not the error rate get another row's prior, depending on row order",
"C17e-m2": "cluster ids read as strings: lexical order for integer ids of mixed width (>= 11 clusters)",
"C18e-m1": "concentration sampler's no-clone branch draws from numpy's global generator",
"C18e-m2": "convolution back-end chosen by a timing race for grids between 256 and 2048",
"C19e-m1": "no-clone branch of the concentration sampler returns the prior draw without the 1e-10 floor (alpha underflows to 0 in a long all-outlier run)",
"C19e-m2": "swarm weights exponentiate the UNnormalised log weights: NaN for data points whose incremental weight is below -745",
"C20e-m1": "memoised trace loader keyed by path: a killed re-run or later truncation is not seen by a process that summarised the path before",
"C20e-m2": "cluster table written as a separate TSV after the trace (read_csv accepts any prefix)",
}
rows = []
for d in sorted(glob.glob('/verif/seeded/*/meta.json')):
    m = json.load(open(d)); name = m['name']
    if name in DESC and not m.get('needs'):
        m['needs'] = DESC[name]
    m.setdefault('breaks', m['property'])
    m.setdefault('ran', "tools/confirm_seeds.py: git worktree of /repo HEAD, git apply patch.diff, demo.py with/without the change, pytest phyclone/tests with the change, ./check <ID> --tier quick with PCV_REPO=<worktree>")
    json.dump(m, open(d, 'w'), indent=1)
    det = [k for k, v in m['checks'].items() if v['detected']]
    rnd = {"f": 6, "e": 5, "d": 4, "c": 3, "b": 2}.get(name.split('-')[0][-1], 1)
    rows.append("| %s | %d | %s | %s | %s | %s/%s | %s |" % (name, rnd, m['property'], m.get('needs', ''), ", ".join(det) or "-", m['demo']['exit_with_change'], m['demo']['exit_without_change'], m['tests']['passed']))
table = "| seeded change | round | property | what it does / what it needs to manifest | caught by (quick tier) | demo exit with/without | tests passed |\n|---|---|---|---|---|---|---|\n" + "\n".join(rows) + "\n"
s = open('/verif/DESIGN.md').read()
b, e = "<!-- SEEDED-TABLE-BEGIN -->", "<!-- SEEDED-TABLE-END -->"
if b in s:
    s = s[:s.index(b) + len(b)] + "\n" + table + s[s.index(e):]
    open('/verif/DESIGN.md', 'w').write(s)
print(len(rows), "rows;", sum(1 for r in rows if "| - |" in r), "undetected")
