#!/usr/bin/env python3
"""Validate MANIFEST.json and evidence/*.json against the schemas (run with python3-vt)."""
import json, glob, sys, jsonschema
m=json.load(open('/verif/MANIFEST.json')); s=json.load(open('/root/.vp/MANIFEST.schema.json'))
jsonschema.validate(m,s); print("manifest valid:", len(m["checks"]), "checks")
s=json.load(open('/root/.vp/EVIDENCE.schema.json'))
bad=0
for p in sorted(glob.glob('/verif/evidence/*.json')):
    try:
        jsonschema.validate(json.load(open(p)),s); print("ok ",p)
    except Exception as e:
        bad+=1; print("BAD",p,str(e)[:300])
sys.exit(1 if bad else 0)
