#!/bin/sh
# usage: tools/try_mutant.sh <patch.diff> <ID> [<ID> ...]   -- apply a seeded change to /repo, run checks, undo
patch="$1"; shift
cd /verif || exit 2
git -C /repo diff --quiet || { echo "/repo has uncommitted changes"; exit 2; }
git -C /repo apply "$patch" || { echo "patch does not apply"; exit 2; }
mkdir -p build/mutant_ev
for id in "$@"; do
  cp evidence/$id.json build/mutant_ev/$id.json.keep 2>/dev/null
  echo "=== $id with $patch"
  ./check "$id" --tier "${TIER:-quick}" 2>&1 | grep -E "^(VIOLATION|KNOWN-FINDING|OK|MACHINERY|MODEL-DRIFT)" | cut -c1-330 | head -8
  echo "exit=$?"
  cp build/mutant_ev/$id.json.keep evidence/$id.json 2>/dev/null
done
git -C /repo checkout -- .
git -C /repo status --short | head -3
