"""Per-check metadata for MANIFEST.json (edited by hand; `python3 tools/gen_manifest.py` regenerates)."""

SOURCE_COMMITS = []  # no hook commits in /repo: recorders are attached from the harness

NOTES = (
    "Family: model-based verification with explicit TLA+ specifications (spec/*.tla), checked with TLC, "
    "bound to the implementation by (a) replaying TLC-enumerated instances/behaviours into the real code and "
    "(b) validating recorded executions against Trace*.tla. See DESIGN.md. Exit codes: 0 held, 1 violation "
    "(VIOLATION line), 2 machinery failure. Known findings: known_findings.json."
)

ENGINES = [
    {"name": "tlc", "path": "/verif/pcv/tlc.py", "kind_free_text": "TLC 1.8 driver: cfg/MC generation, JSON oracle dumps, coverage"},
    {"name": "enumrng", "path": "/verif/pcv/enumrng.py", "kind_free_text": "enumerating/scripted numpy-Generator stand-in: exact laws of real sampler calls"},
    {"name": "Perm.tla", "path": "/verif/spec/Perm.tla", "serves_properties": ["C09", "C01"], "kind_free_text": "compatible orders, count formula, bridge-shuffle sampler"},
    {"name": "Proposal.tla", "path": "/verif/spec/Proposal.tla", "serves_properties": ["C08", "C01"], "kind_free_text": "three proposals as draw procedures + reported densities, incremental weights, telescoping state machine"},
    {"name": "PGibbs.tla", "path": "/verif/spec/PGibbs.tla", "serves_properties": ["C01", "C19"], "kind_free_text": "distribution-lifted particle-Gibbs update in F_p with deviation constants"},
    {"name": "Moves.tla", "path": "/verif/spec/Moves.tla", "serves_properties": ["C04", "C07"], "kind_free_text": "exact F_p kernels of data-point, prune-regraft and (ideal-inner) subtree moves"},
    {"name": "TreeADT.tla", "path": "/verif/spec/TreeADT.tla", "serves_properties": ["C06", "C07", "C15"], "kind_free_text": "implementation-shaped Tree ADT with symbolic cache signatures under the sampler edit grammar; TraceTreeADT.tla validates recorded steps"},
    {"name": "GridRec.tla", "path": "/verif/spec/GridRec.tla", "serves_properties": ["C02", "C06", "C10", "C03"], "kind_free_text": "CCF-grid sum-product / max-product: definition vs implemented recursion; GridOracle.tla dumps exact integer vectors"},
    {"name": "Density.tla", "path": "/verif/spec/Density.tla", "serves_properties": ["C03"], "kind_free_text": "FS-CRP joint density as a symbolic record of the abstract state"},
    {"name": "Chain.tla", "path": "/verif/spec/Chain.tla", "serves_properties": ["C15", "C19", "C13", "C14"], "kind_free_text": "chain driver state machine over option records; TraceChain.tla validates recorded event streams"},
    {"name": "Concentration.tla", "path": "/verif/spec/Concentration.tla", "serves_properties": ["C13"], "kind_free_text": "Escobar-West parameter wiring as exact rationals; ConcentrationKN.tla for (K, n)"},
    {"name": "Cache.tla", "path": "/verif/spec/Cache.tla", "serves_properties": ["C14"], "kind_free_text": "memo tables with real key functions under arbitrary histories"},
    {"name": "Summaries*.tla", "path": "/verif/spec/SummariesMap.tla", "serves_properties": ["C11", "C12", "C16"], "kind_free_text": "SummariesMap (MAP / topology report scan), SummariesTable (result table rows), SummariesCons / SummariesCons4 (consensus)"},
    {"name": "Loader.tla", "path": "/verif/spec/Loader.tla", "serves_properties": ["C17"], "kind_free_text": "input tables as cell->rows functions: documented vs implementation-shaped filtering"},
    {"name": "Emission.tla", "path": "/verif/spec/Emission.tla", "serves_properties": ["C05"], "kind_free_text": "PyClone genotype enumeration and exact rational VAFs"},
    {"name": "MoveRel.tla", "path": "/verif/spec/MoveRel.tla", "serves_properties": ["C04", "C07"], "kind_free_text": "the tree moves as relations on abstract forests (candidate sets of the data-point and prune-regraft moves, block structure of the subtree move); Moves.tla puts the weights on them"},
    {"name": "TraceMoves.tla", "path": "/verif/spec/TraceMoves.tla", "serves_properties": ["C04", "C07"], "kind_free_text": "trace validation of recorded sampler steps of real chains (6-8 data points) against MoveRel with the chain's current tree carried along; total verdicts naming the failing clause"},
    {"name": "TraceStore.tla", "path": "/verif/spec/TraceStore.tla", "serves_properties": ["C20", "C11"], "kind_free_text": "the run output re-written over an older run: truncate-on-open, appends, kill, exception unwinding the writer, companion files, tmp+rename with checkpoints, reader memo; NeverPartial / NeverStale"},
    {"name": "LossProb.tla", "path": "/verif/spec/LossProb.tla", "serves_properties": ["C05", "C17", "C18"], "kind_free_text": "cluster outlier/loss prior: option resolution of run(), cluster-table column, truncal cluster, lost-cluster test as the exact law of distinct chromosomes, prior terms"},
    {"name": "Chains.tla", "path": "/verif/spec/Chains.tla", "serves_properties": ["C18"], "kind_free_text": "multi-chain scheduler: spawned streams, interleavings, completion orders"},
    {"name": "TraceFile.tla", "path": "/verif/spec/TraceFile.tla", "serves_properties": ["C20"], "kind_free_text": "streamed single write with crash after any prefix; reader all-or-error"},
    {"name": "Forests.tla", "path": "/verif/spec/Forests.tla", "serves_properties": ["C01", "C03", "C04", "C06", "C07", "C08", "C09", "C11", "C12", "C16"], "kind_free_text": "canonical forest universe"},
]

NOT_APPLICABLE = {}

CHECKS = {
    "C10": {
        "engine": "GridRec.tla",
        "category": "model_checking",
        "technique": "TLC proves max-product forward pass = definitional optimum on every forest and emits it; reported CCFs checked for grid membership, feasibility, exact optimality",
        "design_ref": "DESIGN.md 5 C10",
        "text": "On every forest over <=4 (quick) / <=5 (thorough) data points with integer log-likelihood tables full of ties TLC proves that the "
                "implemented max-plus recursion attains the maximum over all feasible CCF-index assignments and prints that optimum per sample; "
                "get_map_node_ccfs_and_clonal_prev_dicts is run on the same instances as real trees (three construction histories, 1-3 samples, "
                "grids 3-6): CCFs must be grid points, feasible in every sample, score exactly the optimum, and clonal prevalence must be CCF "
                "minus children and non-negative.",
        "note": "Trusted: TLC, the tree builder. The traceback itself is judged by its output (feasible + optimal), not modelled step by step.",
    },
    "C01": {
        "engine": "PGibbs.tla",
        "category": "model_checking",
        "technique": "TLC distribution-lifted F_p model of one PG update (Stationary) + exact transition matrix of the real sampler by RNG enumeration",
        "design_ref": "DESIGN.md 5 C01",
        "text": "TLC evaluates the whole particle-Gibbs update (order draw, retained path, init, resampling with retained slot, "
                "propagation, weights, last-step correction, selection) as an exact distribution transformer in F_p over integer density "
                "tables and proves global balance for all forests on <=2 (quick) / <=3 (thorough) points, 3 proposals, outliers on/off, "
                "2-3 particles, 3 resampling policies; six deviation models must be refuted. The real sampler's exact transition matrix "
                "(every RNG outcome enumerated, both the run-command wiring and the library wiring) is computed on the same tables and on "
                "the real density with alpha != 1, and max|pi K - pi| <= 1e-10 is required with pi = exp(log_p_one) from the code.",
        "note": "Trusted: TLC, EnumRNG fidelity, projection. End-to-end enumeration bounded to n<=3 data points, NP<=3; n-dependent ingredients covered by C08/C09.",
    },
    "C02": {
        "engine": "GridRec.tla",
        "category": "model_checking",
        "technique": "TLC proves recursion = definitional sum on every forest and emits exact integer / polynomial-ring oracles; real trees compared entry-wise",
        "design_ref": "DESIGN.md 5 C02",
        "text": "On every forest over <=4 (quick) / <=5 (thorough) data points TLC proves that the implemented R/S/D recursion equals the "
                "brute-force sum over all feasible CCF-index assignments (per clone and for the virtual root) on integer likelihood tables, "
                "and prints the exact vectors; the recursion is also evaluated over Z[B] (monomial weights) to obtain exact oracles with "
                "10^-40..10^-320 dynamic range, and on grids of 999/1000/1001 points across the direct/FFT switch. Every instance is built as "
                "a real Tree through three construction histories, with 1-3 samples (10 for the 101-point grid) and per-sample scale offsets, "
                "and data_log_likelihood is compared entry-wise (1e-9 above the floor zone, not-below-exact and finite in it, the property's "
                "1e-6-of-peak rule on the FFT path).",
        "note": "Trusted: TLC integer arithmetic (loud overflow), big-integer evaluation of TLC's polynomials at B=10^-m, the tree builder. Arbitrary real-valued rows beyond these families are not covered.",
    },
    "C03": {
        "engine": "Density.tla",
        "category": "model_checking",
        "technique": "TLC derives the FS-CRP feature record of every forest from its clade family and the exact data terms; real densities of many constructions compared with the model value",
        "design_ref": "DESIGN.md 5 C03",
        "text": "TLC walks every forest on <=3 (quick) / <=4 (thorough) data points with any outlier subset, derives the model's symbolic record "
                "(K, clone sizes, top-level subtree sizes, child counts incl. the virtual root, outliers) from the clades alone, checks its "
                "consistency, and GridOracle.tla supplies the exact integer data terms and outlier marginals. For each state 4-5 concrete "
                "constructions (different build orders, relabelled copy, dict round trip, moved-and-back) are evaluated with log_p, log_p_one, "
                "the fused computation and the particle holder for 5 alpha values (fresh objects and the alpha setter of a reused object), 4 "
                "outlier-prior / cluster-size settings, and must equal the record evaluated with lgamma/log (1e-9); ==/hash must agree with "
                "equality of abstractions.",
        "note": "Trusted: TLC, lgamma/log evaluation of the record by the harness, integer likelihood tables. p=1 excluded.",
    },
    "C11": {
        "engine": "SummariesMap.tla",
        "category": "model_checking",
        "technique": "TLC runs the implementation-shaped scan over every small trace and proves the definitions, printing admissible outputs; each trace replayed through the real map / topology-report commands on real trace files",
        "design_ref": "DESIGN.md 5 C11",
        "text": "SummariesMap.tla enumerates every trace of <=2 (thorough: 3) chains in every completion order with <=2 entries over all forests on "
                "2 data points and integer score multipliers (ties), runs the implementation-shaped single scan (strict arg-max; dictionary "
                "keyed by tree identity) one entry per step and proves MapCorrect / TopoCorrect / CountsSum; it prints the admissible MAP trees "
                "(both modes) and report rows with all attaining pointers. 1 000 sampled (thorough: all ~14 k) traces are written as real "
                "gzip-pickle traces (real tree dicts incl. relabelled copies, chains in the trace's completion order) and run through "
                "write_map_results (both modes) and write_topology_report (archive, top_trees 1/2/all); outputs are parsed back (table + "
                "Newick -> clades) and compared.",
        "note": "Trusted: TLC, the output parser. Universe bounded to forests on 2 points; row identity taken through the chain/entry pointer.",
    },
    "C12": {
        "engine": "SummariesTable.tla",
        "category": "model_checking",
        "technique": "TLC enumerates forests x clusterings x samples and prints the admissible table rows and clone parent relation; real commands' outputs parsed and compared",
        "design_ref": "DESIGN.md 5 C12",
        "text": "SummariesTable.tla gives, for every forest on <=3 (thorough: 4) points with any outlier subset (incl. all-outlier), cluster sizes "
                "1-3 and 1-2 samples, the admissible table (one row per mutation and sample, cluster members share the owning clone or -1) and the "
                "clone parent relation. get_clone_table is run on every such forest and the map, consensus and topology-report commands on real "
                "single-topology trace files, unclustered and clustered with integer cluster ids: they must complete, rows must be exactly "
                "TLC's, the Newick tree must have TLC's parent relation, CCF / prevalence columns must be the clone's values within [0,1], -1 for "
                "outliers; trees with clones that own nothing (consensus-built) are covered too.",
        "note": "Trusted: TLC, the output parser. CCF values are compared with the MAP function of the same tree (its optimality is C10).",
    },
    "C16": {
        "engine": "SummariesCons.tla",
        "category": "model_checking",
        "technique": "TLC computes exact rational clade supports, the majority family (laminar) and the node-identity collision predicate for every small sample; real consensus code and command compared",
        "design_ref": "DESIGN.md 5 C16",
        "text": "SummariesCons.tla enumerates every sample of <=3 trees over all forests on 3 points (counts), <=2 trees with score multipliers "
                "(weighted) and with outliers, for thresholds 1/2, 2/3, 9/10, 1: exact support, Cons = clades strictly above the threshold, "
                "LaminarInv, NoCollision, and flags instances whose support equals the threshold (not judged). SummariesCons4.tla refutes the "
                "own-mutations-only node identity on 4 points and (thorough) proves laminarity / no collision for all 14 M triples. "
                "get_consensus_tree + get_tree_from_consensus_graph are run on 6 000 sampled (thorough: all ~24 k) instances and "
                "write_consensus_results on real trace files for a sample: result well-formed, clade set exactly Cons, uncovered data = -1.",
        "note": "Trusted: TLC rationals, projection, output parser. 3-point universe exhaustive; hand-picked 4-point samples with empty clones.",
    },
    "C13": {
        "engine": "Concentration.tla",
        "category": "model_checking",
        "technique": "TLC proves the Escobar-West mixture identity on a rational grid and the (K,n) extraction on every forest; recording stubs for the three scipy draws; recorded chains; seeded distribution-level test",
        "design_ref": "DESIGN.md 5 C13",
        "text": "Concentration.tla computes, as exact rationals over 1 701 grid points (a, b, alpha, L=-log eta, K<=n<=6), the Beta parameters, "
                "Gamma shapes and rate and the mixture weight as the code computes it, and TLC proves n*pi*r = s*(1-pi) (the density is "
                "proportional to x^(a+K-2)(x+n)e^(-x(b-log eta))); shape a+K is refuted. ConcentrationKN.tla gives (K, n) with outliers "
                "excluded for every forest. The real sampler is run with recording stubs in place of scipy's beta/bernoulli/gamma on every grid "
                "point and both Bernoulli outcomes (parameters to 1e-12, own generator used, returned value); update_concentration_value must "
                "pass TLC's (K, n) on every forest and store the value so later densities use it; recorded chains must show the value flowing "
                "into the next entries. A seeded distribution-level comparison with the exact one-step CDF (KS, 6 000 draws x 4 settings) "
                "decides when the draw structure differs from the stubs' expectations.",
        "note": "Assumed, not evaluated by TLC: the Escobar-West lemma; scipy's rvs semantics. The KS test is a supplementary statistical oracle (threshold 0.035, fixed seeds).",
    },
    "C14": {
        "engine": "Cache.tla",
        "category": "model_checking",
        "technique": "TLC model of the four memo tables with their real key functions under arbitrary call/alpha/clear/evict histories; shadow execution of every cached call against the wrapped original",
        "design_ref": "DESIGN.md 5 C14",
        "text": "Cache.tla models the memo tables and key functions (multiset of content digests, set of two digests, proposal key with alpha, "
                "new-clone-tree key with the distribution by value) under all interleavings of calls, alpha changes, clears and evictions: "
                "HitEqualsRecompute holds as implemented with and without the run-loop clearing protocol, and with the protocol alone; keying "
                "by the set of digests or dropping alpha without the protocol is refuted. On the real code every call of the five cached entry "
                "points - in six seeded chains with concentration updates and in spec-derived adversarial histories (permuted/duplicated child "
                "arrays, alpha alternating on a reused kernel without clears) - is followed by the wrapped original on the same arguments and "
                "the results must agree.",
        "note": "Trusted: TLC; wrappers installed on module bindings (no source hooks); 64-bit digest collisions ignored. Sampled histories on the code side.",
    },
    "C15": {
        "engine": "TreeADT.tla + Chain.tla",
        "category": "model_checking",
        "technique": "TLC: DictRoundTrip inside the edit-grammar closure, Chain.tla trace protocol over the option cross-product; round trips + lock-step editing along real edit walks; TLC trace validation of recorded chains",
        "design_ref": "DESIGN.md 5 C15",
        "text": "TreeADT.tla contains the dictionary round trip as an action enabled at every idle point of the edit-grammar closure, and "
                "Chain.tla proves TraceProtocol / TraceComplete / EntriesCurrent / AppendOnly for 2 592 option records. On the real code, every "
                "live tree along in-place edit walks (4-5 points: index gaps after pruning, outlier-only and relabelled trees) is sent through "
                "to_dict/from_dict, pickle and gzip-pickle: clades, outliers, labels, parents, per-node arrays (1e-12) and densities must be "
                "equal; copies restored from stored dictionaries are edited in lock-step with the original and must stay equal, and the stored "
                "dictionaries must stay valid. Seeded chains over an option grid: every entry restores to a tree over all data whose "
                "log_p_one recomputed under the recorded alpha equals the recorded value, iterations follow the protocol, the gzip trace "
                "file gives the same entries back, and each run's event stream is validated by TLC against Chain.tla.",
        "note": "Trusted: TLC, recorder wrappers (module globals of phyclone.run, no source hooks), projection. Walks and chains are seeded samples.",
    },
    "C17": {
        "engine": "Loader.tla",
        "category": "model_checking",
        "technique": "TLC enumerates all small input tables with the documented kept set, the implementation-shaped rule and the excluded-input flags; each table written as real files in several row orders and loaded",
        "design_ref": "DESIGN.md 5 C17",
        "text": "Loader.tla enumerates every table of 2x2 (all 1 296), 3x2 and 2x3 (sampled; thorough every 7th of 46 656) mutation x sample cells "
                "holding no row, one row with major 1/2/0, a duplicate, or a valid row beside a zero-copy-number row; it gives the documented kept "
                "set, the count-based implementation rule and flags the inputs the property excludes, and proves the two rules differ only "
                "through zero rows removed first. Every judged table is written as TSV/CSV in 4 row orders (optional columns present/absent, "
                "byte-identical and differing duplicates, every other one with a cluster file) and loaded: kept set, names, numbering, sample "
                "order, per-sample rows (= that row loaded alone), bit-identical results across orders, cluster sums and numbering, defaults, "
                "and the major<minor error.",
        "note": "Trusted: TLC, file writer. The grid of a row loaded alone is the per-row reference (the emission model itself is C05).",
    },
    "C18": {
        "engine": "Chains.tla",
        "category": "exploration",
        "technique": "TLC exhaustive interleavings/completion orders of the multi-chain scheduler model; real CLI runs under hash-seed / affinity / start-delay perturbations compared bit-for-bit",
        "design_ref": "DESIGN.md 5 C18",
        "text": "Chains.tla explores every interleaving of K<=3 chains' draws on W worker slots and every completion order: each chain's result is "
                "exactly the draws of its own spawned stream, results are keyed by chain number, no draw is shared; one shared stream and "
                "per-worker-slot streams are refuted. On the real code `phyclone run --seed S --num-chains 2` (outlier modelling and subtree "
                "moves on) is executed under PYTHONHASHSEED 0/4242/1/2, all cores vs one core (taskset), and per-chain start delays that produce "
                "both completion orders (asserted from the run's output), plus two single-chain runs and two runs of a clustered input with --assign-loss-prob (priors drawn with the main generator before the chains are spawned); every trace entry (tree, alpha, log_p_one) "
                "of every chain must be bit-identical across runs. Thorough: 3 proposals x 3 chains.",
        "note": "Level exploration: OS schedules are sampled (exhaustive only in the model). Delays are injected by a sitecustomize on PYTHONPATH guarded by PHYCLONE_VERIF=1; nothing in /repo is modified.",
    },
    "C20": {
        "engine": "TraceFile.tla",
        "category": "fault_enumeration",
        "technique": "TLC model of the streamed write with a crash after any byte; exhaustive truncation of real trace files through the three summary commands",
        "design_ref": "DESIGN.md 5 C20",
        "text": "TraceFile.tla models the single streamed write as byte appends with a crash after any prefix and the one-object reader: "
                "NoPartialResult holds for one pickled object in one gzip member and is refuted for several objects per stream or a reader that "
                "swallows end-of-stream errors. On the real code, trace files of 1-3 chains x 1-6 entries (clustered and not) are written by "
                "create_main_run_output and EVERY prefix length is fed to write_map_results, write_consensus_results and "
                "write_topology_report: each must raise or write outputs byte-identical to those from the complete file; a 1100-entry trace is "
                "swept with a dense prefix sample plus every byte of its last 300.",
        "note": "Crash model: the file is a prefix of the written bytes. Any exception counts as failing with an error.",
    },
    "C19": {
        "engine": "Chain.tla",
        "category": "model_checking",
        "technique": "TLC model of the chain driver over the option cross-product (termination, protocol); full cross-product of real runs; TLC trace validation of every run's event stream",
        "design_ref": "DESIGN.md 5 C19",
        "text": "Chain.tla is model-checked over 2 592 option records (termination under weak fairness, trace protocol, cache freshness; the "
                "never-clear deviation is refuted). run_phyclone_chain is executed for the FULL cross-product of 5 184 CLI boundary option "
                "records (proposal, particles 1-3, threshold 0/.5/1, outlier prob 0/1e-4/.5/1, subtree prob 0/.5/1, thin, burn-in, time limit "
                "inf/0, concentration update) on 1-2 data points (thorough: 1-3 points, 1-2 samples, 2 seeds) plus a seeded sample on 3 points: "
                "no exception, every entry restores, is well-formed, holds all data and has a finite self-consistent log_p_one; each run's "
                "recorded event stream is validated by TLC against Chain.tla.",
        "note": "Trusted: TLC, recorder wrappers. One random trajectory per option record and seed; 3 main iterations; time limit abstracted to {inf, 0}.",
    },
    "C04": {
        "engine": "Moves.tla",
        "category": "model_checking",
        "technique": "TLC exact F_p kernels of the three auxiliary moves (Stationary) + exact transition matrices of the real samplers by RNG enumeration",
        "design_ref": "DESIGN.md 5 C04",
        "text": "TLC builds the exact Markov kernel of the data-point Gibbs move (per point), prune-regraft, and the subtree move with an ideal "
                "inner sampler over all forests on <=3 (quick) / <=4 (thorough) points and proves global balance in F_p for the rules as "
                "specified; the deviations (lone outlier never moved, degree-weighted regraft, stuck on all-outlier tree) are refuted. The real "
                "DataPointSampler, PruneRegraphSampler and ParticleGibbsSubtreeSampler are run from every start forest with every RNG outcome "
                "enumerated (run wiring and library wiring, TLC's tables and the real density) and max|pi K - pi| <= 1e-10 is required. The "
                "subtree move on >=3 points is a listed open finding (TLC refutes even the ideal version); its behaviour is pinned by a fingerprint. "
                "The move relations themselves (MoveRel.tla, shared with Moves.tla; SameRelationInv ties the enumeration-free membership tests to the "
                "candidate sets) are bound beyond these sizes: recorded steps of real chains on 6-8 clustered data points (hundreds of tree-changing "
                "reassignments, regrafts and subtree updates) are validated by TLC against TraceMoves.tla (diagnostic: MODEL-DRIFT).",
        "note": "Trusted: TLC, EnumRNG, projection. Bounded to n<=3 (quick) / n<=4 DP,PRG and n<=3 subtree (thorough).",
    },
    "C05": {
        "engine": "Emission.tla",
        "category": "model_checking",
        "technique": "TLC enumerates copy-number configurations and prints genotype lists and exact rational VAFs on the grid; loaded grids compared with exact-rational pmf mixtures",
        "design_ref": "DESIGN.md 5 C05",
        "text": "Emission.tla enumerates major<=3 (thorough 4) x minor<=major x normal {1,2,3} x error rate {1/1000,1/100,2/5} x tumour content "
                "{1,3/4,1/10}: mutational genotypes with the min(1-eps, .) cap, uniform prior, and the exact rational expected allele fraction of "
                "each genotype at every grid point; GenotypeCount / VafInUnit / VafAtZero hold on all. For 120 sampled (thorough: all) "
                "configurations a real input file with read counts from zero depth to depth 5000 is loaded for the binomial and for the "
                "beta-binomial with precision 1 and 400.5 and every grid entry is compared (1e-9) with the mixture of exact Fraction pmfs of TLC's "
                "VAFs; grids sum to one over alternate counts; several samples in non-sorted file order; a clustered data point equals the sum of "
                "its members' grids with outlier terms times cluster size.",
        "note": "TLC fixes genotypes and VAFs; the binomial/beta-binomial pmf (special-function numerics) is evaluated by the harness in exact rationals - outside what TLC can hold.",
    },
    "C06": {
        "engine": "TreeADT.tla",
        "category": "model_checking",
        "technique": "TLC closure of the Tree edit grammar with symbolic cache signatures; co-exploration of real Tree objects against the TLC edge dump; TLC trace validation of in-place walks; TLC-computed exact grid oracle",
        "design_ref": "DESIGN.md 5 C06",
        "text": "TLC closes the sampler edit grammar (SMC build, data-point move, prune-regraft, subtree extract-rebuild-reattach, relabel, "
                "dict round trip) over 3 data points with outliers (6 162 states, all histories) and checks InvFresh/InvWF/InvConserved after "
                "every public action; deviations are refuted. Every spec edge is then applied to restored copies of real Tree objects (copy, "
                "from_dict, pickled dict in rotation): the projected result must be a spec successor and every cached array and both joint "
                "densities must equal a fresh rebuild and the exact integer grid marginal computed by TLC (GridOracle.tla), on data with "
                "duplicate values. In-place random walks on 4 (thorough: 5) points, with sibling trees sharing grafted subtrees kept alive, are "
                "validated step by step by TLC against the same spec (TraceTreeADT.tla).",
        "note": "Trusted: TLC, projection, builder. Exhaustive for 3 points (names <= 7); sampled walks beyond. Real-valued data compared with fresh rebuild only.",
    },
    "C07": {
        "engine": "TreeADT.tla",
        "category": "model_checking",
        "technique": "TLC invariants (well-formed, data conserved) over the Tree edit-grammar closure; co-exploration and TLC trace validation of real Tree objects; projection check on every output of every enumerated sampler path and of recorded chains",
        "design_ref": "DESIGN.md 5 C07",
        "text": "TLC checks InvWF / InvConserved / NamesUnique on every state of the edit-grammar closure (3 points, all histories) and refutes "
                "the no-relabel deviation. The real Tree is co-explored against that graph (every realised edge must be a spec edge and its "
                "four internal views must agree), in-place walks on 4 points are validated step by step by TLC, every output tree of every RNG "
                "path of the burn-in SMC, particle-Gibbs, subtree, data-point and prune-regraft samplers (1-3 points, incl. one-particle "
                "runs) is projected and must hold exactly the input data, and every sampler call and trace entry of seeded end-to-end chains "
                "is checked the same way.",
        "note": "Trusted: TLC, the projection (reads internals without mutating accessors). Bounds: 3 points exhaustive for edits, <=3 points for sampler paths, sampled chains.",
    },
    "C08": {
        "engine": "Proposal.tla",
        "category": "model_checking",
        "technique": "TLC exhaustive (exact rationals + F_p telescoping) over parents x points x kernels; exact-law replay into real kernels on TLC's tables",
        "design_ref": "DESIGN.md 5 C08",
        "text": "TLC proves for every parent forest with <3 (quick) / <4 (thorough) placed points (incl. empty and outlier-only), every next "
                "point, three kernels, outlier proposal probability 0 and 1/10, with/without permutation density: support = all placements, "
                "probabilities sum to one (exact rationals), draw procedure law = reported density, weights telescope on every path (F_p, two "
                "primes), every tree is reachable along every compatible order. Each (parent, point) is then run through the real kernel on "
                "the same integer tables: exact law of sample() by RNG enumeration, log_p, create_particle().log_w and the last-step weight "
                "are compared with TLC's rationals.",
        "note": "Trusted: TLC, EnumRNG, TableDist (real density bound separately by C02/C03). Parents bounded to <=3 placed points (<=3 top-level clones).",
    },
    "C09": {
        "engine": "Perm.tla",
        "category": "model_checking",
        "technique": "TLC exhaustive over forest universe + exact-law replay into RootPermutationDistribution",
        "design_ref": "DESIGN.md 5 C09",
        "text": "TLC proves on every forest with <=4 (quick) / <=5 (thorough) data points and any outlier subset that the "
                "count formula equals the number of compatible orders and that the bridge-shuffle procedure reaches exactly "
                "those orders uniformly; every such forest is then built as a real Tree and the exact output law of "
                "RootPermutationDistribution.sample (all RNG outcomes enumerated) and log_pdf are compared with TLC's set/count.",
        "note": "Trusted: TLC, the EnumRNG stand-in mirroring numpy's shuffle semantics, the tree builder (public API). Bounded to <=5 data points.",
    },
}


# additions made after the seeded-change rounds (appended to the texts above by gen_manifest.py)
EXTRA_TEXT = {
    "C02": "Edit histories on live objects (in-place walks; a pruned subtree grafted into several trees that all stay alive) are judged after every step against TLC's exact vectors - also the trees not edited in that step. The floor is applied by the property's letter (1e-100 of the exact peak product of the top-level clones' vectors, from TLC's polynomials); a table with a steep parent above two children, and stars / clones with 6-9 children (GridRec.tla evaluated by TLC) are included. On the FFT path: rows spanning more than 745 nats (B = 1e-400) must stay finite; grids of 1011 (thorough also 1201) points have an odd FFT length. Directed histories: every forest on 3 of 4 points, every clone's subtree re-attached below every other clone / at the top without a whole-tree refresh, then the fourth point added to and removed from every clone in place - every step against TLC's exact vectors.",
    "C03": "Further settings: samples whose likelihoods differ by 900 nats; every forest on 5 points also rebuilt by cutting a clone's subtree out and grafting a fresh one (same shape, or one clone) where it hung. Constructions edited after relabel_nodes (a data point moved in the relabelled copy) are judged as the forest they then represent. Trees holding outliers whose data points carry no outlier prior are judged too; forests with 6-9 children per node get their feature records from Density.tla (Starts) and their exact root vectors from GridRec.tla. Forests with clones of 130-260 data points are evaluated one after the other in one process (Density.tla Starts + GridRec.tla on flat data); both densities are also judged on a tree from which a subtree was removed AFTER an evaluation, and on its copy.",
    "C04": "Single reassignments beyond these sizes: for deep forests on 4-5 points TLC (MoveRel.tla) gives the candidate set of a reassignment, the real DataPointSampler._sample_tree is run from every member with all outcomes enumerated, and the block must be invariant. A chain of 40 clones whose attachments are conditionally certain (every alternative < e^-100): 70 (thorough 150) prune-regraft calls must all return the start tree. The regraft block of PruneRegraphSampler is judged on bushy forests (a clone with several children, all attachment points enumerated) and one configuration uses a data point WITHOUT an outlier prior among points that have one. Single reassignments are also started from trees that went through the two halves of a prune-regraft move (same forest, other graph positions, no whole-tree refresh).",
    "C05": "LossProb.tla (option resolution of run(), cluster-table column, truncal cluster, lost-cluster test with the exact law of distinct chromosomes, prior terms; all instances over 3 clusters x 2 samples x 128 option records model-checked) gives the prior of every cluster for 60+ harness instances (thorough 240+) driven through phyclone.run.run up to the end of load_data: each data point's two prior terms must be size x log p / size x log(1-p) for the probability the documented options and the cluster table resolve to; a differing truncal cluster alone is MODEL-DRIFT. A cluster file listing mutations the loader drops: every data point is the sum of its kept members' grids. Multi-sample files mix copy numbers, error rates, tumour contents and zero-depth samples (no reads in the first or the middle sample) per row. A deep row (3 variant reads of 2997; all-variant rows) is evaluated where naive mixtures underflow. A mutation whose copy-number state differs from sample to sample (states with more genotypes before states with fewer, and the reverse) must get each sample's own grid, for both densities.",
    "C06": "Walks on data of magnitude 1e5 and histories on a 1000-point grid (FFT path; a fixed sibling history plus random walks) are snapshotted step by step and compared at the end with rebuilds made with cold memo tables. Dictionaries taken with to_dict() BEFORE in-place edits must still restore the earlier tree; recorded steps TLC does not match are re-validated as abstract forests and rejected ones are violations. Directed histories with two live trees: a subtree is extracted while the host keeps it, one of the two is edited in place (data point added / removed, relabelled) and both are compared with fresh rebuilds.",
    "C07": "The recorded chains (incl. one event per single-point reassignment inside a data-point sweep) are validated by TLC against MoveRel.tla (TraceMoves.tla): every call receives the tree the previous step produced, every output is a forest over the same data (verdict), each reassignment / regraft / subtree update is a step of the move relations (diagnostic, MODEL-DRIFT). Every forest on 5 points is also rebuilt the way the subtree move builds trees (cut a clone's subtree, graft a fresh one of the same shape or one clone); the recorded entries of chains on nested-clone data with outliers are re-verified at the END of the run. Every outcome of the data-point move is projected on trees whose clone names have gaps (every forest on 5 points rebuilt by cut-and-graft): well-formed, same data, input untouched. The samplers are also driven as a library (one kernel shared by the whole-tree and subtree samplers, no clearing of the proposal memo tables); chains with a time limit that is used up at once or after 3 ms; the extract-then-edit histories of C06 are judged for well-formedness.",
    "C01": "Recorded conditional-SMC swarms (incl. quantised particle weights) are validated by TLC against PGibbsSM.tla (TracePGibbs.tla): retained path, lineages, and the adaptive-resampling rule (resample iff relative ESS <= threshold; uniform weights afterwards) - diagnostic for this property. Configurations include three particles with resampling thresholds 0.75 and 0.9 (the adaptive decision really depends on the weights) and heavy two-sample data. The option handling of run() is bound too (LossProb.tla instances through run() up to the arguments of run_phyclone_chain): whenever the loaded data carry outlier priors the chain must be built with outlier proposals on.",
    "C09": "The order each sampler actually hands to its SMC pass (burn-in and particle Gibbs; the SMC classes replaced by a capturing stub) must have the same law. Large inputs go up to 2600 data points (clones and an outlier set of more than 1024 points); orders drawn on them are checked for compatibility. The subtree sampler's pass is included (orders grouped by the block the pass is conditioned on); every particle of a retained SMC path must carry -log(count) of the partial tree it holds (with and without outliers). Every particle a kernel PROPOSES (all parents incl. empty / outlier-only, all kernels, every outcome) must carry -log(count) of the tree it holds.",
    "C11": "Each worker re-writes the trace at the SAME path for every trace it handles (a long-lived driver): the commands must summarise what the file holds now.",
    "C12": "Traces holding several different trees, incl. exact 50/50 splits between incompatible clades, go through all commands (counts / weighted / threshold 0.75): they must complete with complete, tree-consistent tables. Traces carry thinned iteration numbers (0, 0, k, 2k, ...), the frequency MAP is run on them, and tables use a 7-point grid (CCFs not representable with two decimals).",
    "C13": "In the recorded chains every particle of every final swarm must carry the fixed-root density of its tree under the concentration value current at that moment. One sampler object is called 3 000 times in sequence with (K, n) changing from call to call, each call continuing from the previous value: the probability integral transform with the exact one-step CDF must be uniform per (K, n) class. Concentration.tla also covers (K, n) = (172, 172), (200, 400), (500, 2000); for updates that draw from the generator directly both mixture components must be reachable there. The (K, n) extraction is repeated on data points built by the loader from a pre-clustered input (clusters of 1-3 mutations). The particle densities are judged under the value the CHAIN's distribution object holds (not the sampler's own reference to it).",
    "C14": "The real key objects of the two convolution memo tables are built for 2e5 (thorough 4e5) different grids: no two may agree (a collision is then demonstrated on the real cache). Edit-grammar histories (TreeADT actions as in-place walks) and prune-regrafts from chain-shaped trees run under the shadow wrappers; every candidate tree a proposal hands out (incl. the first SMC step, no parent) must carry the densities of its tree under the concentration value current at that moment. Parents holding the same clones under swapped labels are served one after the other without a clear: the same random outcomes must give the same trees as with cold caches. Random forests on 30 data points push both convolution memo tables far past their capacity (LRU evictions). Two successive draws from the memoised proposal of parents with 3-4 top-level clones are enumerated: the conditional law of the second draw (cache hit) given the first must equal the law of a cold object.",
    "C17": "Error rates vary per row within a copy-number state. Clustered inputs with per-cluster prior columns / --assign-loss-prob (instances of LossProb.tla incl. truncal ties and Monte-Carlo borderline cases) are loaded in 4 (thorough 6) row orders of both files, reversed and shuffled, with a fixed seed: identical data points required. Sample ids are purely numeric in a fifth of the tables (tab- and comma-separated). Inputs with twelve samples (more than the ten the loader prints in full) must give the same data in every row order. Every fourth table carries two annotation columns the loader does not use, with empty and NA cells.",
    "C18": "Chains.tla also models the loader's draws on the parent stream before the chains exist and worker processes with process-global memo tables (a queued chain may start on a used worker: ColdStartPerChain). Real runs added: clustered input with --assign-loss-prob (1 and 2 chains), the loader under 6 hash seeds on borderline clustered inputs, a 3-chain run in which ONE worker process executes all chains (other workers' start-up delayed; which process ran which chain is recorded) against one process per chain (also 2 chains on six mutations, two seeds - few data points, so the memo tables are not flushed between chains). One chain on a 512-point grid is run twice with the first calls of the direct / of the FFT convolution routine slowed down (results untouched). Further groups: --seed 0 twice, a 36-mutation cluster; besides the trace bytes the stored data points are compared bit for bit. An input of 1200 mutations (with and without a 40-cluster file) is loaded in 4 (thorough 6) fresh processes, one confined to one core: order, names and grids of the data points must agree bit for bit.",
    "C08": "The permutation density a particle carries (part of the final target of every path) must be 1 / (number of compatible orders, from Perm.tla) for every forest on one more data point than the kernels are enumerated on.",
    "C10": "A crafted table with a lineage absent from one sample (CCF 0 there, children present in the other sample) is included; the values as WRITTEN by the map command and the topology archive on 128-, 64- and 150-point grids must be on the grid, feasible and prevalence-consistent (1e-12). A 301-point grid with optima beyond index 255 is checked against the directly evaluated definitional optimum of two 2-clone forests (TLC's oracle does not reach that grid size). Twelve samples S1..S12 stored in the loader's order: the values written for each sample must attain THAT sample's optimum (TLC).",
    "C15": "Trees of 8 clones from which a clade of three and more clones was cut or collapsed (several unused graph slots) and the cut subtrees go through all three serialisation routes. Data sets contain a duplicated data point (two points with identical values); the densities recorded in every trace entry are re-evaluated with cold memo tables.",
    "C16": "Every third file-route trace is a clustered run whose integer cluster ids have gaps and do not start at 0. Weighted consensus runs include traces with clone-less (outlier-only) states, through the command. Each worker re-writes the trace at the SAME path for every trace it handles: the consensus must be that of what the file holds now.",
    "C19": "A further sweep uses heavy data points (log-likelihoods around -900 per sample row, 3 samples). Command-line runs include 1000- and 1001-point grids (FFT convolution) with two samples. Half of the command-line runs use the pre-clustered input (integer cluster ids with gaps, not starting at 0). Crafted data are run with every proposal: one clonal + four subclonal mutations (a clone with four children), and sharply informative mutations at incompatible high CCFs (every convolution term underflows).",
    "C20": "Every file the writer creates beside the trace counts as run output (crash points: earlier files complete, the current one cut at any byte, later ones absent); in the real-crash part the checking process has already summarised the older run before the re-write is killed. The real writer is also cut short by an exception raised from the gzip stream's write() (a one-shot interrupt; a full disk that keeps failing) at seven points, after which the writer unwinds and the process ends: every command must fail or report the complete new run. Kill points include 0, 1, 6 and 12 bytes (before anything was flushed). TraceStore.tla models the re-write as a state machine (truncate-on-open, kill, interrupt, companion files, tmp+rename, reader memo, no-truncate) with NeverPartial / NeverStale.",
}
