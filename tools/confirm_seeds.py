#!/usr/bin/env python3
"""Confirm seeded changes produced by sub-agents and record them under /verif/seeded/.

For every /tmp/seed/out-<ID>/m<k> (or an adapted patch under /tmp/seed/adapted/): scratch worktree of /repo HEAD, apply the
patch, run the demonstration with and without the change, run the repository's test suite with the change, run the
quick check(s) against the changed tree (PCV_REPO), write seeded/<ID>-m<k>/{patch.diff,demo.py,notes.md,meta.json},
remove the worktree."""
import json, os, re, shutil, subprocess, sys, time
from concurrent.futures import ThreadPoolExecutor

VERIF = "/verif"
CHECK_ROOT = os.environ.get("PCV_CHECK_ROOT", VERIF)   # run the checks from a snapshot of /verif so that edits in /verif do not disturb a long run
PY = "/venv/bin/python"
EXTRA_CHECKS = {"C08b-m1": ["C01"], "C14b-m2": ["C15", "C07"], "C01-m1": ["C09"], "C01-m2": ["C03"], "C08-m1": ["C14"], "C19-m1": ["C07"], "C05-m1": ["C17"], "C12-m2": ["C10"], "C03-m1": ["C06", "C14"],
                "C06-m1": ["C14", "C03"], "C14-m1": ["C06"], "C14-m2": ["C08"], "C04-m2": ["C07"], "C07-m1": ["C04"], "C13-m2": []}


def sh(cmd, cwd=None, env=None, timeout=3600):
    p = subprocess.run(cmd, cwd=cwd, env=env, stdout=subprocess.PIPE, stderr=subprocess.STDOUT, timeout=timeout)
    return p.returncode, p.stdout.decode("utf-8", "replace")


def confirm(name, src, patch):
    pid = name.split("-")[0].rstrip("bcdefghij")
    wt = "/tmp/seedchk/%s" % name
    bd = "/tmp/seedchk/build-%s" % name
    shutil.rmtree(bd, ignore_errors=True)
    sh(["git", "-C", "/repo", "worktree", "remove", "--force", wt])
    for _try in range(5):
        rc, out = sh(["git", "-C", "/repo", "worktree", "add", "--detach", wt, "HEAD"])
        if rc == 0:
            break
        time.sleep(2)
    meta = {"name": name, "property": pid, "source": src, "repo_head": sh(["git", "-C", "/repo", "rev-parse", "--short", "HEAD"])[1].strip(), "confirmed_at": time.strftime("%Y-%m-%d %H:%M")}
    try:
        rc, out = sh(["git", "-C", wt, "apply", patch])
        meta["applies"] = (rc == 0)
        if rc != 0:
            meta["apply_error"] = out[-400:]
            return meta
        env = dict(os.environ, PYTHONPATH=wt, PYTHONHASHSEED="0")
        demo = os.path.join(src, "demo.py")
        if os.path.exists(demo):
            rc_m, out_m = sh([PY, demo], cwd=wt, env=env, timeout=1800)
            rc_c, out_c = sh([PY, demo], cwd="/repo", env=dict(os.environ, PYTHONPATH="/repo", PYTHONHASHSEED="0"), timeout=1800)
            meta["demo"] = {"exit_with_change": rc_m, "exit_without_change": rc_c, "message_with_change": out_m.strip().splitlines()[-3:]}
        rc_t, out_t = sh([PY, "-m", "pytest", "-q", "-p", "no:cacheprovider", "--timeout=900", "--continue-on-collection-errors", "phyclone/tests"], cwd=wt, env=env, timeout=3000)
        m = re.search(r"(\d+) passed", out_t)
        f = re.search(r"(\d+) failed", out_t)
        meta["tests"] = {"passed": int(m.group(1)) if m else 0, "failed": int(f.group(1)) if f else 0, "summary": out_t.strip().splitlines()[-1]}
        meta["checks"] = {}
        for chk in [pid] + EXTRA_CHECKS.get(name, []):
            e2 = dict(os.environ, PCV_REPO=wt, PCV_BUILD_DIR=bd, PCV_EVIDENCE_DIR=os.path.join(bd, "evidence"), PCV_REPLAY_DIR=os.path.join(bd, "replays"), VERIF_TIER="quick")
            rc_k, out_k = sh([os.path.join(CHECK_ROOT, "check"), chk, "--tier", "quick"], cwd=CHECK_ROOT, env=e2, timeout=3000)
            lines = [l[:260] for l in out_k.splitlines() if l.startswith(("VIOLATION", "MACHINERY", "OK property", "KNOWN-FINDING"))]
            meta["checks"][chk] = {"exit": rc_k, "detected": rc_k == 1, "lines": lines[:4]}
        return meta
    finally:
        sh(["git", "-C", "/repo", "worktree", "remove", "--force", wt])
        shutil.rmtree(bd, ignore_errors=True)


def main():
    todo = []
    for d in sorted(os.listdir("/tmp/seed")):
        if d.startswith("out-") and os.path.isdir(os.path.join("/tmp/seed", d)):
            pid = d[4:]
            for m in sorted(os.listdir(os.path.join("/tmp/seed", d))):
                src = os.path.join("/tmp/seed", d, m)
                if os.path.isdir(src) and os.path.exists(os.path.join(src, "patch.diff")):
                    name = "%s-%s" % (pid, m)
                    adapted = "/tmp/seed/adapted/%s.diff" % name
                    todo.append((name, src, adapted if os.path.exists(adapted) else os.path.join(src, "patch.diff")))
    only = sys.argv[1:]
    if only == ["--all"]:
        only = []
        force_all = True
    else:
        force_all = False
    if force_all:
        for t in todo:
            srcd = os.path.join(VERIF, "seeded", t[0])
        # use the kept copies under /verif/seeded as the source of truth when /tmp/seed is gone
        todo = []
        for nm in sorted(os.listdir(os.path.join(VERIF, "seeded"))):
            d = os.path.join(VERIF, "seeded", nm)
            if os.path.exists(os.path.join(d, "patch.diff")):
                todo.append((nm, d, os.path.join(d, "patch.diff")))
    elif only:
        todo = [t for t in todo if t[0] in only or t[0].split("-")[0] in only]
    else:
        todo = [t for t in todo if not os.path.exists(os.path.join(VERIF, "seeded", t[0], "meta.json"))]
    os.makedirs("/tmp/seedchk", exist_ok=True)
    with ThreadPoolExecutor(max_workers=int(os.environ.get("PCV_SEED_WORKERS", "4"))) as ex:
        futs = {ex.submit(confirm, *t): t for t in todo}
        for f in futs:
            name, src, patch = futs[f]
            meta = f.result()
            ok = meta.get("applies") and meta.get("demo", {}).get("exit_with_change", 0) != 0 and meta.get("demo", {}).get("exit_without_change", 1) == 0 and meta.get("tests", {}).get("passed", 0) >= 85
            meta["kept"] = bool(ok)
            dst = os.path.join(VERIF, "seeded", name)
            if ok:
                os.makedirs(dst, exist_ok=True)
                if os.path.abspath(patch) != os.path.abspath(os.path.join(dst, "patch.diff")):
                    shutil.copy(patch, os.path.join(dst, "patch.diff"))
                for fn in ("demo.py", "notes.md"):
                    if os.path.exists(os.path.join(src, fn)) and os.path.abspath(src) != os.path.abspath(dst):
                        shutil.copy(os.path.join(src, fn), os.path.join(dst, fn))
                old = {}
                if os.path.exists(os.path.join(dst, "meta.json")):
                    old = json.load(open(os.path.join(dst, "meta.json")))
                for k_ in ("needs", "breaks", "ran"):
                    if k_ in old:
                        meta[k_] = old[k_]
                json.dump(meta, open(os.path.join(dst, "meta.json"), "w"), indent=1)
            det = {k: v["detected"] for k, v in meta.get("checks", {}).items()}
            print(name, "KEPT" if ok else "NOT-KEPT", "applies=%s" % meta.get("applies"), "demo=%s" % meta.get("demo", {}).get("exit_with_change"), "/%s" % meta.get("demo", {}).get("exit_without_change"),
                  "tests=%s" % meta.get("tests", {}).get("summary", "")[:60], "detected=%s" % det)
            sys.stdout.flush()
            if not ok:
                json.dump(meta, open("/tmp/seedchk/%s.meta.json" % name, "w"), indent=1)


if __name__ == "__main__":
    main()
