#!/usr/bin/env python3
"""Regenerates MANIFEST.json from the table below (single source of truth for the interface)."""
import json, os, sys
HERE = os.path.dirname(os.path.dirname(os.path.abspath(__file__)))
sys.path.insert(0, HERE)
from tools.manifest_table import CHECKS, NOT_APPLICABLE, ENGINES, NOTES, SOURCE_COMMITS
from tools import manifest_table

props = [json.loads(l)["id"] for l in open(os.path.join(HERE, "properties.jsonl"))]
checks = []
for pid in props:
    if pid not in CHECKS:
        continue
    c = CHECKS[pid]
    checks.append({
        "property_id": pid,
        "quick_cmd": "./check %s --tier quick" % pid,
        "thorough_cmd": "./check %s --tier thorough" % pid,
        "evidence_file": "/verif/evidence/%s.json" % pid,
        "replay_cmd_template": "./check %s --replay {path}" % pid,
        "engine": c["engine"],
        "level_claimed": {"category": c["category"], "text": c["text"] + (" " + getattr(manifest_table, "EXTRA_TEXT", {}).get(pid, "") if getattr(manifest_table, "EXTRA_TEXT", {}).get(pid) else ""), "design_ref": c["design_ref"]},
        "level_note": c["note"],
        "technique": c["technique"],
    })
na = [{"property_id": p, "reason": NOT_APPLICABLE.get(p, "check not built yet in this round (see DESIGN.md section 10); no claim is made")}
      for p in props if p not in CHECKS]
m = {
    "version": 1,
    "setup_cmd": "mkdir -p build evidence replays && /venv/bin/python -m pcv.setup",
    "hooks": {
        "guard": "PHYCLONE_VERIF",
        "enable": "checks import phyclone from /repo's working tree with PHYCLONE_VERIF=1 set by pcv.env; recorders are attached from the harness (wrappers on module bindings at run time; /verif/pcv/sitecustom/sitecustomize.py on PYTHONPATH for spawned `phyclone run` workers); no source hooks live in /repo",
        "baseline_off_cmd": "cd /repo && env -u PHYCLONE_VERIF /venv/bin/python -m pytest -ra -q -p no:cacheprovider --timeout=900 --continue-on-collection-errors",
        "source_commits": SOURCE_COMMITS,
        "add_only": True,
    },
    "engines": ENGINES,
    "checks": checks,
    "notes": NOTES,
    "not_applicable": na,
}
json.dump(m, open(os.path.join(HERE, "MANIFEST.json"), "w"), indent=1)
print("wrote MANIFEST.json with %d checks, %d not_applicable" % (len(checks), len(na)))
