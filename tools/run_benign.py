#!/usr/bin/env python3
"""Applies every /verif/benign/*.diff to a scratch worktree of /repo HEAD and runs the quick checks against it
(PCV_REPO): every check must exit 0 (MODEL-DRIFT lines are allowed).  Usage: run_benign.py [B1 B5 ...] [--checks C01,C06]"""
import glob, os, shutil, subprocess, sys, time
from concurrent.futures import ThreadPoolExecutor
VERIF = "/verif"
ROOT = os.environ.get("PCV_CHECK_ROOT", VERIF)
ALL = ["C%02d" % i for i in range(1, 21)]


def sh(cmd, cwd=None, env=None, timeout=7200):
    p = subprocess.run(cmd, cwd=cwd, env=env, stdout=subprocess.PIPE, stderr=subprocess.STDOUT, timeout=timeout)
    return p.returncode, p.stdout.decode("utf-8", "replace")


def one(diff, checks):
    name = os.path.basename(diff).split("_")[0]
    wt, bd = "/tmp/benignchk/%s" % name, "/tmp/benignchk/build-%s" % name
    sh(["git", "-C", "/repo", "worktree", "remove", "--force", wt])
    shutil.rmtree(bd, ignore_errors=True)
    for _ in range(5):
        rc, out = sh(["git", "-C", "/repo", "worktree", "add", "--detach", wt, "HEAD"])
        if rc == 0:
            break
        time.sleep(2)
    res = {}
    try:
        rc, out = sh(["git", "-C", wt, "apply", diff])
        if rc != 0:
            return name, {"apply": out[-300:]}
        for c in checks:
            e = dict(os.environ, PCV_REPO=wt, PCV_BUILD_DIR=bd, PCV_EVIDENCE_DIR=os.path.join(bd, "evidence"), PCV_REPLAY_DIR=os.path.join(bd, "replays"))
            rc, out = sh([os.path.join(ROOT, "check"), c, "--tier", "quick"], cwd=ROOT, env=e)
            lines = [l[:200] for l in out.splitlines() if l.startswith(("VIOLATION", "MACHINERY", "MODEL-DRIFT"))]
            res[c] = (rc, lines[:3])
    finally:
        sh(["git", "-C", "/repo", "worktree", "remove", "--force", wt])
        shutil.rmtree(bd, ignore_errors=True)
    return name, res


def main():
    args = [a for a in sys.argv[1:] if not a.startswith("--")]
    checks = ALL
    for a in sys.argv[1:]:
        if a.startswith("--checks"):
            checks = a.split("=", 1)[1].split(",")
    diffs = sorted(glob.glob(os.path.join(VERIF, "benign", "*.diff")))
    if args:
        diffs = [d for d in diffs if os.path.basename(d).split("_")[0] in args]
    os.makedirs("/tmp/benignchk", exist_ok=True)
    with ThreadPoolExecutor(max_workers=4) as ex:
        for name, res in ex.map(lambda d: one(d, checks), diffs):
            bad = {c: v for c, v in res.items() if c == "apply" or v[0] != 0}
            drift = {c: v[1] for c, v in res.items() if c != "apply" and v[0] == 0 and v[1]}
            print(name, "GREEN" if not bad else "NOT-GREEN %s" % bad, ("drift in %s" % sorted(drift)) if drift else "")
            sys.stdout.flush()


if __name__ == "__main__":
    main()
